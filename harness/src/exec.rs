//! Running the real lace code under monitors: unwinding guard, assembler driver, VM driver.

use std::cell::RefCell;
use std::collections::VecDeque;
use std::panic::{catch_unwind, AssertUnwindSafe};

use lace::verif::{self, Monitor, VerifExit, VerifFuel, VerifKeys};
use lace::{AsmParser, RunEnvironment, StaticSource};

thread_local! {
    static LAST_PANIC: RefCell<Option<(String, String)>> = const { RefCell::new(None) };
}

/// Install a silent panic hook which records location and message per thread.
pub fn install_panic_hook() {
    std::panic::set_hook(Box::new(|info| {
        let loc = info
            .location()
            .map(|l| format!("{}:{}", l.file(), l.line()))
            .unwrap_or_else(|| "?".into());
        let msg = if let Some(s) = info.payload().downcast_ref::<&str>() {
            s.to_string()
        } else if let Some(s) = info.payload().downcast_ref::<String>() {
            s.clone()
        } else {
            "<non-string payload>".into()
        };
        if let Ok(mut g) = LAST_PANIC_ANY_THREAD.lock() {
            *g = Some((loc.clone(), msg.clone()));
        }
        LAST_PANIC.with(|p| *p.borrow_mut() = Some((loc, msg)));
    }));
}

/// Location and message of the most recent panic on any thread (for reporting a panic of the
/// harness itself, whose thread-local record dies with the thread).
pub static LAST_PANIC_ANY_THREAD: std::sync::Mutex<Option<(String, String)>> = std::sync::Mutex::new(None);

/// Why control left the real code other than by returning.
#[derive(Clone, Debug, PartialEq)]
pub enum Abort {
    /// Library called `process::exit(code)`.
    Exit(i32),
    /// Run-loop iteration budget exhausted.
    Fuel,
    /// Line editor asked for more keys than queued.
    Keys,
    /// A genuine panic (overflow, debug_assert, unreachable, slice bounds...).
    Panic { loc: String, msg: String },
}

impl Abort {
    pub fn short(&self) -> String {
        match self {
            Abort::Exit(c) => format!("exit({})", c),
            Abort::Fuel => "fuel".into(),
            Abort::Keys => "keys".into(),
            Abort::Panic { loc, msg } => format!("panic@{} {}", strip_repo(loc), first_line(msg)),
        }
    }
    /// The documented-unimplemented RTI (`todo!()`): outside every claim.
    pub fn is_rti_todo(&self) -> bool {
        matches!(self, Abort::Panic { msg, .. } if msg.contains("RTI") && msg.contains("not yet implemented"))
    }
    /// Location with the repository prefix removed and line number kept.
    pub fn panic_site(&self) -> String {
        match self {
            Abort::Panic { loc, .. } => strip_repo(loc),
            other => other.short(),
        }
    }
    /// File of the panic site only (stable under unrelated edits that shift lines).
    pub fn panic_file(&self) -> String {
        match self {
            Abort::Panic { loc, .. } => {
                let s = strip_repo(loc);
                s.rsplit_once(':').map(|(f, _)| f.to_string()).unwrap_or(s)
            }
            other => other.short(),
        }
    }
}

fn strip_repo(loc: &str) -> String {
    loc.strip_prefix("/repo/").unwrap_or(loc).to_string()
}
fn first_line(s: &str) -> String {
    let l = s.lines().next().unwrap_or("");
    l.chars().take(120).collect()
}

/// Run `f`, turning every way of not returning into a typed [`Abort`].
pub fn guard<R>(f: impl FnOnce() -> R) -> Result<R, Abort> {
    LAST_PANIC.with(|p| *p.borrow_mut() = None);
    match catch_unwind(AssertUnwindSafe(f)) {
        Ok(r) => Ok(r),
        Err(payload) => {
            if let Some(VerifExit(code)) = payload.downcast_ref::<VerifExit>() {
                Err(Abort::Exit(*code))
            } else if payload.downcast_ref::<VerifFuel>().is_some() {
                Err(Abort::Fuel)
            } else if payload.downcast_ref::<VerifKeys>().is_some() {
                Err(Abort::Keys)
            } else {
                let (loc, msg) = LAST_PANIC
                    .with(|p| p.borrow_mut().take())
                    .unwrap_or_else(|| ("?".into(), "?".into()));
                Err(Abort::Panic { loc, msg })
            }
        }
    }
}

/// Must be called at most once per thread, before any lexing.
pub fn init_features(stack: bool) {
    let features: lace::features::Features =
        if stack { "stack" } else { "" }.parse().expect("feature string");
    lace::features::init(features);
}

#[derive(Clone, Debug)]
pub struct Image {
    pub orig: Option<u16>,
    pub words: Vec<u16>,
    /// `.break` positions as statement indices.
    pub breaks: Vec<u16>,
    /// Byte span (offset, len) of each statement in the source.
    pub spans: Vec<(usize, usize)>,
}

impl Image {
    pub fn origin(&self) -> u16 {
        self.orig.unwrap_or(0x3000)
    }
    /// Origin word followed by the statement words (what `compile` writes / `from_raw` takes).
    pub fn raw(&self) -> Vec<u16> {
        let mut v = Vec::with_capacity(self.words.len() + 1);
        v.push(self.origin());
        v.extend_from_slice(&self.words);
        v
    }
}

#[derive(Clone, Debug)]
pub struct Diag {
    /// "lex/parse", "backpatch", "emit"; "load" from `build_env` (the text assembled, the environment was refused)
    pub stage: &'static str,
    /// `{:?}` rendering of the report (what the CLI prints).
    pub rendered: String,
    /// Labelled spans (offset, len).
    pub labels: Vec<(usize, usize)>,
    pub message: String,
}

#[derive(Clone, Debug)]
pub enum AsmOutcome {
    Ok(Image),
    Rejected(Diag),
    Crashed { stage: &'static str, abort: Abort },
}

impl AsmOutcome {
    pub fn class(&self) -> &'static str {
        match self {
            AsmOutcome::Ok(_) => "accepted",
            AsmOutcome::Rejected(_) => "rejected",
            AsmOutcome::Crashed { .. } => "crashed",
        }
    }
}

fn diag_of(stage: &'static str, report: miette::Report) -> Result<Diag, Abort> {
    // Rendering is part of the property (C05): do it under the guard.
    guard(|| {
        let rendered = format!("{:?}", report);
        let message = format!("{}", report);
        let labels = report
            .labels()
            .map(|it| it.map(|l| (l.offset(), l.len())).collect())
            .unwrap_or_default();
        Diag {
            stage,
            rendered,
            labels,
            message,
        }
    })
}

/// Assemble through the public API exactly as `main.rs` + `RunEnvironment::try_from` do:
/// `AsmParser::new(src)?.parse()? -> backpatch()? -> emit()` for every statement.
///
/// `features` must already be initialised on this thread. The symbol table is *not* reset here.
pub fn assemble_static(src: &'static str) -> AsmOutcome {
    let mut stage: &'static str = "lex/parse";
    let res = guard(|| -> Result<Image, (&'static str, miette::Report)> {
        let parser = AsmParser::new(src).map_err(|e| ("lex/parse", e))?;
        let mut air = parser.parse().map_err(|e| ("lex/parse", e))?;
        stage = "backpatch";
        air.backpatch().map_err(|e| ("backpatch", e))?;
        stage = "emit";
        let mut words = Vec::with_capacity(air.len());
        let mut spans = Vec::with_capacity(air.len());
        for stmt in &air {
            words.push(stmt.emit().map_err(|e| ("emit", e))?);
            spans.push((stmt.span.offs(), stmt.span.len()));
        }
        let breaks = air.breakpoints.iter().map(|b| b.address).collect();
        Ok(Image {
            orig: air.orig(),
            words,
            breaks,
            spans,
        })
    });
    match res {
        Ok(Ok(img)) => AsmOutcome::Ok(img),
        Ok(Err((st, report))) => match diag_of(st, report) {
            Ok(d) => AsmOutcome::Rejected(d),
            Err(abort) => AsmOutcome::Crashed {
                stage: "render-diagnostic",
                abort,
            },
        },
        Err(abort) => AsmOutcome::Crashed { stage, abort },
    }
}

/// Assemble a text on this (fresh) thread with the given feature flag; frees the source afterwards.
pub fn assemble_fresh(text: &str, stack: bool) -> AsmOutcome {
    init_features(stack);
    let mut source = StaticSource::new(text.to_string());
    let out = assemble_static(source.src());
    source.reclaim();
    out
}

/// The same, as the second assembly on its thread: `before` is assembled first (whatever comes of
/// it), then the documented `reset_state()`, then `text`.
pub fn assemble_after(before: &str, text: &str, stack: bool) -> AsmOutcome {
    init_features(stack);
    let mut first = StaticSource::new(before.to_string());
    let _ = assemble_static(first.src());
    first.reclaim();
    lace::reset_state();
    let mut source = StaticSource::new(text.to_string());
    let out = assemble_static(source.src());
    source.reclaim();
    out
}

// ---------------------------------------------------------------- VM driver

#[derive(Clone, Debug, Default)]
pub struct FinalState {
    pub reg: [u16; 8],
    pub pc: u16,
    pub cc: u8,
    pub orig: u16,
    pub mem_hash: u64,
}

pub struct RunObs {
    /// `Ok(())`: `run()` returned. `Err`: exit / fuel / panic.
    pub end: Result<(), Abort>,
    pub ticks: u64,
    pub fetches: u64,
    pub trace: Vec<(u16, u16)>,
    pub out_normal: String,
    pub out_debugger: String,
    pub input_taken: u64,
    pub prompts: u64,
    pub commands: Vec<String>,
    pub debugger_attached_at_end: bool,
}

pub struct RunCfg {
    pub fuel: Option<u64>,
    pub input: Vec<u8>,
    pub keep_trace: bool,
    pub on_prompt: Option<Box<dyn FnMut(&verif::PromptView)>>,
}

impl Default for RunCfg {
    fn default() -> Self {
        RunCfg {
            fuel: Some(100_000),
            input: Vec::new(),
            keep_trace: false,
            on_prompt: None,
        }
    }
}

/// Run `env.run()` under an armed monitor. The environment is readable afterwards whatever the end.
pub fn run_env(env: &mut RunEnvironment, cfg: RunCfg) -> RunObs {
    verif::install(Monitor {
        armed: true,
        fuel: cfg.fuel,
        keep_trace: cfg.keep_trace,
        input: Some(VecDeque::from(cfg.input)),
        on_prompt: cfg.on_prompt,
        ..Default::default()
    });
    let end = guard(|| env.run());
    let m = verif::take().expect("monitor still installed");
    RunObs {
        end,
        ticks: m.ticks,
        fetches: m.fetches,
        trace: m.trace,
        out_normal: m.out_normal,
        out_debugger: m.out_debugger,
        input_taken: m.input_taken,
        prompts: m.prompts,
        commands: m.commands,
        debugger_attached_at_end: env.verif_has_debugger(),
    }
}

/// `RunEnvironment::from_raw` under the guard (it calls `process::exit` on bad images).
pub fn load_raw(raw: &[u16]) -> Result<RunEnvironment, Abort> {
    verif::install(Monitor {
        armed: true,
        ..Default::default()
    });
    let r = guard(|| RunEnvironment::from_raw(raw));
    verif::take();
    match r {
        Ok(Ok(env)) => Ok(env),
        Ok(Err(e)) => Err(Abort::Panic {
            loc: "from_raw".into(),
            msg: format!("unexpected Err: {}", e),
        }),
        Err(a) => Err(a),
    }
}

pub fn final_state(env: &RunEnvironment) -> FinalState {
    let v = env.verif_view();
    FinalState {
        reg: *v.reg,
        pc: v.pc,
        cc: v.cc,
        orig: v.orig,
        mem_hash: crate::util::hash_words(&v.mem[..]),
    }
}

thread_local! {
    static CASE_MINIMAL: std::cell::Cell<bool> = const { std::cell::Cell::new(true) };
}

/// Output mode for the environments built on this (case) thread from now on. Monitors that compare
/// machine state rather than debugger text also run with the decorated (non-minimal) output paths.
pub fn case_minimal(minimal: bool) {
    CASE_MINIMAL.with(|c| c.set(minimal));
}

/// Assemble `text` on this (fresh) thread and build the run environment exactly as the CLI does
/// (`AsmParser::new -> parse -> backpatch -> RunEnvironment::try_from`), optionally attaching the
/// debugger with a `--command` script. Minimal output mode is on unless `case_minimal(false)`.
pub fn build_env(
    text: &str,
    stack: bool,
    script: Option<String>,
) -> Result<(RunEnvironment, Image), AsmOutcome> {
    init_features(stack);
    lace::set_minimal(CASE_MINIMAL.with(|c| c.get()));
    // The debugger keeps `&'static str` into the source: leak it for the life of the thread.
    let source = StaticSource::new(text.to_string());
    let src = source.src();
    std::mem::forget(source);

    // Assemble once for the image description...
    let image = match assemble_static(src) {
        AsmOutcome::Ok(img) => img,
        other => return Err(other),
    };
    // ...and once more (after the documented reset) for the environment.
    lace::reset_state();
    verif::install(Monitor {
        armed: true,
        ..Default::default()
    });
    let built = guard(|| -> Result<RunEnvironment, miette::Report> {
        let mut air = AsmParser::new(src)?.parse()?;
        air.backpatch()?;
        RunEnvironment::try_from(air, script.map(|s| lace::debugger::Options { command: Some(s) }))
    });
    verif::take();
    match built {
        Ok(Ok(env)) => Ok((env, image)),
        // the same text assembled a moment ago: what fails here is the second pass or the loader
        Ok(Err(report)) => Err(match diag_of("load", report) {
            Ok(d) => AsmOutcome::Rejected(d),
            Err(abort) => AsmOutcome::Crashed {
                stage: "render-diagnostic",
                abort,
            },
        }),
        Err(abort) => Err(AsmOutcome::Crashed {
            stage: "try_from",
            abort,
        }),
    }
}
