//! C10 — stepping commands execute exactly what they promise.
//!
//! Monitor: lockstep comparison of the paused machine (state, instruction count, breakpoints,
//! output) at *every* prompt against the reference debugger model, over exhaustive short
//! scripts on fixed programs and random scripts on generated programs.

use crate::dbgmon::{run_and_verify, script_lines};
use crate::progs::{gen_structured, ProgOpts};
use crate::refasm::{encode, render, Layout, Verdict};
use crate::refdbg::Cmd;
use crate::util::{hash_bytes, CaseOut, Collector, Rng, J};
use crate::Cfg;

pub const FLOORS: &[&str] = &[
    "step:ran", "step:refused", "si:ran", "si:refused", "so:ran", "so:refused", "continue:ran",
    "continue:refused", "stepped:BR_taken", "stepped:BR_untaken", "stepped:JMP", "stepped:RET",
    "stepped:JSR", "stepped:JSRR", "stepped:CALL", "stepped:in_recursion", "si_beyond_end",
    "end:detached_halt", "end:exit_command", "stack_on", "stack_off", "fixed", "random", "long_running",
    "more_than_65536_instructions_between_pauses", "breakpoint_by_label_offset", "reset_or_goto_between_steps",
    "step_into_after_leaving_the_final_halt", "resumed_after_reset_with_breakpoints", "labels_differing_in_case_only",
];

pub struct Fixed {
    pub name: &'static str,
    pub src: &'static str,
    pub stack: bool,
    pub origin: u16,
    /// statement indices used for `break add/remove`
    pub bps: [u16; 3],
    pub input: &'static [u8],
    /// `.break` directives as the index of the statement they mark
    pub breaks: &'static [u16],
}

pub const FIXED: &[Fixed] = &[
    Fixed { name: "loop", stack: false, origin: 0x3000, bps: [2, 4, 5], input: b"", breaks: &[],
        src: "and r0 r0 #0\nadd r0 r0 #3\nloop add r1 r1 #1\nadd r0 r0 #-1\nbrp loop\nhalt\n" },
    Fixed { name: "jsr-leaf", stack: false, origin: 0x4000, bps: [1, 3, 4], input: b"", breaks: &[],
        src: ".orig x4000\njsr sub\nadd r1 r1 #1\nhalt\nsub add r2 r2 #2\nret\n" },
    Fixed { name: "jsr-nested", stack: false, origin: 0x3000, bps: [4, 8, 7], input: b"", breaks: &[],
        src: "jsr outer\nadd r1 r1 #1\nhalt\nouter st r7 save\njsr inner\nadd r2 r2 #1\nld r7 save\nret\ninner add r3 r3 #1\nret\nsave .fill #0\n" },
    Fixed { name: "jsr-recursive", stack: false, origin: 0x3000, bps: [6, 9, 12], input: b"", breaks: &[],
        src: "and r4 r4 #0\nadd r4 r4 #3\nlea r6 stk\njsr rec\nadd r1 r1 #1\nhalt\nrec add r6 r6 #-1\nstr r7 r6 #0\nadd r4 r4 #-1\nbrnz rdone\njsr rec\nadd r2 r2 #1\nrdone ldr r7 r6 #0\nadd r6 r6 #1\nret\n.blkw #6\nstk .fill #0\n" },
    Fixed { name: "call-leaf", stack: true, origin: 0x3000, bps: [1, 3, 6], input: b"", breaks: &[],
        src: "call sub\nadd r1 r1 #1\nhalt\nsub push r0\nadd r0 r0 #5\npop r0\nrets\n" },
    Fixed { name: "call-recursive", stack: true, origin: 0x5000, bps: [4, 6, 8], input: b"", breaks: &[],
        src: ".orig x5000\nand r4 r4 #0\nadd r4 r4 #3\ncall rec\nhalt\nrec add r4 r4 #-1\nbrnz rdone\ncall rec\nadd r2 r2 #1\nrdone rets\n" },
    Fixed { name: "halt-in-middle", stack: false, origin: 0x3000, bps: [0, 2, 3], input: b"", breaks: &[],
        src: "add r0 r0 #1\nhalt\nadd r0 r0 #2\nhalt\n" },
    Fixed { name: "jsrr-loop", stack: false, origin: 0x3000, bps: [3, 7, 8], input: b"", breaks: &[],
        src: "lea r3 sub\nand r4 r4 #0\nadd r4 r4 #2\nagain jsrr r3\nadd r4 r4 #-1\nbrp again\nhalt\nsub add r1 r1 #1\nret\n" },
    Fixed { name: "fall-off", stack: false, origin: 0x3000, bps: [1, 3, 5], input: b"", breaks: &[],
        src: "and r0 r0 #0\nbrz skip\nadd r1 r1 #1\nskip brn never\nadd r2 r2 #1\nnever add r3 r3 #1\n" },
    Fixed { name: "jump-out", stack: true, origin: 0x3000, bps: [1, 2, 0], input: b"", breaks: &[],
        src: "ld r0 far\njmp r0\nfar .fill xFE00\n" },
    Fixed { name: "io", stack: false, origin: 0x3000, bps: [1, 2, 3], input: b"Z", breaks: &[],
        src: "lea r0 msg\nputs\ngetc\nout\nhalt\nmsg .stringz \"hi\"\n" },
    Fixed { name: "self-loop", stack: true, origin: 0x3000, bps: [1, 2, 0], input: b"", breaks: &[],
        src: "lea r6 lp\nlp jmp r6\nafter halt\n" },
    Fixed { name: "break-directive", stack: true, origin: 0x3000, bps: [2, 3, 5], input: b"", breaks: &[1, 5],
        src: "and r0 r0 #0\n.break\nadd r0 r0 #2\nlp add r1 r1 #1\nadd r0 r0 #-1\nbrp lp\n.break\ncall f\nhalt\nf ret\n" },
    // a `.break` written before the `.orig` line marks the first statement, wherever the origin puts it
    Fixed { name: "break-before-orig", stack: false, origin: 0x5000, bps: [1, 3, 4], input: b"", breaks: &[0, 2],
        src: ".break\n.orig x5000\nand r1 r1 #0\nlp add r1 r1 #1\n.break\nadd r2 r1 #-3\nbrn lp\nhalt\n" },
];

pub fn alphabet(origin: u16, bps: &[u16; 3]) -> Vec<Cmd> {
    let mut v = vec![
        Cmd::Step,
        Cmd::StepInto(0),
        Cmd::StepInto(1),
        Cmd::StepInto(2),
        Cmd::StepInto(7),
        Cmd::StepInto(40000),
        Cmd::StepOut,
        Cmd::Continue,
    ];
    for b in bps {
        v.push(Cmd::BreakAdd(origin + b));
    }
    for b in bps {
        v.push(Cmd::BreakRemove(origin + b));
    }
    v
}

/// Number of scripts of length 0..=len over an alphabet of k commands.
fn count_scripts(k: u64, len: u32) -> u64 {
    (0..=len).map(|l| k.pow(l)).sum()
}

fn nth_script(mut i: u64, alpha: &[Cmd], max_len: u32) -> Vec<Cmd> {
    let k = alpha.len() as u64;
    for l in 0..=max_len {
        let n = k.pow(l);
        if i < n {
            let mut v = Vec::new();
            for _ in 0..l {
                v.push(alpha[(i % k) as usize].clone());
                i /= k;
            }
            return v;
        }
        i -= n;
    }
    Vec::new()
}

/// Programs that execute far more than 2^16 instructions between two legitimate pauses (a counter
/// of instructions left must not be 16 bits wide anywhere): 300 x 100 iterations, 120k instructions.
const LONG: &[(&str, bool, u16)] = &[
    ("and r1 r1 #0\nld r2 outer\nol ld r3 inner\nil add r1 r1 #1\nadd r3 r3 #-1\nbrp il\nadd r2 r2 #-1\nbrp ol\nhalt\nouter .fill #300\ninner .fill #100\n", false, 0x3000),
    (".orig x4000\njsr work\nadd r4 r4 #1\nhalt\nwork and r1 r1 #0\nld r2 outer\nol ld r3 inner\nil add r1 r1 #1\nadd r3 r3 #-1\nbrp il\nadd r2 r2 #-1\nbrp ol\nret\nouter .fill #300\ninner .fill #100\n", false, 0x4000),
];

fn long_scripts(origin: u16) -> Vec<Vec<Cmd>> {
    vec![
        vec![Cmd::Continue],
        vec![Cmd::Step, Cmd::Continue],
        vec![Cmd::StepInto(65535), Cmd::StepInto(65535), Cmd::Continue],
        vec![Cmd::StepInto(40000), Cmd::StepInto(40000), Cmd::StepOut],
        vec![Cmd::StepInto(3), Cmd::StepOut, Cmd::Continue],
        vec![Cmd::BreakAdd(origin + 2), Cmd::Continue, Cmd::Continue, Cmd::BreakRemove(origin + 2), Cmd::Continue],
        vec![Cmd::StepInto(1), Cmd::Step, Cmd::Step, Cmd::Continue],
    ]
}

fn long_case(seed: u64, i: u64, k: u64) -> CaseOut {
    let mut out = CaseOut::new();
    let (src, stack, origin) = LONG[(k % LONG.len() as u64) as usize];
    let scripts = long_scripts(origin);
    let cmds = scripts[(k / LONG.len() as u64) as usize % scripts.len()].clone();
    let lines = script_lines(&cmds, seed ^ i);
    crate::dbgmon::case_fuel_scale(20);
    out.class("long_running");
    let checked = run_and_verify(&mut out, "C10", i, src, stack, &cmds, &lines, "\n", b"", false, &[]);
    if let (Some(sess), Some(stats)) = (&checked.sess, &checked.stats) {
        if sess.snaps.windows(2).any(|w| w[1].fetches - w[0].fetches > 65_536) {
            out.class("more_than_65536_instructions_between_pauses");
        }
        finish(&mut out, sess, stats, &cmds, i, src, &lines);
    }
    out
}

pub fn run(cfg: &Cfg, col: &mut Collector) {
    let max_len: u32 = if cfg.miri { 1 } else if cfg.thorough() { 4 } else { 3 };
    let per_prog = count_scripts(14, max_len);
    let n_fixed = per_prog * FIXED.len() as u64;
    let n_random = cfg.n(2500, 100_000, 6);
    let n_long = if cfg.miri { 0 } else { 14 };
    let seed = cfg.seed;
    crate::util::run_cases(n_fixed + n_random + n_long, cfg.only_case, cfg.threads, col, move |i| {
        if i < n_fixed {
            fixed_case(seed, i, per_prog, max_len)
        } else if i < n_fixed + n_random {
            random_case(seed, i)
        } else {
            long_case(seed, i, i - n_fixed - n_random)
        }
    });
    col.exhaustive = true;
    col.extra.push((
        "exhaustive_part".into(),
        J::obj(vec![
            ("programs", J::I(FIXED.len() as i64)),
            ("alphabet", J::I(14)),
            ("max_script_length", J::I(max_len as i64)),
            ("scripts_per_program", J::I(per_prog as i64)),
        ]),
    ));
    col.extra.push(("random_sessions".into(), J::I(n_random as i64)));
}

fn stepped_classes(out: &mut CaseOut, sess: &crate::dbgmon::Session, cmds: &[Cmd]) {
    // which instruction kinds `step` was issued on, and whether si ran past the end
    let v = &sess.snaps;
    for (ci, cmd) in cmds.iter().enumerate() {
        let (Some(a), Some(b)) = (v.get(ci), v.get(ci + 1)) else {
            break;
        };
        let w = word_at(sess, a, a.pc);
        if *cmd == Cmd::Step && b.fetches > a.fetches {
            let kind = match w >> 12 {
                0x0 => {
                    if b.pc == a.pc.wrapping_add(1) && b.fetches == a.fetches + 1 {
                        "BR_untaken"
                    } else {
                        "BR_taken"
                    }
                }
                0xC if (w >> 6) & 7 == 7 => "RET",
                0xC => "JMP",
                0x4 if w & 0x800 != 0 => "JSR",
                0x4 => "JSRR",
                0xD if (w >> 10) & 3 == 3 => "CALL",
                0xD if (w >> 10) & 3 == 2 => "RET",
                _ => "other",
            };
            out.class(format!("stepped:{}", kind));
            // a call stepped while already inside a (recursive) callee: R6/R7 stack deeper than at load
            if matches!(kind, "JSR" | "CALL") && (a.reg[7] < 0xFDFF && a.reg[7] >= 0xFD00 || a.reg[6] != 0 && a.mem_diff.len() > 0) {
                out.class("stepped:in_recursion");
            }
        }
        if let Cmd::StepInto(k) = cmd {
            if (b.fetches - a.fetches) < (*k).max(1) as u64 && b.fetches > a.fetches {
                out.class("si_beyond_end");
            }
        }
    }
}

fn word_at(sess: &crate::dbgmon::Session, snap: &crate::dbgmon::Snap, addr: u16) -> u16 {
    snap.mem_diff
        .iter()
        .find(|(a, _)| *a == addr)
        .map(|(_, w)| *w)
        .unwrap_or(sess.init_mem[addr as usize])
}

fn fixed_case(seed: u64, i: u64, per_prog: u64, max_len: u32) -> CaseOut {
    let mut out = CaseOut::new();
    let p = &FIXED[(i / per_prog) as usize];
    let alpha = alphabet(p.origin, &p.bps);
    let cmds = nth_script(i % per_prog, &alpha, max_len);
    let lines = script_lines(&cmds, seed ^ i);
    let sep = match (i ^ seed) % 4 { 0 => ";", 1 => "mix", _ => "\n" };
    out.class("fixed");
    out.class(if p.stack { "stack_on" } else { "stack_off" });
    let checked = run_and_verify(&mut out, "C10", i, p.src, p.stack, &cmds, &lines, sep, p.input, false, p.breaks);
    if let (Some(sess), Some(stats)) = (&checked.sess, &checked.stats) {
        finish(&mut out, sess, stats, &cmds, i, p.src, &lines);
    }
    out
}

fn finish(
    out: &mut CaseOut,
    sess: &crate::dbgmon::Session,
    stats: &crate::dbgmon::Stats,
    cmds: &[Cmd],
    i: u64,
    src: &str,
    lines: &[String],
) {
    for c in &stats.classes {
        out.class(c.clone());
    }
    if stats.ambiguous.0 > 0 {
        out.class("ambiguous_step_followed_reading_A");
    }
    if stats.ambiguous.1 > 0 {
        out.class("ambiguous_step_followed_reading_B");
    }
    if let Some(why) = &stats.discarded {
        out.class(format!("discarded:{}", why));
    }
    stepped_classes(out, sess, cmds);
    if stats.resumes > 0 && stats.executed > 0 {
        out.nontrivial = Some(hash_bytes(format!("{}|{:?}", src, lines).as_bytes()));
    }
    if i % 2003 == 0 {
        out.sample = Some(J::obj(vec![
            ("source", J::s(src)),
            ("script", J::A(lines.iter().map(J::s).collect())),
            ("prompts_compared", J::I(stats.prompts_checked as i64)),
            ("instructions", J::I(stats.executed as i64)),
        ]));
    }
}

pub fn random_script(rng: &mut Rng, origin: u16, n_words: u16, stack: bool, max_len: u64) -> Vec<Cmd> {
    let len = rng.below(max_len + 1);
    let mut v = Vec::new();
    let addr = |rng: &mut Rng| origin.wrapping_add(rng.below(n_words.max(1) as u64 + 1) as u16);
    for _ in 0..len {
        v.push(match rng.below(12) {
            0 | 1 => Cmd::Step,
            2 => Cmd::StepInto(*rng.pick(&[0u32, 1, 1, 2, 3, 7, 50, 1000, 32767, 32768, 40000, 65535])),
            3 => Cmd::StepInto(1),
            4 if stack => Cmd::StepOut,
            4 => Cmd::StepOut,
            5 | 6 => Cmd::Continue,
            7 | 8 => Cmd::BreakAdd(addr(rng)),
            9 => Cmd::BreakRemove(addr(rng)),
            10 => Cmd::BreakList,
            _ => {
                if rng.chance(1, 6) {
                    Cmd::Exit
                } else {
                    Cmd::Step
                }
            }
        });
    }
    v
}

fn random_case(seed: u64, i: u64) -> CaseOut {
    let mut out = CaseOut::new();
    let mut rng = Rng::for_case(seed, "C10r", i);
    let stack = rng.bool();
    let origin = if rng.bool() { Some(crate::refasm::gen_origin(&mut rng).min(0xF000)) } else { None };
    let o = ProgOpts {
        stack,
        origin,
        breaks: rng.chance(1, 3),
        tame_endings: rng.chance(2, 3),
        ..Default::default()
    };
    let mut built = gen_structured(&mut rng, &o);
    // two labels that differ in letter case only are two labels, to the assembler and to the debugger alike
    let mut twins = false;
    if rng.chance(1, 5) {
        let names: Vec<String> = built.program.items.iter().filter_map(|it| match it { crate::refasm::Item::Stmt { label: Some(l), .. } => Some(l.clone()), _ => None }).collect();
        if names.len() >= 2 {
            let (a, b) = (names[0].clone(), names[names.len() - 1].clone());
            let flipped: String = a.chars().map(|c| if c.is_ascii_lowercase() { c.to_ascii_uppercase() } else { c.to_ascii_lowercase() }).collect();
            if flipped != a && !names.contains(&flipped) {
                crate::refasm::rename_label(&mut built.program, &b, &flipped);
                twins = true;
                out.class("labels_differing_in_case_only");
            }
        }
    }
    let img = match encode(&built.program) {
        Verdict::Accept(img) => img,
        _ => {
            out.evals = 0;
            return out;
        }
    };
    let lay = if rng.bool() { Layout::canonical() } else { Layout::random(&mut rng) };
    let text = render(&built.program, &lay, &mut rng).text;
    let mut cmds = random_script(&mut rng, img.origin(), img.words.len() as u16, stack, 10);
    // breakpoints written as LABEL+k / ^k instead of a number, in front of the script
    if !img.labels.is_empty() && (twins || rng.chance(1, 3)) {
        for _ in 0..1 + rng.below(3) + 2 * twins as u64 {
            let (name, idx) = rng.pick(&img.labels).clone();
            let base = img.origin().wrapping_add(idx as u16);
            let k = rng.range(-3, 6) as i32;
            let loc = if rng.chance(1, 4) { crate::refdbg::Loc::Pc(rng.range(0, 6) as i32) } else { crate::refdbg::Loc::Label(name, base, k) };
            let c = if rng.chance(1, 5) { Cmd::BreakRemoveLoc(loc) } else { Cmd::BreakAddLoc(loc) };
            let at = rng.below(cmds.len() as u64 / 2 + 1) as usize;
            cmds.insert(at, c);
        }
        out.class("breakpoint_by_label_offset");
    }
    // stepping starts from wherever the machine stands: `reset` and `goto` between the stepping commands
    // (also while parked on the final HALT, and with run-time breakpoints in place)
    if rng.chance(1, 2) {
        for _ in 0..1 + rng.below(3) {
            let c = if rng.bool() { Cmd::Reset } else { Cmd::Goto(img.origin().wrapping_add(rng.below(img.words.len().max(1) as u64) as u16)) };
            let at = rng.below(cmds.len() as u64 + 1) as usize;
            cmds.insert(at, c);
            // and a stepping command right behind it, more often than not
            if rng.chance(2, 3) {
                let s = match rng.below(4) {
                    0 => Cmd::Step,
                    1 => Cmd::Continue,
                    _ => Cmd::StepInto(*rng.pick(&[0u32, 1, 1, 2, 3, 5])),
                };
                cmds.insert(at + 1, s);
            }
        }
        out.class("reset_or_goto_between_steps");
    }
    let lines = script_lines(&cmds, seed ^ i);
    let sep = *rng.pick(&[";", "\n", "\n", "mix"]);
    out.class("random");
    out.class(if stack { "stack_on" } else { "stack_off" });
    let checked = run_and_verify(&mut out, "C10", i, &text, stack, &cmds, &lines, sep, &built.input, false, &img.breaks);
    if let (Some(sess), Some(stats)) = (&checked.sess, &checked.stats) {
        finish(&mut out, sess, stats, &cmds, i, &text, &lines);
        // where did a `reset`/`goto` find the machine, and what came next?
        for (ci, c) in cmds.iter().enumerate() {
            if !matches!(c, Cmd::Reset | Cmd::Goto(_)) {
                continue;
            }
            let Some(s) = sess.snaps.get(ci) else { break };
            let w = s.mem_diff.iter().find(|(a, _)| *a == s.pc).map(|(_, w)| *w).unwrap_or(sess.init_mem[s.pc as usize]);
            if w == 0xF025 && matches!(cmds.get(ci + 1), Some(Cmd::StepInto(_))) && sess.snaps.len() > ci + 2 {
                out.class("step_into_after_leaving_the_final_halt");
            }
            if !s.bps.is_empty() && matches!(c, Cmd::Reset) && sess.snaps.len() > ci + 2 {
                out.class("resumed_after_reset_with_breakpoints");
            }
        }
    }
    out
}
