//! C18 — the stack extension is gated by its feature flag, and only it.
//!
//! Monitor: every case is run on paired fresh threads (flag off / flag on): sources using the four
//! mnemonics (any case, also in label position), sources using none of them, and raw images with
//! 0xD words on and off the executed path.

use crate::exec::{assemble_fresh, final_state, init_features, load_raw, run_env, Abort, AsmOutcome, RunCfg};
use crate::progs::gen_raw_image;
use crate::refasm::*;
use crate::util::{hash_bytes, hash_words, CaseOut, Collector, Rng, J};
use crate::Cfg;

pub const FLOORS: &[&str] = &[
    "ext_source:off_rejected_naming_feature", "ext_source:on_accepted", "ext_in_label_position",
    "ext_mixed_case", "plain_source:same_image", "raw:0xD_reached_off_exit1", "raw:0xD_reached_on_executes",
    "raw:no_0xD_same_behaviour", "mnemonic:push", "mnemonic:pop", "mnemonic:call", "mnemonic:rets",
    "exec:push", "exec:push_r7", "exec:pop", "exec:pop_r7", "exec:call_rets", "exec:extension_image_runs_like_the_reference",
];

fn on_thread<R: Send>(f: impl FnOnce() -> R + Send) -> Option<R> {
    std::thread::scope(|s| {
        std::thread::Builder::new().stack_size(8 << 20).spawn_scoped(s, f).ok()?.join().ok()
    })
}

pub fn run(cfg: &Cfg, col: &mut Collector) {
    let n_src = cfg.n(2000, 80_000, 6);
    let n_raw = cfg.n(1500, 40_000, 4);
    let seed = cfg.seed;
    let n_exec = cfg.n(600, 30_000, 3);
    crate::util::run_cases_plain(n_src + n_raw + n_exec, cfg.only_case, cfg.threads, col, move |i| {
        if i < n_src {
            source_case(seed, i)
        } else if i < n_src + n_raw {
            raw_case(seed, i)
        } else {
            exec_case(seed, i)
        }
    });
}

/// With the flag on the four instructions execute as documented: images of PUSH/POP with every register
/// (R7, the stack pointer itself, included), CALL and RETS between ordinary instructions, run with the flag
/// on and compared - registers, PC, condition codes, memory, the sequence of fetches - with the reference
/// machine (which knows the admissible readings of `PUSH R7`/`POP R7`).
fn exec_case(seed: u64, i: u64) -> CaseOut {
    let mut out = CaseOut::new();
    let mut rng = Rng::for_case(seed, "C18x", i);
    let orig = *rng.pick(&[0x3000u16, 0x0200, 0x8000, 0xFD00, 0x3000]);
    let mut raw = vec![orig];
    for r in 0..7u16 {
        raw.push(0x1020 | r << 9 | r << 6 | (1 + r)); // ADD Rr,Rr,#(1+r): every register a value of its own
    }
    let mut depth = 0;
    for _ in 0..4 + rng.below(14) {
        let r = rng.below(8) as u16;
        match rng.below(7) {
            0 | 1 => {
                raw.push(0xD400 | r << 6);
                depth += 1;
                out.class(if r == 7 { "exec:push_r7" } else { "exec:push" });
            }
            2 | 3 if depth > 0 => {
                raw.push(0xD000 | r << 6);
                depth -= 1;
                out.class(if r == 7 { "exec:pop_r7" } else { "exec:pop" });
            }
            4 => {
                // CALL +2 ; (back here) ADD R1,R1,#1 ; BRnzp +2 ; routine: ADD R2,R2,#1 ; RETS
                raw.extend([0xDC02, 0x1261, 0x0E02, 0x14A1, 0xD800]);
                out.class("exec:call_rets");
            }
            _ => raw.push(0x1020 | (r % 7) << 9 | (r % 7) << 6 | 0x1F), // ADD Rr,Rr,#-1
        }
    }
    raw.push(0xF025);
    let r2 = raw.clone();
    let real = on_thread(move || {
        init_features(true);
        lace::set_minimal(true);
        let mut env = load_raw(&r2).ok()?;
        Some(crate::c03::observe(&mut env, &[], 3000))
    });
    let Some(Some(real)) = real else {
        out.inconclusive = Some("image could not be loaded".into());
        return out;
    };
    out.nontrivial = Some(hash_words(&raw));
    match crate::c03::compare_run(&raw, true, &[], 3000, &real) {
        Ok((crate::refvm::Stop::Discard(_), _)) => out.class("exec:discarded"),
        Ok(_) => out.class("exec:extension_image_runs_like_the_reference"),
        Err((aspect, text)) => out.violate(
            format!("C18/on/extension-executes-differently/{}", aspect),
            i,
            format!("with the flag on, an image of PUSH/POP/CALL/RETS words runs differently from the reference machine: {}", text),
            J::obj(vec![("image", J::words(&raw[..raw.len().min(48)]))]),
        ),
    }
    out
}

fn names_feature(d: &crate::exec::Diag) -> bool {
    d.rendered.contains("stack")
}

fn source_case(seed: u64, i: u64) -> CaseOut {
    let mut out = CaseOut::new();
    let mut rng = Rng::for_case(seed, "C18s", i);
    let kind = rng.below(4);
    let (text, uses_ext, ref_img, label_pos): (String, bool, Option<RefImage>, bool) = if kind == 3 {
        // a stack mnemonic in label position / as a label reference, in any letter case
        let m = rng.s(&["push", "pop", "call", "rets", "PUSH", "Pop", "cAll", "RETS"]);
        out.class(format!("mnemonic:{}", m.to_ascii_lowercase()));
        if m.chars().any(|c| c.is_ascii_uppercase()) {
            out.class("ext_mixed_case");
        }
        let t = match rng.below(8) {
            0 => format!("{} add r0 r0 #1\nhalt\n", m),
            1 => format!("{}: .fill x1\nhalt\n", m),
            2 => format!("br {}\n{} halt\n", m, m),
            3 => format!("lea r0 {}\nhalt\n{} .stringz \"x\"\n", m, m),
            // ... where the operand of a directive is expected (a forgotten count, a label-like value)
            4 => format!("halt\nbuf .blkw\n{} r0\n", m),
            5 => format!("halt\n.fill {}\n", m),
            6 => format!("halt\nval .fill\n{}\n", m),
            _ => format!(".orig {}\nhalt\n", m),
        };
        (t, true, None, true)
    } else {
        let o = GenOpts {
            stack: kind != 0,
            max_stmts: 18,
            ..Default::default()
        };
        let p = gen_program(&mut rng, &o);
        let img = match encode(&p) {
            Verdict::Accept(img) => img,
            _ => {
                out.evals = 0;
                return out;
            }
        };
        let lay = Layout::random(&mut rng);
        let t = render(&p, &lay, &mut rng).text;
        let u = uses_stack_ext(&p);
        if u {
            for it in &p.items {
                if let Item::Stmt { stmt, .. } = it {
                    match stmt {
                        Stmt::Push(_) => out.class("mnemonic:push"),
                        Stmt::Pop(_) => out.class("mnemonic:pop"),
                        Stmt::Call(_) => out.class("mnemonic:call"),
                        Stmt::Rets => out.class("mnemonic:rets"),
                        _ => {}
                    }
                }
            }
            let upper = t.contains("PUSH") || t.contains("POP") || t.contains("CALL") || t.contains("RETS") || t.contains("Push") || t.contains("Call");
            if upper {
                out.class("ext_mixed_case");
            }
        }
        (t, u, Some(img), false)
    };
    let (t1, t2) = (text.clone(), text.clone());
    let (Some(off), Some(on)) = (on_thread(move || assemble_fresh(&t1, false)), on_thread(move || assemble_fresh(&t2, true))) else {
        out.inconclusive = Some("assembler thread could not be joined".into());
        return out;
    };
    out.nontrivial = Some(hash_bytes(text.as_bytes()));
    let detail = |o: &AsmOutcome, n: &AsmOutcome| {
        let show = |x: &AsmOutcome| match x {
            AsmOutcome::Ok(img) => format!("accepted {:04X?}", &img.raw()[..img.raw().len().min(10)]),
            AsmOutcome::Rejected(d) => format!("rejected: {}", d.message),
            AsmOutcome::Crashed { abort, .. } => format!("crashed: {}", abort.short()),
        };
        J::obj(vec![("source", J::s(&text)), ("flag_off", J::s(show(o))), ("flag_on", J::s(show(n)))])
    };
    if uses_ext {
        match &off {
            AsmOutcome::Rejected(d) if names_feature(d) => out.class("ext_source:off_rejected_naming_feature"),
            AsmOutcome::Rejected(_) => {
                out.violate("C18/off/diagnostic-does-not-name-feature", i, "a source using the stack mnemonics is rejected without naming the feature", detail(&off, &on));
                return out;
            }
            AsmOutcome::Ok(_) => {
                out.violate("C18/off/accepted-extension", i, "a source using the stack mnemonics assembles with the feature off", detail(&off, &on));
                return out;
            }
            AsmOutcome::Crashed { abort, .. } => {
                out.violate(format!("C18/off/crash/{}", abort.panic_file()), i, abort.short(), detail(&off, &on));
                return out;
            }
        }
        if label_pos {
            out.class("ext_in_label_position");
            if let AsmOutcome::Crashed { abort, .. } = &on {
                out.violate(format!("C18/on/crash/{}", abort.panic_file()), i, abort.short(), detail(&off, &on));
            }
        } else {
            match (&on, &ref_img) {
                (AsmOutcome::Ok(got), Some(img)) if got.words == img.words && got.origin() == img.origin() => out.class("ext_source:on_accepted"),
                _ => out.violate("C18/on/extension-not-assembled", i, "with the feature on, a valid source using the stack mnemonics does not assemble to its image", detail(&off, &on)),
            }
        }
    } else {
        match (&off, &on, &ref_img) {
            (AsmOutcome::Ok(a), AsmOutcome::Ok(b), Some(img)) if a.words == b.words && a.origin() == b.origin() && a.words == img.words && a.origin() == img.origin() => {
                out.class("plain_source:same_image")
            }
            _ => out.violate("C18/flag-changes-plain-program", i, "a program using none of the four mnemonics assembles differently under the two flag values", detail(&off, &on)),
        }
    }
    if i % 307 == 0 {
        out.sample = Some(detail(&off, &on));
    }
    out
}

struct Ran {
    end: Result<(), Abort>,
    out: String,
    regs: [u16; 8],
    pc: u16,
    cc: u8,
    mem: u64,
    trace: Vec<(u16, u16)>,
}

fn run_raw(raw: Vec<u16>, stack: bool, input: Vec<u8>) -> Option<Ran> {
    on_thread(move || {
        init_features(stack);
        lace::set_minimal(true);
        let mut env = load_raw(&raw).ok()?;
        let obs = run_env(&mut env, RunCfg { fuel: Some(3000), input, keep_trace: true, on_prompt: None });
        let fs = final_state(&env);
        Some(Ran { end: obs.end, out: obs.out_normal, regs: fs.reg, pc: fs.pc, cc: fs.cc, mem: fs.mem_hash, trace: obs.trace })
    })?
}

fn raw_case(seed: u64, i: u64) -> CaseOut {
    let mut out = CaseOut::new();
    let mut rng = Rng::for_case(seed, "C18r", i);
    let mut raw = gen_raw_image(&mut rng);
    if rng.bool() {
        // no 0xD word anywhere in the image
        for w in raw.iter_mut().skip(1) {
            if *w >> 12 == 0xD {
                *w = 0x1021;
            }
        }
    } else if raw.len() > 2 && rng.bool() {
        // a 0xD word first, so that it is certainly reached
        raw[1] = 0xD000 | rng.below(0x1000) as u16;
    } else if raw.len() > 4 {
        // ... or after R7 (the would-be stack pointer) has been moved out of user space
        raw[1] = *rng.pick(&[0x5FE0u16, 0x9FFF, 0x1FFF, 0x1FE1]); // AND R7,R7,#0 / NOT R7,R7 / ADD R7,R7,#-1 / ADD R7,R7,#1
        raw[2] = 0xD000 | rng.below(0x1000) as u16;
    }
    let input: Vec<u8> = (0..rng.below(3)).map(|_| 0x20 + rng.below(0x5F) as u8).collect();
    let (Some(off), Some(on)) = (run_raw(raw.clone(), false, input.clone()), run_raw(raw.clone(), true, input.clone())) else {
        out.inconclusive = Some("image could not be loaded".into());
        return out;
    };
    out.nontrivial = Some(hash_words(&raw));
    let detail = || {
        J::obj(vec![
            ("image", J::words(&raw[..raw.len().min(40)])),
            ("flag_off_end", J::s(match &off.end { Ok(()) => "returned".to_string(), Err(a) => a.short() })),
            ("flag_on_end", J::s(match &on.end { Ok(()) => "returned".to_string(), Err(a) => a.short() })),
            ("flag_off_fetches", J::I(off.trace.len() as i64)),
            ("flag_on_fetches", J::I(on.trace.len() as i64)),
        ])
    };
    let reached_off = off.trace.iter().position(|(_, w)| w >> 12 == 0xD);
    match reached_off {
        Some(k) => {
            // flag off: the run must stop there with exit 1, nothing executed after it
            if off.end != Err(Abort::Exit(1)) || k + 1 != off.trace.len() {
                out.violate("C18/runtime-gate/off", i, format!("opcode 0xD fetched with the feature off, run ended with {:?} after {} more fetches", off.end.as_ref().err().map(|a| a.short()), off.trace.len() - k - 1), detail());
                return out;
            }
            out.class("raw:0xD_reached_off_exit1");
            // flag on: same prefix, and the 0xD word executes (the run goes on or ends for another reason)
            if on.trace.len() <= k || on.trace[..=k] != off.trace[..=k] {
                out.violate("C18/runtime-gate/prefix", i, "the runs under the two flag values diverge before the first 0xD word", detail());
                return out;
            }
            if on.end == Err(Abort::Exit(1)) && on.trace.len() == k + 1 {
                // could still be an input-EOF exit: only count as a violation if the last word is the 0xD one
                out.violate("C18/runtime-gate/on", i, "opcode 0xD refused although the feature is on", detail());
                return out;
            }
            out.class("raw:0xD_reached_on_executes");
        }
        None => {
            // never executes 0xD: identical behaviour
            let same = off.end == on.end && off.out == on.out && off.regs == on.regs && off.pc == on.pc && off.cc == on.cc && off.mem == on.mem && off.trace == on.trace;
            if !same {
                out.violate("C18/flag-changes-behaviour", i, "an image that never executes opcode 0xD behaves differently under the two flag values", detail());
                return out;
            }
            out.class("raw:no_0xD_same_behaviour");
        }
    }
    out
}
