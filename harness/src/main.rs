//! `lv` — in-process runtime monitors for rozukke/lace (links lace with `--features verif`).
//!
//! Usage: lv <property> [--tier quick|thorough] [--seed N] [--profile NAME] [--out FILE]
//!           [--only-case N] [--threads N] [--miri] [--shard I/N] [--scale F]
//!
//! Writes one JSON document (see `Collector::to_json`) to --out (or fd 3 / stdout fallback).
//! The real stdout/stderr of the process are whatever the caller gave it; lace prints program and
//! debugger output there, so the driver points them at /dev/null.

mod corpus;
mod dbgmon;
mod exec;
mod progs;
mod refasm;
mod refcmd;
mod refdbg;
mod refvm;
mod util;

mod c01;
mod c02;
mod c03;
mod c04;
mod c05;
mod c09;
mod c10;
mod c11;
mod c12;
mod c13;
mod c14;
mod c15;
mod c17;
mod c18;
mod c19;
mod c20;
mod c16;

use std::time::Instant;

use util::{Collector, J};

pub struct Cfg {
    pub property: String,
    pub tier: String,
    pub seed: u64,
    pub profile: String,
    pub out: Option<String>,
    pub only_case: Option<u64>,
    pub threads: usize,
    pub miri: bool,
    pub shard: (u64, u64),
    pub scale: f64,
}

impl Cfg {
    pub fn thorough(&self) -> bool {
        self.tier == "thorough"
    }
    /// Scale a case count by --scale (and shrink drastically under Miri).
    pub fn n(&self, quick: u64, thorough: u64, miri: u64) -> u64 {
        let base = if self.miri {
            miri
        } else if self.thorough() {
            thorough
        } else {
            quick
        };
        ((base as f64 * self.scale) as u64).max(1)
    }
}

fn parse_args() -> Cfg {
    let args: Vec<String> = std::env::args().skip(1).collect();
    let mut cfg = Cfg {
        property: String::new(),
        tier: "quick".into(),
        seed: 1,
        profile: "unknown".into(),
        out: None,
        only_case: None,
        threads: std::thread::available_parallelism().map(|n| n.get()).unwrap_or(4),
        miri: cfg!(miri),
        shard: (0, 1),
        scale: 1.0,
    };
    let mut i = 0;
    while i < args.len() {
        let a = &args[i];
        let mut val = || {
            i += 1;
            args.get(i).cloned().unwrap_or_else(|| {
                eprintln!("missing value for {}", a);
                std::process::exit(2)
            })
        };
        match a.as_str() {
            "--tier" => cfg.tier = val(),
            "--seed" => cfg.seed = val().parse().unwrap_or(1),
            "--profile" => cfg.profile = val(),
            "--out" => cfg.out = Some(val()),
            "--only-case" => cfg.only_case = val().parse().ok(),
            "--threads" => cfg.threads = val().parse().unwrap_or(4),
            "--miri" => cfg.miri = true,
            "--scale" => cfg.scale = val().parse().unwrap_or(1.0),
            "--shard" => {
                let v = val();
                let (a, b) = v.split_once('/').unwrap_or(("0", "1"));
                cfg.shard = (a.parse().unwrap_or(0), b.parse().unwrap_or(1));
            }
            other if cfg.property.is_empty() => cfg.property = other.to_string(),
            other => {
                eprintln!("unknown argument {}", other);
                std::process::exit(2);
            }
        }
        i += 1;
    }
    if cfg.miri {
        cfg.threads = 1;
    }
    cfg
}

fn main() {
    let cfg = parse_args();
    exec::install_panic_hook();
    if cfg.shard.1 > 1 && cfg.property != "C02" {
        let _ = util::SHARD.set(cfg.shard);
    }
    if let Some(path) = &cfg.out {
        let _ = util::OUT_PATH.set(path.clone());
    }
    let start = Instant::now();
    let mut col = Collector::new();
    let sv = |f: &[&str]| f.iter().map(|s| s.to_string()).collect::<Vec<String>>();
    let floors: Vec<String> = match cfg.property.as_str() {
        "C01" => {
            c01::run(&cfg, &mut col);
            sv(c01::FLOORS)
        }
        "C02" => {
            c02::run(&cfg, &mut col);
            sv(c02::FLOORS)
        }
        "C05" => {
            c05::run(&cfg, &mut col);
            c05::run_sizes(&cfg, &mut col);
            let mut f = sv(c05::FLOORS);
            f.extend(sv(c05::SIZE_FLOORS));
            f
        }
        "C03" => {
            c03::run(&cfg, &mut col);
            sv(c03::FLOORS)
        }
        "C10" => {
            c10::run(&cfg, &mut col);
            sv(c10::FLOORS)
        }
        "C11" => {
            c11::run(&cfg, &mut col);
            sv(c11::FLOORS)
        }
        "C09" => {
            c09::run(&cfg, &mut col);
            sv(c09::FLOORS)
        }
        "C12" => {
            c12::run(&cfg, &mut col);
            sv(c12::FLOORS)
        }
        "C13" => {
            c13::run(&cfg, &mut col);
            sv(c13::FLOORS)
        }
        "C16" => {
            c16::run(&cfg, &mut col);
            sv(c16::FLOORS)
        }
        "C15" => {
            c15::run(&cfg, &mut col);
            sv(c15::FLOORS)
        }
        "C17" => {
            c17::run(&cfg, &mut col);
            sv(c17::FLOORS)
        }
        "C14" => {
            c14::run(&cfg, &mut col);
            sv(c14::FLOORS)
        }
        "C20" => {
            c20::run(&cfg, &mut col);
            sv(c20::FLOORS)
        }
        "CORPUS" => {
            corpus::run(&cfg, &mut col);
            Vec::new()
        }
        "C18" => {
            c18::run(&cfg, &mut col);
            sv(c18::FLOORS)
        }
        "C19" => {
            c19::run(&cfg, &mut col);
            sv(c19::FLOORS)
        }
        "C04" => {
            c04::run(&cfg, &mut col);
            c04::floors()
        }
        other => {
            eprintln!("unknown property {}", other);
            std::process::exit(2);
        }
    };
    let wall = start.elapsed().as_secs_f64();
    // (the floors are a demand on the full workload: a sample of it - `--scale` below 1, as the release
    // layer of the quick tier is run - repeats a part of what the full layer does and is not asked for them)
    let floors: Vec<String> = if cfg.only_case.is_some() || cfg.miri || cfg.scale < 1.0 {
        Vec::new()
    } else {
        floors
    };
    let floors: Vec<&str> = floors.iter().map(|s| s.as_str()).collect();
    let mut doc = match col.to_json(&floors) {
        J::O(pairs) => pairs,
        _ => unreachable!(),
    };
    doc.insert(0, ("property".into(), J::s(&cfg.property)));
    doc.insert(1, ("tier".into(), J::s(&cfg.tier)));
    doc.insert(2, ("seed".into(), J::I(cfg.seed as i64)));
    doc.insert(3, ("profile".into(), J::s(&cfg.profile)));
    doc.insert(4, ("miri".into(), J::B(cfg.miri)));
    doc.push(("wall_s".into(), J::F(wall)));
    let text = J::O(doc).render();
    match &cfg.out {
        Some(path) => std::fs::write(path, text).expect("write --out"),
        None => println!("{}", text),
    }
}
