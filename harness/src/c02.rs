//! C02 — every instruction word executes as the ISA prescribes.
//!
//! Monitor: drive `RunState::execute` (via the `verif_execute` hook) on generated machine states
//! and compare the *whole* resulting state (8 registers, PC, CC, all 65,536 memory words, program
//! output, exit code) with the reference VM.

use std::collections::VecDeque;

use lace::verif::{self, Monitor};

use crate::exec::{guard, init_features, load_raw, Abort};
use crate::refvm::{sext, variant, RefVm, Step};
use crate::util::{mix64, CaseOut, Collector, Rng, J};
use crate::Cfg;

pub const FLOORS: &[&str] = &[
    "op:BR", "op:ADD", "op:LD", "op:ST", "op:JSR", "op:AND", "op:LDR", "op:STR", "op:NOT",
    "op:LDI", "op:STI", "op:JMP", "op:STACK", "op:LEA", "op:TRAP",
    "stack_on", "stack_off", "push_r7_zero", "pop_r7_ffff", "addr_wrap", "br_cc_none",
    "trap_known", "trap_unknown", "exit_0xee", "exit_1_stack_off", "input_eof", "through_run_loop", "through_run_loop:run_ended",
    "coincide:jsrr_r7", "coincide:push_r7", "coincide:pop_r7", "coincide:ldr_same",
    "sequence:push_store_pop", "sequence:call_store_rets", "sequence:st_ld_same_address", "sequence:completed",
    "debugger:reserved_word_with_feature_off", "debugger:instruction_given_to_eval", "debugger:step_into_compared", "debugger:step_after_goto", "debugger:step_after_word_under_pc_replaced", "debugger:step_after_reset",
];

fn opname(w: u16) -> &'static str {
    match w >> 12 {
        0 => "BR",
        1 => "ADD",
        2 => "LD",
        3 => "ST",
        4 => {
            if w & 0x800 != 0 {
                "JSR"
            } else {
                "JSRR"
            }
        }
        5 => "AND",
        6 => "LDR",
        7 => "STR",
        8 => "RTI",
        9 => "NOT",
        10 => "LDI",
        11 => "STI",
        12 => "JMP",
        13 => match (w >> 10) & 3 {
            0 => "POP",
            1 => "PUSH",
            2 => "RETS",
            _ => "CALL",
        },
        14 => "LEA",
        _ => match w & 0xFF {
            0x20 => "GETC",
            0x21 => "OUT",
            0x22 => "PUTS",
            0x23 => "IN",
            0x24 => "PUTSP",
            0x25 => "HALT",
            0x26 => "PUTN",
            0x27 => "REG",
            _ => "TRAP?",
        },
    }
}

fn opclass(w: u16) -> &'static str {
    match w >> 12 {
        0 => "op:BR",
        1 => "op:ADD",
        2 => "op:LD",
        3 => "op:ST",
        4 => "op:JSR",
        5 => "op:AND",
        6 => "op:LDR",
        7 => "op:STR",
        9 => "op:NOT",
        10 => "op:LDI",
        11 => "op:STI",
        12 => "op:JMP",
        13 => "op:STACK",
        14 => "op:LEA",
        15 => "op:TRAP",
        _ => "op:RTI",
    }
}

/// Arithmetic boundaries, then the addresses an LC-3 programmer or emulator author treats specially:
/// edges of user space, the memory-mapped device registers (KBSR/KBDR/DSR/DDR, PSR, MCR) and the
/// trap/interrupt vector tables. lace documents none of them as special: plain memory.
const BOUNDARY: [u16; 22] = [
    0, 1, 0x7FFF, 0x8000, 0xFFFF, 0xFFFE, 2, 0xFDFF, 0xFE00, 0xFE01, 0xFE02, 0xFE04, 0xFE06, 0xFFFC, 0x2FFF, 0x3000,
    0x00FF, 0x0100, 0x01FF, 0x0200, 0x0020, 0x0025,
];

struct GenState {
    reg: [u16; 8],
    pc: u16,
    cc: u8,
    writes: Vec<(u16, u16)>,
    input: Vec<u8>,
}

fn gen_reg(rng: &mut Rng, pc: u16) -> u16 {
    match rng.below(8) {
        0..=2 => *rng.pick(&BOUNDARY),
        3 => pc.wrapping_add(rng.range(-40, 40) as u16),
        4 => rng.below(0x200) as u16,
        _ => rng.u16(),
    }
}

fn gen_state(rng: &mut Rng, w: u16, k: u64) -> GenState {
    // PC is the already-incremented PC of an instruction located in user space.
    let pc = match rng.below(8) {
        0 => 0x3001,
        1 => 0xFE00,                                    // instruction at 0xFDFF
        2 => 1 + rng.below(0x100) as u16,               // PC + negative offset wraps below 0
        3 => 0xFE00 - rng.below(0x100) as u16,
        4 => 0x8000u16.wrapping_add(rng.range(-3, 3) as u16),
        _ => 1 + rng.below(0xFE00) as u16,
    };
    let mut reg = [0u16; 8];
    for r in reg.iter_mut() {
        *r = gen_reg(rng, pc);
    }
    let cc = [0u8, 0b100, 0b010, 0b001][(k as usize + rng.below(4) as usize) % 4];
    let op = w >> 12;
    let sr1 = ((w >> 6) & 7) as usize;
    let mut writes = Vec::new();
    let mut input = Vec::new();

    // Stack-pointer boundary states
    if op == 0xD && rng.chance(1, 3) {
        reg[7] = *rng.pick(&[0u16, 0xFFFF, 1, 0xFFFE, 0x8000]);
    }
    // re-randomise what the instruction can touch
    let a9 = pc.wrapping_add(sext(w, 9));
    let ptr = match rng.below(4) {
        0 => *rng.pick(&BOUNDARY),
        1 => a9, // pointer to itself
        _ => rng.u16(),
    };
    writes.push((a9, ptr));
    writes.push((ptr, rng.u16()));
    let a6 = reg[sr1].wrapping_add(sext(w, 6));
    writes.push((a6, rng.u16()));
    writes.push((reg[7].wrapping_sub(1), rng.u16()));
    writes.push((reg[7], rng.u16()));
    // make sure the value seen through a9/ptr is what was intended even if addresses collide:
    // (later writes win; both machines get the same list, so collisions are harmless)

    if op == 0xF {
        let vect = w & 0xFF;
        match vect {
            0x20 | 0x23 => {
                if k < 16 {
                    input.push((((w >> 8) & 0xF) << 4) as u8 | k as u8);
                } else if !rng.chance(1, 6) {
                    input.push(match rng.below(5) {
                        0 => 0x80 + rng.below(0x80) as u8,
                        1 => rng.below(0x21) as u8,
                        2 => *rng.pick(&[0u8, 0x0A, 0x0D, 0x1B, 0x7F]),
                        _ => 0x20 + rng.below(0x5F) as u8,
                    });
                }
            }
            0x22 | 0x24 => {
                // a short string at R0, sometimes wrapping through 0xFFFF
                if rng.chance(1, 4) {
                    reg[0] = 0xFFFF - rng.below(3) as u16;
                }
                let len = rng.below(6) as u16;
                for i in 0..len {
                    let lo = 0x21 + rng.below(0x5E) as u16;
                    let word = if vect == 0x24 {
                        let last = i + 1 == len;
                        let hi = if last && rng.bool() { 0 } else { 0x21 + rng.below(0x5E) as u16 };
                        lo | (hi << 8)
                    } else {
                        lo
                    };
                    writes.push((reg[0].wrapping_add(i), word));
                }
                writes.push((reg[0].wrapping_add(len), 0));
                writes.push((reg[0].wrapping_add(len + 1), 0));
            }
            _ => {}
        }
    }
    GenState {
        reg,
        pc,
        cc,
        writes,
        input,
    }
}

struct Shard {
    stack_on: bool,
    words: Vec<u16>,
}

pub struct Params {
    pub k: u64,
    pub word_stride: usize,
    pub full_mem_every: u64,
    pub threads: usize,
}

pub fn params(cfg: &Cfg) -> Params {
    if cfg.miri {
        Params {
            k: 1,
            word_stride: 1,
            full_mem_every: 256,
            threads: 1,
        }
    } else if cfg.tier == "thorough" {
        Params {
            k: 384,
            word_stride: 1,
            full_mem_every: 1,
            threads: cfg.threads,
        }
    } else {
        Params {
            k: 3,
            word_stride: 1,
            full_mem_every: 1,
            threads: cfg.threads,
        }
    }
}

/// Words exercised: all 65,536 except opcode 8 (RTI). Under Miri: the decode-distinct patterns
/// (every opcode x every register-field combination x mode bits, offsets from a small set).
fn word_list(cfg: &Cfg) -> Vec<u16> {
    let mut v = Vec::new();
    if cfg.miri {
        let (shard, nshards) = cfg.shard;
        let mut i = 0u64;
        for op in 0..16u16 {
            if op == 8 {
                continue;
            }
            for hi in 0..64u16 {
                // bits 11:6 all combinations, low 6 bits from a small set
                for lo in [0u16, 0x3F, 0x25, 0x20, 0x1F, 0x07] {
                    let w = (op << 12) | (hi << 6) | lo;
                    if i % nshards == shard {
                        v.push(w);
                    }
                    i += 1;
                }
            }
        }
        for vect in 0x1E..0x2Au16 {
            v.push(0xF000 | vect);
        }
    } else {
        for w in 0..=0xFFFFu16 {
            if w >> 12 != 8 {
                v.push(w);
            }
        }
    }
    v
}

pub fn run(cfg: &Cfg, col: &mut Collector) {
    let p = params(cfg);
    let words = word_list(cfg);
    let nthreads = p.threads.max(2);
    // Half of the shards run with the stack feature on, half with it off; every word is executed
    // under both settings.
    let mut shards: Vec<Shard> = Vec::new();
    for t in 0..nthreads {
        let stack_on = t % 2 == 0;
        let lane = t / 2;
        let lanes = (nthreads + 1 - (t % 2)) / 2; // number of shards with this flag
        let ws: Vec<u16> = words
            .iter()
            .copied()
            .enumerate()
            .filter(|(i, _)| i % lanes == lane)
            .map(|(_, w)| w)
            .collect();
        shards.push(Shard {
            stack_on,
            words: ws,
        });
    }
    let only = cfg.only_case;
    let seed = cfg.seed;
    // the same instructions executed by `step into` under the debugger (ids from DBG_BASE up)
    if only.map_or(true, |o| o >= DBG_BASE) {
        let n = cfg.n(500, 30_000, 3);
        crate::util::run_cases(n, only.map(|o| o - DBG_BASE), cfg.threads, col, move |i| debugger_case(seed, i));
        col.extra.push(("debugger_sessions".into(), J::I(n as i64)));
        if only.is_some() {
            return;
        }
    }
    // short sequences with stores between dependent instructions: what an instruction does depends on the
    // machine state alone, not on what was executed before (ids from SEQ_BASE up)
    if only.map_or(true, |o| o >= SEQ_BASE && o < DBG_BASE) {
        let n = cfg.n(6_000, 400_000, 40);
        crate::util::run_cases(n, only.map(|o| o - SEQ_BASE), cfg.threads, col, move |i| sequence_case(seed, i));
        col.extra.push(("instruction_sequences".into(), J::I(n as i64)));
        if only.is_some() {
            return;
        }
    }
    let results: Vec<Collector> = std::thread::scope(|scope| {
        let handles: Vec<_> = shards
            .iter()
            .map(|shard| {
                let p = &p;
                std::thread::Builder::new()
                    .stack_size(32 << 20)
                    .spawn_scoped(scope, move || run_shard(shard, p, seed, only))
                    .unwrap()
            })
            .collect();
        handles.into_iter().map(|h| h.join().unwrap()).collect()
    });
    for r in results {
        merge(col, r);
    }
    col.exhaustive = false;
    col.extra.push((
        "words_covered".into(),
        J::s(if cfg.miri {
            "decode-distinct patterns (Miri)"
        } else {
            "all 65,536 instruction words except opcode 8 (RTI), each under stack feature on and off"
        }),
    ));
    col.extra.push(("states_per_word_per_flag".into(), J::I(p.k as i64)));
    col.extra.push(("input_bytes".into(), J::s("GETC and IN: every byte value 0..=255 under each flag (16 words x 16 states per vector), then random ones")));
}

fn merge(into: &mut Collector, from: Collector) {
    into.evaluations += from.evaluations;
    for (k, v) in from.classes {
        *into.classes.entry(k).or_insert(0) += v;
    }
    into.distinct.extend(from.distinct);
    for s in from.samples {
        if into.samples.len() < into.max_samples {
            into.samples.push(s);
        }
    }
    for (k, v) in from.violation_counts {
        *into.violation_counts.entry(k).or_insert(0) += v;
    }
    for v in from.violations {
        let have = into.violations.iter().filter(|x| x.key == v.key).count();
        if have < 3 {
            into.violations.push(v);
        }
    }
    for (k, v) in from.inconclusive {
        *into.inconclusive.entry(k).or_insert(0) += v;
    }
}

pub fn case_id(w: u16, k: u64, stack_on: bool) -> u64 {
    ((w as u64) << 16) | (k << 1) | stack_on as u64
}

fn run_shard(shard: &Shard, p: &Params, seed: u64, only: Option<u64>) -> Collector {
    let mut col = Collector::new();
    init_features(shard.stack_on);
    lace::set_minimal(true);
    let mut env = match load_raw(&[0x0000]) {
        Ok(env) => env,
        Err(a) => {
            col.inconclusive
                .insert(format!("cannot create machine: {}", a.short()), 1);
            return col;
        }
    };
    // from_raw put the HALT sentinel at mem[0]; origin 0 makes every PC "user space" for the
    // purposes of this property (execute() itself never looks at the origin).
    let mut reference = RefVm::load(&[0x0000], shard.stack_on).unwrap();
    // persistent random background: half zeros, half arbitrary words (under Miri: a sparse one,
    // initialising 2 x 64K words costs more there than the whole workload)
    if cfg!(miri) {
        let mut rng = Rng::for_case(seed, "C02-bg", shard.stack_on as u64);
        let mem = env.verif_mem_mut();
        for _ in 0..512 {
            let (a, v) = (rng.u16() as usize, rng.u16());
            mem[a] = v;
            reference.mem[a] = v;
        }
    } else {
        let mut rng = Rng::for_case(seed, "C02-bg", shard.stack_on as u64);
        let mem = env.verif_mem_mut();
        for a in 0..0x10000usize {
            let v = if rng.bool() { 0 } else { rng.u16() };
            mem[a] = v;
            reference.mem[a] = v;
        }
    }
    let mut since_full = 0u64;
    for &w in &shard.words {
        // GETC / IN: the sixteen words of each vector (bits 11..8 are ignored by TRAP) x sixteen
        // states sweep all 256 values of the input byte
        let reads_input = w >> 12 == 0xF && matches!(w & 0xFF, 0x20 | 0x23);
        let k_n = if reads_input && !cfg!(miri) { p.k.max(20) } else { p.k };
        for k in 0..k_n {
            let id = case_id(w, k, shard.stack_on);
            if let Some(o) = only {
                if o != id {
                    continue;
                }
            }
            let mut rng = Rng::for_case(seed, "C02", id);
            let st = gen_state(&mut rng, w, k);
            since_full += 1;
            let full = since_full >= p.full_mem_every;
            if full {
                since_full = 0;
            }
            let out = one_case(&mut env, &mut reference, w, &st, id, shard.stack_on, full);
            col.add(out);
        }
    }
    col
}

fn snapshot(reference: &RefVm) -> ([u16; 8], u16, u8) {
    (reference.reg, reference.pc, reference.cc)
}

fn one_case(
    env: &mut lace::RunEnvironment,
    reference: &mut RefVm,
    w: u16,
    st: &GenState,
    id: u64,
    stack_on: bool,
    full_mem: bool,
) -> CaseOut {
    let mut out = CaseOut::new();
    // ---- set both machines to the generated state
    env.verif_set(st.reg, st.pc, st.cc);
    reference.reg = st.reg;
    reference.pc = st.pc;
    reference.cc = st.cc;
    {
        let mem = env.verif_mem_mut();
        for &(a, v) in &st.writes {
            mem[a as usize] = v;
            reference.mem[a as usize] = v;
        }
    }
    // one case in eight goes through the fetch/execute loop (see below): the word sits at PC-1
    let via_loop = !cfg!(miri) && id % 8 == 3 && st.pc >= 1 && st.pc <= 0xFE00;
    if via_loop {
        let at = st.pc - 1;
        env.verif_mem_mut()[at as usize] = w;
        reference.mem[at as usize] = w;
    }
    // undo log for the reference so that variant retries start from the same state
    let before = snapshot(reference);
    let ref_before_mem: Vec<(u16, u16)> = touched_addrs(w, st)
        .into_iter()
        .map(|a| (a, reference.mem[a as usize]))
        .collect();

    // ---- real execution under the monitor. One case in eight goes through the fetch/execute loop
    // of `run()` instead of calling `execute` directly: the word is put at PC-1 and the loop is given
    // fuel for exactly one instruction (two iterations when the instruction ends the run, so that
    // the loop itself gets to see that). What surrounds the instruction in that loop - fetch, PC
    // increment, the end-of-run test - is part of executing it.
    let mut ref_pc_after_probe: Option<u16> = None;
    if via_loop {
        env.verif_set(st.reg, st.pc - 1, st.cc);
        // where does the reference go? (probe on a copy of the registers; memory effects are undone below)
        let saved = (reference.reg, reference.pc, reference.cc);
        let probe_mem: Vec<(u16, u16)> = touched_addrs(w, st).into_iter().map(|a| (a, reference.mem[a as usize])).collect();
        reference.input = VecDeque::from(st.input.clone());
        reference.variant = 0;
        match reference.exec(w) {
            Step::Next => ref_pc_after_probe = Some(reference.pc),
            Step::Halt => ref_pc_after_probe = Some(0xFFFF),
            _ => {}
        }
        reference.reg = saved.0;
        reference.pc = saved.1;
        reference.cc = saved.2;
        for (a, v) in probe_mem {
            reference.mem[a as usize] = v;
        }
        reference.out.clear();
        reference.input_taken = 0;
    }
    verif::install(Monitor {
        armed: true,
        fuel: if via_loop { Some(if ref_pc_after_probe == Some(0xFFFF) { 2 } else { 1 }) } else { None },
        input: Some(VecDeque::from(st.input.clone())),
        ..Default::default()
    });
    let end = if via_loop { guard(|| env.run()) } else { guard(|| env.verif_execute(w)) };
    let m = verif::take().unwrap();
    let mut real_out = m.out_normal;
    let real_taken = m.input_taken;
    let mut loop_verdict: Option<String> = None;
    let end = if via_loop {
        out.class("through_run_loop");
        match (end, ref_pc_after_probe) {
            // fuel ran out after the one instruction: the state is the state after that instruction
            (Err(crate::exec::Abort::Fuel), Some(pc)) if pc != 0xFFFF => Ok(()),
            (Err(crate::exec::Abort::Fuel), Some(_)) => {
                loop_verdict = Some("the instruction left PC = xFFFF but the run loop went on to a third iteration".into());
                Ok(())
            }
            (Ok(()), Some(0xFFFF)) => {
                out.class("through_run_loop:run_ended");
                // the loop's own end-of-line housekeeping is not program output
                if real_out.ends_with('\n') {
                    real_out.pop();
                }
                Ok(())
            }
            (Ok(()), Some(pc)) => {
                loop_verdict = Some(format!("the run loop returned although the instruction left PC = x{:04X}", pc));
                Ok(())
            }
            (other, _) => other,
        }
    } else {
        end
    };

    // ---- reference execution, trying admissible variants
    let mut matched = false;
    let mut first_diff: Option<(String, String)> = None;
    let mut ref_step = Step::Next;
    let mut vmask = 0u32;
    let mut tried = 0;
    let mut touched_bits = 0u32;
    loop {
        // restore
        reference.reg = before.0;
        reference.pc = before.1;
        reference.cc = before.2;
        for &(a, v) in &ref_before_mem {
            reference.mem[a as usize] = v;
        }
        reference.out.clear();
        reference.input = VecDeque::from(st.input.clone());
        reference.input_taken = 0;
        reference.variant = vmask;
        reference.touched = 0;
        let step = reference.exec(w);
        if tried == 0 {
            ref_step = step;
            touched_bits = reference.touched;
        }
        tried += 1;
        if let Step::Rti | Step::Unspecified(_) = step {
            // outside the claim: resynchronise the real machine and skip
            out.class("discarded_unspecified");
            resync(env, reference, &before, &ref_before_mem);
            out.evals = 1;
            return out;
        }
        let diff = compare(env, reference, step, &end, &real_out, real_taken, full_mem, st, w);
        match diff {
            None => {
                matched = true;
                break;
            }
            Some(d) => {
                if first_diff.is_none() {
                    first_diff = Some(d);
                }
            }
        }
        // next subset of the touched variant bits
        match next_subset(vmask, touched_bits) {
            Some(n) => vmask = n,
            None => break,
        }
    }

    if let (Some(v), true) = (&loop_verdict, matched) {
        out.violate(
            format!("C02/{}/run-loop", opname(w)),
            id,
            v.clone(),
            J::obj(vec![("word", J::s(format!("x{:04X}", w))), ("pc_of_instruction", J::s(format!("x{:04X}", st.pc.wrapping_sub(1)))), ("stack_feature", J::B(stack_on))]),
        );
    }
    // ---- classes / floors
    out.class(opclass(w));
    out.class(if stack_on { "stack_on" } else { "stack_off" });
    let op = w >> 12;
    let sr1 = (w >> 6) & 7;
    let dr = (w >> 9) & 7;
    if op == 0xD && stack_on {
        let kind = (w >> 10) & 3;
        if kind == 1 && st.reg[7] == 0 {
            out.class("push_r7_zero");
        }
        if kind == 0 && st.reg[7] == 0xFFFF {
            out.class("pop_r7_ffff");
        }
        if kind == 1 && sr1 == 7 {
            out.class("coincide:push_r7");
        }
        if kind == 0 && sr1 == 7 {
            out.class("coincide:pop_r7");
        }
    }
    if op == 4 && w & 0x800 == 0 && sr1 == 7 {
        out.class("coincide:jsrr_r7");
    }
    if op == 6 && sr1 == dr {
        out.class("coincide:ldr_same");
    }
    if matches!(op, 2 | 3 | 10 | 11 | 14 | 0) {
        let off = sext(w, 9);
        let sum = st.pc as u32 + off as u32;
        if (off & 0x8000 == 0 && sum > 0xFFFF) || (off & 0x8000 != 0 && sum <= 0xFFFF) {
            out.class("addr_wrap");
        }
    }
    if op == 0 && st.cc == 0 && (w >> 9) & 7 != 0 {
        out.class("br_cc_none");
    }
    if op == 0xF {
        if (0x20..=0x27).contains(&(w & 0xFF)) {
            out.class("trap_known");
        } else {
            out.class("trap_unknown");
        }
    }
    match ref_step {
        Step::Exit(0xEE) => out.class("exit_0xee"),
        Step::Exit(1) if op == 0xD => out.class("exit_1_stack_off"),
        Step::Exit(1) => out.class("input_eof"),
        _ => {}
    }
    if touched_bits != 0 && vmask != 0 && matched {
        out.class(format!("variant_accepted:{:#x}", vmask));
    }
    // non-trivial: the reference effect changes something observable
    let changed = reference.reg != before.0
        || reference.pc != before.1
        || reference.cc != before.2
        || !reference.out.is_empty()
        || !matches!(ref_step, Step::Next)
        || matches!(op, 3 | 7 | 11 | 13);
    if changed {
        let mut h = mix64(id);
        for r in st.reg {
            h = mix64(h ^ r as u64);
        }
        out.nontrivial = Some(mix64(h ^ ((st.pc as u64) << 8) ^ st.cc as u64));
    }
    if id % 9973 == 0 {
        out.sample = Some(case_json(w, st, stack_on, id));
    }

    if !matched {
        let (aspect, what) = first_diff.unwrap();
        let key = format!("C02/{}/{}", opname(w), aspect);
        let mut detail = case_json(w, st, stack_on, id);
        if let J::O(ref mut pairs) = detail {
            pairs.push(("difference".into(), J::s(&what)));
            pairs.push((
                "real_end".into(),
                J::s(match &end {
                    Ok(()) => "returned".to_string(),
                    Err(a) => a.short(),
                }),
            ));
        }
        out.violate(key, id, what, detail);
        // resynchronise: copy the reference (variant 0) result into the real machine
        reference.reg = before.0;
        reference.pc = before.1;
        reference.cc = before.2;
        for &(a, v) in &ref_before_mem {
            reference.mem[a as usize] = v;
        }
        full_resync(env, reference);
    }
    out
}

fn next_subset(cur: u32, universe: u32) -> Option<u32> {
    if universe == 0 {
        return None;
    }
    // enumerate subsets of `universe` in increasing order: (cur - universe) & universe trick
    let next = (cur.wrapping_sub(universe)) & universe;
    if next == 0 {
        None
    } else {
        Some(next)
    }
}

fn touched_addrs(w: u16, st: &GenState) -> Vec<u16> {
    let mut v: Vec<u16> = st.writes.iter().map(|(a, _)| *a).collect();
    let a9 = st.pc.wrapping_add(sext(w, 9));
    v.push(a9);
    let sr1 = ((w >> 6) & 7) as usize;
    v.push(st.reg[sr1].wrapping_add(sext(w, 6)));
    v.push(st.reg[7].wrapping_sub(1));
    v.push(st.reg[7]);
    v.push(st.reg[7].wrapping_sub(2));
    // STI target = value written at a9 (last write to a9 wins)
    let mut ptr = None;
    for &(a, val) in &st.writes {
        if a == a9 {
            ptr = Some(val);
        }
    }
    if let Some(p) = ptr {
        v.push(p);
    }
    v.sort_unstable();
    v.dedup();
    v
}

fn resync(
    env: &mut lace::RunEnvironment,
    reference: &mut RefVm,
    before: &([u16; 8], u16, u8),
    mem_before: &[(u16, u16)],
) {
    reference.reg = before.0;
    reference.pc = before.1;
    reference.cc = before.2;
    for &(a, v) in mem_before {
        reference.mem[a as usize] = v;
    }
    full_resync(env, reference);
}

fn full_resync(env: &mut lace::RunEnvironment, reference: &RefVm) {
    env.verif_set(reference.reg, reference.pc, reference.cc);
    env.verif_mem_mut().copy_from_slice(&reference.mem[..]);
}

#[allow(clippy::too_many_arguments)]
fn compare(
    env: &lace::RunEnvironment,
    reference: &RefVm,
    step: Step,
    end: &Result<(), Abort>,
    real_out: &str,
    real_taken: u64,
    full_mem: bool,
    st: &GenState,
    w: u16,
) -> Option<(String, String)> {
    // how execution ended
    match (step, end) {
        (Step::Exit(code), Err(Abort::Exit(c))) => {
            if *c != code {
                return Some((
                    "exit".into(),
                    format!("exit status {} where the documented one is {}", c, code),
                ));
            }
        }
        (Step::Exit(code), Ok(())) => {
            return Some((
                "exit".into(),
                format!("executed instead of stopping with exit status {}", code),
            ));
        }
        (Step::Exit(code), Err(a)) => {
            return Some((
                format!("exit/{}", a.panic_file()),
                format!("{} instead of exit status {}", a.short(), code),
            ));
        }
        (_, Err(Abort::Panic { .. })) => {
            let a = end.as_ref().unwrap_err();
            return Some((format!("panic@{}", a.panic_file()), a.short()));
        }
        (_, Err(a)) => {
            return Some(("exit".into(), format!("{} where the ISA executes", a.short())));
        }
        (_, Ok(())) => {}
    }
    let v = env.verif_view();
    for i in 0..8 {
        if v.reg[i] != reference.reg[i] {
            return Some((
                "reg".into(),
                format!("R{} = x{:04X}, reference x{:04X}", i, v.reg[i], reference.reg[i]),
            ));
        }
    }
    if v.pc != reference.pc {
        return Some((
            "pc".into(),
            format!("PC = x{:04X}, reference x{:04X}", v.pc, reference.pc),
        ));
    }
    if v.cc != reference.cc {
        return Some((
            "cc".into(),
            format!("CC = {:03b}, reference {:03b}", v.cc, reference.cc),
        ));
    }
    if real_out != reference.out {
        return Some((
            "out".into(),
            format!("printed {:?}, reference {:?}", real_out, reference.out),
        ));
    }
    if real_taken != reference.input_taken {
        return Some((
            "input".into(),
            format!("consumed {} input bytes, reference {}", real_taken, reference.input_taken),
        ));
    }
    if full_mem {
        if v.mem[..] != reference.mem[..] {
            let a = (0..0x10000usize).find(|&a| v.mem[a] != reference.mem[a]).unwrap();
            return Some((
                "mem".into(),
                format!("mem[x{:04X}] = x{:04X}, reference x{:04X}", a, v.mem[a], reference.mem[a]),
            ));
        }
    } else {
        for a in touched_addrs(w, st) {
            if v.mem[a as usize] != reference.mem[a as usize] {
                return Some((
                    "mem".into(),
                    format!(
                        "mem[x{:04X}] = x{:04X}, reference x{:04X}",
                        a, v.mem[a as usize], reference.mem[a as usize]
                    ),
                ));
            }
        }
    }
    None
}

fn case_json(w: u16, st: &GenState, stack_on: bool, id: u64) -> J {
    J::obj(vec![
        ("case", J::I(id as i64)),
        ("word", J::s(format!("x{:04X}", w))),
        ("mnemonic", J::s(opname(w))),
        ("stack_feature", J::B(stack_on)),
        ("regs", J::words(&st.reg)),
        ("pc_incremented", J::s(format!("x{:04X}", st.pc))),
        ("cc", J::s(format!("{:03b}", st.cc))),
        (
            "memory_writes",
            J::A(st
                .writes
                .iter()
                .map(|(a, v)| J::s(format!("x{:04X}=x{:04X}", a, v)))
                .collect()),
        ),
        ("input", J::A(st.input.iter().map(|b| J::I(*b as i64)).collect())),
    ])
}

#[allow(dead_code)]
pub fn variant_names(mask: u32) -> Vec<&'static str> {
    let mut v = Vec::new();
    if mask & variant::JSRR_TEMP != 0 {
        v.push("jsrr_temp");
    }
    if mask & variant::TRAP_R7 != 0 {
        v.push("trap_r7");
    }
    if mask & variant::PUSH_R7_AFTER != 0 {
        v.push("push_r7_after");
    }
    if mask & variant::POP_R7_PLUS != 0 {
        v.push("pop_r7_plus");
    }
    if mask & variant::NONASCII_RAW != 0 {
        v.push("nonascii_raw");
    }
    if mask & variant::HALT_PC_KEEP != 0 {
        v.push("halt_pc_keep");
    }
    v
}


// ---------------------------------------------------------------------------------------------
// The same single instructions under the debugger: a session over an image of instruction words,
// with `goto`, `move` and `reset` between `step into` commands. Every `step into` is one
// instruction executed on the machine state shown at the prompt before it; the state at the next
// prompt must be what the reference makes of that state and the word under its PC.

pub const DBG_BASE: u64 = 1 << 40;

fn plain_word(rng: &mut Rng, stack: bool) -> u16 {
    loop {
        let w = match rng.below(12) {
            0 => 0x1000 | (rng.u16() & 0x0FFF),
            1 => 0x5000 | (rng.u16() & 0x0FFF),
            2 => 0x9000 | (rng.u16() & 0x0FC0) | 0x3F,
            3 => 0x2000 | (rng.u16() & 0x0E00) | (rng.below(48) as u16).wrapping_sub(16) & 0x1FF,
            4 => 0xE000 | (rng.u16() & 0x0FFF),
            5 => 0x3000 | (rng.u16() & 0x0E00) | (rng.below(48) as u16).wrapping_sub(16) & 0x1FF,
            6 => 0x6000 | (rng.u16() & 0x0FFF),
            7 => 0x7000 | (rng.u16() & 0x0FFF),
            8 => (rng.u16() & 0x0E00) | (rng.below(24) as u16).wrapping_sub(4) & 0x1FF,
            9 => 0x4800 | (rng.below(24) as u16).wrapping_sub(4) & 0x7FF,
            10 => 0xC000 | ((rng.below(8) as u16) << 6),
            _ if stack => 0xD000 | (rng.u16() & 0x0FFF),
            _ => 0x1000 | (rng.u16() & 0x0FFF),
        };
        // ADD/AND register form: bits 4..3 must be zero
        if matches!(w >> 12, 1 | 5) && w & 0x20 == 0 && w & 0x18 != 0 {
            continue;
        }
        return w;
    }
}

fn debugger_case(seed: u64, i: u64) -> CaseOut {
    use crate::dbgmon::{diff_mem, run_session};
    let mut out = CaseOut::new();
    let id = DBG_BASE + i;
    let mut rng = Rng::for_case(seed, "C02dbg", i);
    let stack = rng.bool();
    let orig: u16 = *rng.pick(&[0x3000u16, 0x0200, 0x8000, 0xE000]) + rng.below(0x100) as u16;
    let n_words = 12 + rng.below(20) as u16;
    let words: Vec<u16> = (0..n_words).map(|_| plain_word(&mut rng, stack)).collect();
    let mut text = format!(".orig x{:04X}\n", orig);
    for w in &words {
        text.push_str(&format!(".fill x{:04X}\n", w));
    }
    text.push_str(".end\n");
    // script
    let mut lines: Vec<String> = Vec::new();
    let inside = |rng: &mut Rng| orig + rng.below(n_words as u64) as u16;
    for r in 0..8 {
        if rng.chance(2, 3) {
            let v = if rng.chance(3, 4) { inside(&mut rng) } else { rng.u16() };
            lines.push(format!("move r{} x{:04x}", r, if r == 7 && stack { 0x4000 + rng.below(0x4000) as u16 } else { v }));
        }
    }
    let mut steps: Vec<usize> = Vec::new();
    // instructions handed to `eval` (written out as text, executed where the machine stands): line index, word
    let mut evals: Vec<(usize, u16)> = Vec::new();
    for _ in 0..6 + rng.below(10) {
        if rng.chance(1, 5) {
            let (d, a, b) = (rng.below(8) as u16, rng.below(8) as u16, rng.below(8) as u16);
            let imm = rng.range(-16, 15) as i32;
            let (text, w) = match rng.below(5) {
                0 => (format!("add r{} r{} #{}", d, a, imm), 0x1020 | (d << 9) | (a << 6) | (imm as u16 & 0x1F)),
                1 => (format!("and r{}, r{}, r{}", d, a, b), 0x5000 | (d << 9) | (a << 6) | b),
                2 => (format!("not r{} r{}", d, a), 0x903F | (d << 9) | (a << 6)),
                3 => (format!("add r{} r{} r{}", d, a, b), 0x1000 | (d << 9) | (a << 6) | b),
                _ => (format!("and r{} r{} #{}", d, a, imm), 0x5020 | (d << 9) | (a << 6) | (imm as u16 & 0x1F)),
            };
            evals.push((lines.len(), w));
            lines.push(format!("{} {}", rng.s(&["eval", "e"]), text));
        }
        match rng.below(7) {
            0 | 1 => lines.push(format!("{} x{:04x}", rng.s(&["goto", "g"]), inside(&mut rng))),
            2 => lines.push(format!("move x{:04x} x{:04x}", inside(&mut rng), plain_word(&mut rng, stack))),
            3 if rng.chance(1, 3) => lines.push("reset".to_string()),
            3 => lines.push(format!("move r{} x{:04x}", rng.below(7), inside(&mut rng))),
            // the word under the PC itself is replaced just before it is executed
            4 => {
                let a = inside(&mut rng);
                lines.push(format!("goto x{:04x}", a));
                lines.push(format!("move x{:04x} x{:04x}", a, plain_word(&mut rng, stack)));
            }
            _ => {}
        }
        steps.push(lines.len());
        lines.push(rng.s(&["step into", "si", "step into 1", "si 1"]).to_string());
    }
    // with the feature off, a word of opcode 0xD is reserved: executing it ends the run with status 1, debugger
    // attached or not (the last word of the image is made one; the script goes there at its end, half of the time)
    let reserved_at_end = !stack && rng.bool();
    if reserved_at_end {
        lines.push(format!("move x{:04x} x{:04x}", orig + n_words - 1, 0xD000 | (rng.u16() & 0x0FFF)));
        lines.push(format!("goto x{:04x}", orig + n_words - 1));
        lines.push(rng.s(&["step into", "continue", "step", "si 3"]).to_string());
        lines.push("registers".to_string());
    }
    lines.push("exit".to_string());
    let script = lines.join("\n");
    let sess = match run_session(&text, stack, &script, &[], 10_000, false) {
        Ok(s) => s,
        Err(o) => {
            out.inconclusive = Some(format!("image of .fill words not assembled ({})", o.class()));
            return out;
        }
    };
    out.evals = 0;
    let mut reference = RefVm::load(&[orig], stack).unwrap();
    for &li in &steps {
        let (Some(before), Some(after)) = (
            sess.snaps.iter().find(|s| s.commands_read == li),
            sess.snaps.iter().find(|s| s.commands_read == li + 1),
        ) else {
            out.class("debugger:session_ended_before_step");
            break;
        };
        if before.pc < orig || before.pc >= 0xFE00 {
            out.class("debugger:pc_outside_user_memory");
            break;
        }
        // the reference machine in the state shown at the prompt
        reference.mem.copy_from_slice(&sess.init_mem[..]);
        for &(a, v) in &before.mem_diff {
            reference.mem[a as usize] = v;
        }
        let w = reference.mem[before.pc as usize];
        if w == 0xF025 || w >> 12 == 8 || w >> 12 == 0xF || (w >> 12 == 0xD && !stack) {
            // HALT is never executed while the debugger is attached; traps and RTI are not in this family
            out.class("debugger:not_a_plain_instruction");
            break;
        }
        let before_mem = reference.mem.clone();
        let mut vmask = 0u32;
        let mut matched = false;
        let mut first: Option<String> = None;
        let mut leaves = false;
        loop {
            reference.mem.copy_from_slice(&before_mem[..]);
            reference.reg = before.reg;
            reference.cc = before.cc;
            reference.pc = before.pc.wrapping_add(1);
            reference.variant = vmask;
            reference.touched = 0;
            reference.out.clear();
            let step = reference.exec(w);
            if !matches!(step, Step::Next) {
                out.class("debugger:not_a_plain_instruction");
                leaves = true;
                break;
            }
            if reference.pc < orig || reference.pc >= 0xFE00 {
                leaves = true;
            }
            let d = if after.reg != reference.reg {
                Some(format!("registers {:04X?}, reference {:04X?}", after.reg, reference.reg))
            } else if after.pc != reference.pc {
                Some(format!("PC x{:04X}, reference x{:04X}", after.pc, reference.pc))
            } else if after.cc != reference.cc {
                Some(format!("CC {:03b}, reference {:03b}", after.cc, reference.cc))
            } else if after.mem_diff != diff_mem(&reference.mem, &sess.init_mem) {
                Some(format!("memory changes {:04X?}, reference {:04X?}", &after.mem_diff[..after.mem_diff.len().min(6)], {
                    let d = diff_mem(&reference.mem, &sess.init_mem);
                    d[..d.len().min(6)].to_vec()
                }))
            } else {
                None
            };
            match d {
                None => {
                    matched = true;
                    break;
                }
                Some(d) => {
                    if first.is_none() {
                        first = Some(d);
                    }
                }
            }
            match next_subset(vmask, reference.touched) {
                Some(n) => vmask = n,
                None => break,
            }
        }
        if leaves && !matched {
            // the run may legitimately have ended or been stopped by the debugger here
            out.class("debugger:left_user_memory");
            break;
        }
        out.evals += 1;
        out.class("debugger:step_into_compared");
        out.class(format!("debugger:{}", opclass(w)));
        let prev = if li > 0 { lines[li - 1].as_str() } else { "" };
        if li > 0 && prev.starts_with('g') {
            out.class("debugger:step_after_goto");
        } else if li > 0 && prev.starts_with("move x") && prev[5..].starts_with(&format!("x{:04x} ", before.pc)) {
            out.class("debugger:step_after_word_under_pc_replaced");
        } else if li > 0 && prev == "reset" {
            out.class("debugger:step_after_reset");
        }
        if !matched {
            out.violate(
                format!("C02/{}/under-debugger", opname(w)),
                id,
                format!(
                    "`{}` at PC x{:04X} (word x{:04X}, after `{}`): {}",
                    lines[li],
                    before.pc,
                    w,
                    if li > 0 { lines[li - 1].as_str() } else { "" },
                    first.unwrap_or_default()
                ),
                J::obj(vec![
                    ("source", J::s(&text)),
                    ("script", J::A(lines.iter().map(J::s).collect())),
                    ("stack_feature", J::B(stack)),
                    ("command_index", J::I(li as i64)),
                ]),
            );
            break;
        }
        if leaves {
            break;
        }
    }
    for &(li, w) in &evals {
        let (Some(before), Some(after)) = (
            sess.snaps.iter().find(|s| s.commands_read == li),
            sess.snaps.iter().find(|s| s.commands_read == li + 1),
        ) else {
            break;
        };
        reference.mem.copy_from_slice(&sess.init_mem[..]);
        reference.reg = before.reg;
        reference.cc = before.cc;
        reference.pc = before.pc;
        reference.variant = 0;
        reference.touched = 0;
        let _ = reference.exec(w);
        out.class("debugger:instruction_given_to_eval");
        let why = if after.reg != reference.reg {
            Some(format!("registers {:04X?}, reference {:04X?}", after.reg, reference.reg))
        } else if after.cc != reference.cc {
            Some(format!("CC {:03b}, reference {:03b}", after.cc, reference.cc))
        } else if after.pc != before.pc {
            Some(format!("PC x{:04X}, was x{:04X}", after.pc, before.pc))
        } else if after.mem_diff != before.mem_diff {
            Some("memory changed".to_string())
        } else {
            None
        };
        if let Some(why) = why {
            out.violate(
                format!("C02/{}/given-to-eval", opname(w)),
                id,
                format!("`{}` (word x{:04X}) on registers {:04X?}, CC {:03b}: {}", lines[li], w, before.reg, before.cc, why),
                J::obj(vec![("source", J::s(&text)), ("script", J::A(lines.iter().map(J::s).collect())), ("command_index", J::I(li as i64))]),
            );
            break;
        }
    }
    if reserved_at_end {
        let resume_line = lines.len() - 3;
        // did the session get as far as the resuming command on the reserved word?
        let reached = sess.snaps.iter().any(|s| s.commands_read == resume_line && s.pc == orig + n_words - 1);
        if reached {
            out.class("debugger:reserved_word_with_feature_off");
            let went_on = sess.snaps.iter().any(|s| s.commands_read > resume_line);
            if went_on || sess.obs.end != Err(Abort::Exit(1)) {
                out.violate(
                    "C02/STACK/under-debugger",
                    id,
                    format!(
                        "a word of opcode 0xD executed by `{}` with the stack feature off: the session {} (end: {}); the documented effect is the error exit, status 1",
                        lines[resume_line],
                        if went_on { "went on to another prompt" } else { "ended otherwise" },
                        match &sess.obs.end { Ok(()) => "run() returned".to_string(), Err(a) => a.short() }
                    ),
                    J::obj(vec![("source", J::s(&text)), ("script", J::A(lines.iter().map(J::s).collect()))]),
                );
            }
        }
    }
    out.nontrivial = Some(crate::util::hash_bytes(format!("{}|{}", text, script).as_bytes()));
    out
}


// ---------------------------------------------------------------------------------------------
// Sequences. The single-instruction workload sets the whole visible state before every instruction,
// so anything an implementation remembers *besides* registers, PC, CC and memory never matters
// there. Here two to six instructions run back to back on one machine, built so that a later one
// depends on a location an earlier one used and something else wrote in between (push / store to
// the slot / pop; call / store / rets; store / load of the same address by different addressing
// modes). After every instruction the whole visible state is compared.

pub const SEQ_BASE: u64 = 1 << 39;

fn sequence_case(seed: u64, i: u64) -> CaseOut {
    let mut out = CaseOut::new();
    let id = SEQ_BASE + i;
    let mut rng = Rng::for_case(seed, "C02seq", i);
    let stack_on = rng.chance(2, 3);
    init_features(stack_on);
    lace::set_minimal(true);
    let Ok(mut env) = load_raw(&[0x0000]) else {
        out.inconclusive = Some("cannot create machine".into());
        return out;
    };
    let mut reference = RefVm::load(&[0x0000], stack_on).unwrap();
    // state
    let mut reg = [0u16; 8];
    for r in reg.iter_mut() {
        *r = match rng.below(4) {
            0 => 0x4000 + rng.below(0x8000) as u16,
            1 => rng.below(16) as u16,
            _ => rng.u16(),
        };
    }
    reg[7] = 0x4000 + rng.below(0xB000) as u16;
    let pc0: u16 = 0x3000 + rng.below(0x8000) as u16;
    let cc = *rng.pick(&[0u8, 1, 2, 4]);
    // a little memory around the places the sequence will touch
    let mut writes: Vec<(u16, u16)> = Vec::new();
    for k in 0..8u16 {
        writes.push((reg[7].wrapping_sub(4).wrapping_add(k), rng.u16()));
        writes.push((pc0.wrapping_add(k * 3), rng.u16()));
    }
    {
        let mem = env.verif_mem_mut();
        for &(a, v) in &writes {
            mem[a as usize] = v;
            reference.mem[a as usize] = v;
        }
    }
    let r = |rng: &mut Rng| rng.below(7) as u16; // not R7 unless said so
    let any = |rng: &mut Rng| rng.below(8) as u16;
    let push = |s: u16| 0xD400 | (s << 6);
    let pop = |d: u16| 0xD000 | (d << 6);
    let str_ = |s: u16, b: u16, k: i16| 0x7000 | (s << 9) | (b << 6) | (k as u16 & 0x3F);
    let ldr = |d: u16, b: u16, k: i16| 0x6000 | (d << 9) | (b << 6) | (k as u16 & 0x3F);
    let addi = |d: u16, s: u16, k: i16| 0x1020 | (d << 9) | (s << 6) | (k as u16 & 0x1F);
    let family = if stack_on { rng.below(9) } else { 4 + rng.below(5) };
    let mut words: Vec<u16> = Vec::new();
    let name = match family {
        0 => {
            words = vec![push(any(&mut rng)), str_(any(&mut rng), 7, rng.range(-1, 1) as i16), pop(any(&mut rng))];
            "push_store_pop"
        }
        1 => {
            // CALL +off, store over the saved return address, RETS
            words = vec![0xDC00 | (rng.below(0x200) as u16), str_(r(&mut rng), 7, 0), 0xD800];
            "call_store_rets"
        }
        2 => {
            words = vec![push(any(&mut rng)), addi(7, 7, 1), addi(7, 7, -1), str_(r(&mut rng), 7, 0), pop(any(&mut rng))];
            "push_move_r7_store_pop"
        }
        3 => {
            words = vec![push(any(&mut rng)), push(any(&mut rng)), pop(any(&mut rng)), str_(r(&mut rng), 7, 0), pop(any(&mut rng)), push(any(&mut rng)), pop(any(&mut rng))];
            "push_push_pop_store_pop"
        }
        4 => {
            // ST and LD of one address from consecutive instructions (offsets differ by one), twice
            let o = rng.range(-200, 200) as i16;
            words = vec![
                0x3000 | (r(&mut rng) << 9) | (o as u16 & 0x1FF),
                0x2000 | (r(&mut rng) << 9) | ((o - 1) as u16 & 0x1FF),
                0x3000 | (r(&mut rng) << 9) | ((o - 2) as u16 & 0x1FF),
                0x2000 | (r(&mut rng) << 9) | ((o - 3) as u16 & 0x1FF),
            ];
            "st_ld_same_address"
        }
        5 => {
            let (b, k) = (r(&mut rng), rng.range(-32, 31) as i16);
            words = vec![str_(any(&mut rng), b, k), ldr(r(&mut rng), b, k), str_(any(&mut rng), b, k), ldr(r(&mut rng), b, k)];
            "str_ldr_same_address"
        }
        6 => {
            // STI / LDI through one pointer word, with the pointer itself rewritten in between
            let o = rng.range(-100, 100) as i16;
            words = vec![
                0xB000 | (r(&mut rng) << 9) | (o as u16 & 0x1FF),
                0xA000 | (r(&mut rng) << 9) | ((o - 1) as u16 & 0x1FF),
                0x3000 | (r(&mut rng) << 9) | ((o - 2) as u16 & 0x1FF),
                0xA000 | (r(&mut rng) << 9) | ((o - 3) as u16 & 0x1FF),
            ];
            "sti_ldi_same_pointer"
        }
        7 => {
            // JSR, R7 nudged, RET
            words = vec![0x4800 | (rng.below(0x400) as u16), addi(7, 7, rng.range(-3, 3) as i16), 0xC1C0];
            "jsr_adjust_ret"
        }
        _ => {
            for _ in 0..3 + rng.below(4) {
                words.push(plain_word(&mut rng, stack_on));
            }
            "random_plain_words"
        }
    };
    out.class(format!("sequence:{}", name));
    env.verif_set(reg, pc0.wrapping_add(1), cc);
    reference.reg = reg;
    reference.pc = pc0.wrapping_add(1);
    reference.cc = cc;
    out.evals = 0;
    for (k, &w) in words.iter().enumerate() {
        reference.variant = 0;
        reference.touched = 0;
        let step = reference.exec(w);
        if !matches!(step, Step::Next) || reference.touched != 0 {
            out.class("sequence:cut_short_by_an_open_point_or_exit");
            break;
        }
        verif::install(Monitor { armed: true, ..Default::default() });
        let end = guard(|| env.verif_execute(w));
        let _ = verif::take();
        let v = env.verif_view();
        let why = if let Err(a) = &end {
            Some(a.short())
        } else if *v.reg != reference.reg {
            Some(format!("registers {:04X?}, reference {:04X?}", v.reg, reference.reg))
        } else if v.pc != reference.pc {
            Some(format!("PC x{:04X}, reference x{:04X}", v.pc, reference.pc))
        } else if v.cc != reference.cc {
            Some(format!("CC {:03b}, reference {:03b}", v.cc, reference.cc))
        } else if v.mem[..] != reference.mem[..] {
            let a = (0..0x10000).find(|&a| v.mem[a] != reference.mem[a]).unwrap();
            Some(format!("mem[x{:04X}] = x{:04X}, reference x{:04X}", a, v.mem[a], reference.mem[a]))
        } else {
            None
        };
        if let Some(why) = why {
            out.violate(
                format!("C02/{}/in-sequence", opname(w)),
                id,
                format!("instruction {} of the sequence {:04X?} (family {}): {}", k + 1, words, name, why),
                J::obj(vec![
                    ("words", J::words(&words)),
                    ("registers_before_the_sequence", J::words(&reg)),
                    ("pc_of_first_instruction", J::s(format!("x{:04X}", pc0))),
                    ("stack_feature", J::B(stack_on)),
                ]),
            );
            return out;
        }
        out.evals += 1;
        // next instruction: the PC as the loop would leave it
        let (regs_now, pc_now, cc_now) = (*v.reg, v.pc, v.cc);
        env.verif_set(regs_now, pc_now.wrapping_add(1), cc_now);
        reference.pc = reference.pc.wrapping_add(1);
    }
    if out.evals as usize == words.len() {
        out.class("sequence:completed");
    }
    out.nontrivial = Some(crate::util::hash_bytes(format!("{:?}{:?}{}", words, reg, pc0).as_bytes()));
    out
}
