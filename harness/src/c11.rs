//! C11 — breakpoints always stop execution before the marked instruction.
//!
//! Monitors: (1) lockstep reference debugger model (pause positions, breakpoint list at every
//! prompt, `.break` -> address mapping from the reference assembler); (2) trace invariant over the
//! interleaved fetch/prompt event log: fetch(a) with a in B  =>  the previous event is prompt(pc=a).

use crate::dbgmon::{breakpoint_trace_invariant, run_and_verify, script_lines, session_json};
use crate::progs::{gen_structured, ProgOpts};
use crate::refasm::*;
use crate::refdbg::{Cmd, Loc};
use crate::util::{hash_bytes, CaseOut, Collector, Rng, J};
use crate::Cfg;

pub const FLOORS: &[&str] = &[
    "pause_at_directive_break", "pause_at_runtime_break", "revisit_pause", "self_loop_revisit",
    "two_loop_revisit", "removed_breakpoint_passed", "resume:continue", "resume:step", "resume:si",
    "resume:so", "loc:abs", "loc:label", "loc:pc", "break_before_first", "break_after_last",
    "break_doubled", "nondefault_origin", "trace_invariant_checked", "origin_below_statement_count", "pause_at_break_outside_image",
    "reset_between_list_change_and_resume", "many_breakpoints", "break_with_label", "break_with_label_after_last", "pc_relative_breakpoint_after_eval_moved_the_pc", "breakpoints_a_power_of_two_apart", "word_under_a_breakpoint_patched", "breakpoint_32768_words_below_the_pc_or_a_label", "break_with_label_in_front_of_a_labelled_statement", "declared_breakpoint_removed_by_the_name_in_front_of_it", "breakpoint_on_a_label_that_begins_like_a_register",
];

struct Loopy {
    src: &'static str,
    stack: bool,
    origin: u16,
    /// (label, statement index)
    labels: &'static [(&'static str, u16)],
    n: u16,
    class: &'static str,
    /// offsets from the origin of addresses *outside* the assembled image which the program executes
    outside: &'static [u16],
}

const LOOPY: &[Loopy] = &[
    Loopy { outside: &[], class: "self_loop", stack: true, origin: 0x3000, n: 3, labels: &[("lp", 1), ("after", 2)],
        src: "lea r6 lp\nlp jmp r6\nafter halt\n" },
    Loopy { outside: &[], class: "self_loop", stack: false, origin: 0x6000, n: 4, labels: &[("lp", 2), ("top", 0)],
        src: ".orig x6000\ntop and r0 r0 #0\nadd r0 r0 #-1\nlp brn lp\nhalt\n" },
    Loopy { outside: &[], class: "two_loop", stack: true, origin: 0x3000, n: 5, labels: &[("lp", 2), ("done", 4)],
        src: "and r0 r0 #0\nadd r0 r0 #4\nlp add r0 r0 #-1\nbrp lp\ndone halt\n" },
    Loopy { outside: &[], class: "two_loop", stack: false, origin: 0x3000, n: 4, labels: &[("pa", 1), ("pb", 2)],
        src: "and r1 r1 #0\npa add r1 r1 #1\npb brnzp pa\nhalt\n" },
    Loopy { outside: &[], class: "two_loop", stack: false, origin: 0x3000, n: 3, labels: &[("top", 0), ("nx", 1)],
        src: "top add r1 r1 #1\nnx brnzp top\nhalt\n" },
    Loopy { outside: &[], class: "two_loop", stack: true, origin: 0x0100, n: 5, labels: &[("far", 0x8203), ("near", 1)],
        src: ".orig x0100\nld r0 kk\nnear jmp r0\nkk .fill x8303\n.blkw x8200\nfar add r1 r1 #1\nbrnzp far\n" },
    Loopy { outside: &[], class: "sub_loop", stack: true, origin: 0x3000, n: 8, labels: &[("again", 2), ("f", 6), ("fr", 7)],
        src: "and r4 r4 #0\nadd r4 r4 #3\nagain call f\nadd r4 r4 #-1\nbrp again\nhalt\nf add r1 r1 #1\nfr rets\n" },
    // two labels that differ only in letter case, on different instructions of the loop
    Loopy { outside: &[], class: "two_loop", stack: false, origin: 0x3000, n: 6, labels: &[("lp", 1), ("LP", 2)],
        src: "and r1 r1 #0\nlp add r1 r1 #1\nLP add r2 r2 #1\nadd r3 r1 #-3\nbrn lp\nhalt\n" },
    // leaves its image: jumps over the loader's HALT into zeroed memory (NOPs) and runs on to xFE00;
    // breakpoints there are on addresses that hold no statement
    Loopy { outside: &[7, 9], class: "outside_image", stack: false, origin: 0xFDE0, n: 4, labels: &[("tail", 3), ("go", 2)],
        src: ".orig xFDE0\nlea r1 tail\nadd r1 r1 #4\ngo jmp r1\ntail halt\n" },
];

fn loopy_alphabet(p: &Loopy) -> Vec<Cmd> {
    let mut v = vec![
        Cmd::Continue,
        Cmd::Step,
        Cmd::StepInto(1),
        Cmd::StepInto(2),
        Cmd::StepInto(5),
        Cmd::StepOut,
        Cmd::BreakList,
        // the breakpoint list is the user's: `reset` restores the machine, not the list
        Cmd::Reset,
    ];
    for (name, idx) in p.labels {
        let addr = p.origin + idx;
        v.push(Cmd::BreakAddLoc(Loc::Label(name.to_string(), addr, 0)));
        v.push(Cmd::BreakRemoveLoc(Loc::Abs(addr)));
    }
    v.push(Cmd::BreakAddLoc(Loc::Pc(0)));
    v.push(Cmd::BreakAddLoc(Loc::Pc(1)));
    v.push(Cmd::BreakRemoveLoc(Loc::Pc(0)));
    v.push(Cmd::BreakAddLoc(Loc::Label(p.labels[0].0.to_string(), p.origin + p.labels[0].1, 1)));
    for (k, o) in p.outside.iter().enumerate() {
        let addr = p.origin + o;
        if k % 2 == 0 {
            v.push(Cmd::BreakAddLoc(Loc::Abs(addr)));
        } else {
            v.push(Cmd::BreakAddLoc(Loc::Label(p.labels[0].0.to_string(), p.origin + p.labels[0].1, (*o as i32) - (p.labels[0].1 as i32))));
        }
        v.push(Cmd::BreakRemoveLoc(Loc::Abs(addr)));
    }
    v
}

fn nth_script(mut i: u64, alpha: &[Cmd], max_len: u32) -> Vec<Cmd> {
    let k = alpha.len() as u64;
    for l in 0..=max_len {
        let n = k.pow(l);
        if i < n {
            let mut v = Vec::new();
            for _ in 0..l {
                v.push(alpha[(i % k) as usize].clone());
                i /= k;
            }
            return v;
        }
        i -= n;
    }
    Vec::new()
}

fn count_scripts(k: u64, len: u32) -> u64 {
    (0..=len).map(|l| k.pow(l)).sum()
}

pub fn run(cfg: &Cfg, col: &mut Collector) {
    let max_len: u32 = if cfg.miri { 1 } else if cfg.thorough() { 4 } else { 3 };
    let mut offsets = Vec::new();
    let mut total = 0u64;
    for p in LOOPY {
        offsets.push(total);
        total += count_scripts(loopy_alphabet(p).len() as u64, max_len);
    }
    let n_loopy = total;
    let n_place = cfg.n(1500, 40_000, 4);
    let n_random = cfg.n(2000, 80_000, 4);
    let seed = cfg.seed;
    let offsets = &offsets;
    crate::util::run_cases(n_loopy + n_place + n_random, cfg.only_case, cfg.threads, col, move |i| {
        if i < n_loopy {
            let pi = offsets.iter().rposition(|o| *o <= i).unwrap();
            loopy_case(seed, i, pi, i - offsets[pi], max_len)
        } else if i < n_loopy + n_place {
            placement_case(seed, i)
        } else {
            random_case(seed, i)
        }
    });
    col.extra.push((
        "plan".into(),
        J::obj(vec![
            ("loop_programs_exhaustive_scripts", J::I(n_loopy as i64)),
            ("max_script_length", J::I(max_len as i64)),
            ("break_placement_sessions", J::I(n_place as i64)),
            ("random_sessions", J::I(n_random as i64)),
        ]),
    ));
}

/// Classes derived from what the real session showed (pauses at breakpoints, revisits...).
fn observe(out: &mut CaseOut, sess: &crate::dbgmon::Session, cmds: &[Cmd], kind: &str) {
    let snaps = &sess.snaps;
    let mut paused_at: Vec<(u16, u64)> = Vec::new();
    for (j, s) in snaps.iter().enumerate() {
        if j == 0 {
            continue;
        }
        let prev = &snaps[j - 1];
        if s.fetches > prev.fetches {
            // arrived here by executing
            if let Some((_, predefined)) = s.bps.iter().find(|b| b.0 == s.pc) {
                out.class(if *predefined { "pause_at_directive_break" } else { "pause_at_runtime_break" });
                let o = sess.image.origin();
                if s.pc.wrapping_sub(o) as usize > sess.image.words.len() {
                    out.class("pause_at_break_outside_image");
                }
                if paused_at.iter().any(|(pc, f)| *pc == s.pc && *f < s.fetches) {
                    out.class("revisit_pause");
                    if kind == "self_loop" {
                        out.class("self_loop_revisit");
                    }
                    if kind == "two_loop" {
                        out.class("two_loop_revisit");
                    }
                }
                paused_at.push((s.pc, s.fetches));
            }
        }
    }
    // a removed breakpoint which execution later passed
    let mut removed: Vec<u16> = Vec::new();
    for j in 1..snaps.len() {
        let before: Vec<u16> = snaps[j - 1].bps.iter().map(|b| b.0).collect();
        let after: Vec<u16> = snaps[j].bps.iter().map(|b| b.0).collect();
        for a in before {
            if !after.contains(&a) {
                removed.push(a);
            }
        }
    }
    if !removed.is_empty() && sess.obs.trace.iter().any(|(pc, _)| removed.contains(pc)) {
        out.class("removed_breakpoint_passed");
    }
    if let Some(ri) = cmds.iter().position(|c| matches!(c, Cmd::Reset)) {
        // a reset after the list was changed at run time, with execution resumed afterwards
        let changed_before = cmds[..ri].iter().any(|c| matches!(c, Cmd::BreakAddLoc(_) | Cmd::BreakRemoveLoc(_) | Cmd::BreakAdd(_) | Cmd::BreakRemove(_)));
        let resumed_after = cmds[ri + 1..].iter().any(|c| c.is_resuming());
        if changed_before && resumed_after {
            out.class("reset_between_list_change_and_resume");
        }
    }
    for (ci, c) in cmds.iter().enumerate() {
        let at_bp = snaps.get(ci).map(|s| s.bps.iter().any(|b| b.0 == s.pc)).unwrap_or(false);
        if at_bp {
            match c {
                Cmd::Continue => out.class("resume:continue"),
                Cmd::Step => out.class("resume:step"),
                Cmd::StepInto(_) => out.class("resume:si"),
                Cmd::StepOut => out.class("resume:so"),
                _ => {}
            }
        }
        match c {
            Cmd::BreakAddLoc(l) | Cmd::BreakRemoveLoc(l) => out.class(match l {
                Loc::Abs(_) => "loc:abs",
                Loc::Label(..) => "loc:label",
                Loc::Pc(_) => "loc:pc",
            }),
            Cmd::BreakAdd(_) | Cmd::BreakRemove(_) => out.class("loc:abs"),
            _ => {}
        }
    }
}

#[allow(clippy::too_many_arguments)]
fn session(
    out: &mut CaseOut,
    case: u64,
    text: &str,
    stack: bool,
    cmds: &[Cmd],
    salt: u64,
    input: &[u8],
    breaks: &[u16],
    kind: &str,
) {
    let lines = script_lines(cmds, salt);
    let sep = match salt % 5 { 0 => ";", 1 => "mix", _ => "\n" };
    let checked = run_and_verify(out, "C11", case, text, stack, cmds, &lines, sep, input, true, breaks);
    let Some(sess) = &checked.sess else {
        return;
    };
    // the trace invariant is independent of the model: check it whenever there is a session
    if let Some(v) = breakpoint_trace_invariant(sess) {
        out.violate(
            "C11/executed-through-breakpoint",
            case,
            v,
            session_json(text, &lines, stack, input),
        );
    }
    out.class("trace_invariant_checked");
    if checked.stats.is_some() {
        observe(out, sess, cmds, kind);
        if sess.snaps.iter().any(|s| s.bps.iter().any(|b| b.0 == s.pc)) {
            out.nontrivial = Some(hash_bytes(format!("{}|{:?}", text, lines).as_bytes()));
        }
        if sess.image.origin() != 0x3000 {
            out.class("nondefault_origin");
        }
        if case % 1009 == 0 {
            out.sample = Some(J::obj(vec![
                ("source", J::s(text)),
                ("script", J::A(lines.iter().map(J::s).collect())),
                (
                    "pauses",
                    J::A(sess.snaps.iter().map(|s| J::s(format!("x{:04X}", s.pc))).collect()),
                ),
            ]));
        }
    }
}

fn loopy_case(seed: u64, i: u64, pi: usize, si: u64, max_len: u32) -> CaseOut {
    let mut out = CaseOut::new();
    let p = &LOOPY[pi];
    let alpha = loopy_alphabet(p);
    let mut cmds = nth_script(si, &alpha, max_len);
    // infinite loops: always leave with `exit`
    cmds.push(Cmd::Exit);
    session(&mut out, i, p.src, p.stack, &cmds, seed ^ i, b"", &[], p.class);
    let _ = p.n;
    out
}

/// `.break` at every placement of a generated program.
fn placement_case(seed: u64, i: u64) -> CaseOut {
    let mut out = CaseOut::new();
    let mut rng = Rng::for_case(seed, "C11p", i);
    let stack = rng.bool();
    let origin = match rng.below(6) {
        0 | 1 => None,
        // origins smaller than the program: a statement index can then be >= the origin
        2 => Some(1 + rng.below(12) as i32),
        _ => Some(gen_origin(&mut rng).clamp(1, 0xF000)),
    };
    if matches!(origin, Some(v) if v < 16) {
        out.class("origin_below_statement_count");
    }
    let o = ProgOpts {
        stack,
        origin,
        breaks: false,
        tame_endings: true,
        io: false,
        max_sections: 2,
    };
    let built = gen_structured(&mut rng, &o);
    let mut items = built.program.items.clone();
    let stmt_positions: Vec<usize> = items
        .iter()
        .enumerate()
        .filter(|(_, it)| matches!(it, Item::Stmt { .. }))
        .map(|(k, _)| k)
        .collect();
    if stmt_positions.is_empty() {
        out.evals = 0;
        return out;
    }
    // choose placements: before first / after last / doubled / before .orig / random
    let mut inserts: Vec<usize> = Vec::new();
    match rng.below(5) {
        0 => {
            inserts.push(stmt_positions[0]);
            out.class("break_before_first");
        }
        1 => {
            inserts.push(*stmt_positions.last().unwrap() + 1);
            out.class("break_after_last");
        }
        2 => {
            let at = *rng.pick(&stmt_positions);
            inserts.push(at);
            inserts.push(at);
            out.class("break_doubled");
        }
        3 => {
            inserts.push(0); // possibly before `.orig`
            inserts.push(*rng.pick(&stmt_positions));
        }
        _ => {
            for _ in 0..1 + rng.below(3) {
                inserts.push(*rng.pick(&stmt_positions));
            }
        }
    }
    inserts.sort_unstable_by(|a, b| b.cmp(a));
    for at in inserts {
        let at = at.min(items.len());
        // never after `.end`
        let end = items.iter().position(|it| matches!(it, Item::End)).unwrap_or(items.len());
        // a `.break` may stand where a label's statement would: `done .break` (the usual way to name the
        // end of a program) marks the following word with both
        let labelled: Vec<usize> = items[..end].iter().enumerate().filter(|(_, x)| matches!(x, Item::Stmt { label: Some(_), .. })).map(|(k, _)| k).collect();
        let with_label = rng.chance(1, 3);
        // (half of the labelled `.break`s stand in front of a statement that has a label of its own: two names, one address)
        let at = if with_label && !labelled.is_empty() && rng.bool() {
            out.class("break_with_label_in_front_of_a_labelled_statement");
            *rng.pick(&labelled)
        } else {
            at
        };
        let it = if with_label {
            out.class(if at.min(end) == end || !items[at.min(end)..end].iter().any(|x| matches!(x, Item::Stmt { .. })) {
                "break_with_label_after_last"
            } else {
                "break_with_label"
            });
            Item::LabelBreak(format!("{}{}", rng.s(&["fin_", "Stop_", "zq_brk", "END_OF_IT"]), items.len()))
        } else {
            Item::Break
        };
        items.insert(at.min(end), it);
    }
    let program = Program { items };
    let img = match encode(&program) {
        Verdict::Accept(img) => img,
        _ => {
            out.evals = 0;
            return out;
        }
    };
    let lay = if rng.bool() { Layout::canonical() } else { Layout::random(&mut rng) };
    let text = render(&program, &lay, &mut rng).text;
    let mut cmds = Vec::new();
    // the names given to `.break`s are labels like any other: the breakpoint they sit on can be removed by name
    let named: Vec<(String, u16)> = img.labels.iter().filter(|(n, _)| ["fin_", "Stop_", "zq_brk", "END_OF_IT"].iter().any(|p| n.starts_with(p)))
        .map(|(n, idx)| (n.clone(), img.origin().wrapping_add(*idx as u16))).collect();
    if !named.is_empty() && rng.bool() {
        let (n, a) = rng.pick(&named).clone();
        if a >= img.origin() && a < 0xFE00 {
            cmds.push(Cmd::BreakRemoveLoc(Loc::Label(n.clone(), a, 0)));
            cmds.push(Cmd::BreakList);
            if rng.bool() {
                cmds.push(Cmd::BreakAddLoc(Loc::Label(n, a, 1)));
            }
            out.class("declared_breakpoint_removed_by_the_name_in_front_of_it");
        }
    }
    for _ in 0..rng.below(8) {
        cmds.push(match rng.below(6) {
            0 | 1 | 2 => Cmd::Continue,
            3 => Cmd::Step,
            4 => Cmd::StepInto(1 + rng.below(4) as u32),
            _ => Cmd::BreakList,
        });
    }
    session(&mut out, i, &text, stack, &cmds, seed ^ i, &built.input, &img.breaks, "placement");
    if let Some(why) = out.inconclusive.take() {
        if why.contains("not assembled (rejected)") {
            // the reference accepts this text (it was just encoded): a declared breakpoint in a file that is
            // not loaded pauses nothing
            out.violate(
                "C11/declared-breakpoint-not-loaded",
                i,
                "a source with this `.break` placement was refused, its declared breakpoints never pause anything".to_string(),
                J::obj(vec![("source", J::s(&text)), ("stack_feature", J::B(stack))]),
            );
        } else {
            out.inconclusive = Some(why);
        }
    }
    out
}

fn random_loc(rng: &mut Rng, img: &RefImage) -> Loc {
    let orig = img.origin();
    let n = img.words.len() as i32;
    match rng.below(4) {
        0 => Loc::Abs(orig.wrapping_add(rng.below(n as u64 + 1) as u16)),
        1 if !img.labels.is_empty() => {
            let (name, idx) = rng.pick(&img.labels).clone();
            // keep clear of names the command grammar reads as integers/registers
            // (... asking the reference grammar: `r2d2`, `R1_loop` are labels, `r1`, `b10`, `x1f` are not)
            if matches!(crate::refcmd::memory_location(&name), Ok(crate::refcmd::RLoc::Label(n, 0)) if n == name) {
                let off = match rng.below(3) {
                    0 => 0,
                    _ => rng.range(-3, 4) as i32,
                };
                Loc::Label(name, orig.wrapping_add(idx as u16), off)
            } else {
                Loc::Abs(orig.wrapping_add(idx as u16))
            }
        }
        2 => Loc::Pc(rng.range(-3, 5) as i32),
        _ => Loc::Abs(orig.wrapping_add(rng.below(n as u64 + 1) as u16)),
    }
}

fn random_case(seed: u64, i: u64) -> CaseOut {
    let mut out = CaseOut::new();
    let mut rng = Rng::for_case(seed, "C11r", i);
    let stack = rng.bool();
    let origin = if rng.bool() { Some(gen_origin(&mut rng).min(0xF000)) } else { None };
    let o = ProgOpts {
        stack,
        origin,
        breaks: rng.bool(),
        tame_endings: rng.chance(3, 4),
        ..Default::default()
    };
    let mut built = gen_structured(&mut rng, &o);
    let spaced = rng.chance(1, 8);
    if spaced {
        // a long straight program, breakpoints a power of two apart (32, 64, 128, 256 words), some of them
        // removed again before running: each one that is left still fires, each removed one does not
        let mut items: Vec<Item> = match o.origin { Some(v) => vec![Item::Orig(v)], None => vec![] };
        for k in 0..600 {
            items.push(Item::Stmt { label: None, stmt: if k % 7 == 3 { Stmt::Not(1, 1) } else { Stmt::AddI(0, 0, 1) } });
        }
        items.push(Item::Stmt { label: None, stmt: Stmt::Alias(0x25) });
        items.push(Item::End);
        built.program = Program { items };
        built.input.clear();
    }
    // a label that begins like a register and goes on (`r2d2`, `R1_loop`): a label, to `break add` and `break remove` too
    let mut reglike: Option<String> = None;
    if !spaced && rng.chance(1, 5) {
        let names: Vec<String> = built.program.items.iter().filter_map(|it| match it { Item::Stmt { label: Some(l), .. } => Some(l.clone()), _ => None }).collect();
        let new = *rng.pick(&["r2d2", "R1_loop", "r0_", "R7x", "r3a", "R0_SAVE"]);
        if let Some(old) = names.first() {
            if !names.iter().any(|n| n == new) {
                rename_label(&mut built.program, old, new);
                reglike = Some(new.to_string());
            }
        }
    }
    let wide = !spaced && reglike.is_none() && rng.chance(1, 12);
    let wide_origin = *rng.pick(&[0x1000u16, 0x0200, 0x3000, 0x7D00]);
    if wide {
        // a program of more than 32768 words: breakpoints given as far as an offset reaches (-32768 words from the
        // PC or from a label, the most negative value sixteen bits hold) name an address like any other
        let st = |label: Option<&str>, stmt: Stmt| Item::Stmt { label: label.map(|l| l.to_string()), stmt };
        built.program = Program { items: vec![
            Item::Orig(wide_origin as i32),
            st(Some("lp"), Stmt::AddI(0, 0, 1)),
            st(None, Stmt::AddI(2, 0, -3)),
            st(None, Stmt::Br(4, Target::Label("lp".into()))),
            st(None, Stmt::Alias(0x25)),
            st(None, Stmt::Blkw(0x8000 - 4)),
            st(Some("far"), Stmt::AddI(1, 1, 1)),
            st(None, Stmt::Alias(0x25)),
            Item::End,
        ] };
        built.input.clear();
    }
    let img = match encode(&built.program) {
        Verdict::Accept(img) => img,
        _ => {
            out.evals = 0;
            return out;
        }
    };
    let lay = if rng.bool() { Layout::canonical() } else { Layout::random(&mut rng) };
    let text = render(&built.program, &lay, &mut rng).text;
    let mut cmds = Vec::new();
    if let Some(name) = &reglike {
        if let Some((_, idx)) = img.labels.iter().find(|(n, _)| n == name) {
            let a = img.origin().wrapping_add(*idx as u16);
            cmds.push(Cmd::BreakAddLoc(Loc::Label(name.clone(), a, 0)));
            cmds.push(Cmd::BreakList);
            cmds.push(Cmd::Continue);
            if rng.bool() {
                cmds.push(Cmd::BreakRemoveLoc(Loc::Label(name.clone(), a, 0)));
                cmds.push(Cmd::BreakAddLoc(Loc::Label(name.clone(), a, 1)));
            }
            out.class("breakpoint_on_a_label_that_begins_like_a_register");
        }
    }
    if wide {
        let far = wide_origin.wrapping_add(0x8000);
        cmds.push(Cmd::GotoLoc(Loc::Label("far".into(), far, 0)));
        cmds.push(match rng.below(3) {
            0 => Cmd::BreakAddLoc(Loc::Pc(-0x8000)),
            1 => Cmd::BreakAddLoc(Loc::Label("far".into(), far, -0x8000)),
            _ => Cmd::BreakAddLoc(Loc::Label("far".into(), far, -0x7FFF)),
        });
        cmds.push(Cmd::BreakList);
        cmds.push(Cmd::GotoLoc(Loc::Abs(wide_origin.wrapping_add(2))));
        cmds.push(Cmd::Continue);
        cmds.push(Cmd::GotoLoc(Loc::Label("far".into(), far, 0)));
        cmds.push(if rng.bool() { Cmd::BreakRemoveLoc(Loc::Pc(-0x8000)) } else { Cmd::BreakRemoveLoc(Loc::Label("far".into(), far, -0x8000)) });
        cmds.push(Cmd::BreakList);
        cmds.push(Cmd::GotoLoc(Loc::Abs(wide_origin.wrapping_add(2))));
        cmds.push(Cmd::Continue);
        cmds.push(Cmd::Continue);
        out.class("breakpoint_32768_words_below_the_pc_or_a_label");
    }
    if spaced {
        let stride = *rng.pick(&[32u16, 64, 64, 128, 256]);
        let base = img.origin().wrapping_add(1 + rng.below(stride.min(40) as u64) as u16);
        let mut set: Vec<u16> = (0..(560 / stride).min(5) + 1).map(|j| base.wrapping_add(j * stride)).collect();
        set.push(base.wrapping_add(3));
        for k in (1..set.len()).rev() {
            let j = rng.below(k as u64 + 1) as usize;
            set.swap(k, j);
        }
        for a in &set {
            cmds.push(Cmd::BreakAdd(*a));
        }
        for a in set.iter().take(1 + rng.below(2) as usize) {
            cmds.push(Cmd::BreakRemove(*a));
        }
        for _ in 0..set.len() {
            cmds.push(Cmd::Continue);
        }
        out.class("breakpoints_a_power_of_two_apart");
    }
    if rng.chance(1, 10) {
        // many breakpoints, added in no particular order (with repeats), some removed again: the list
        // stays sorted and duplicate-free however long it gets, and every one of them still fires
        let n = 20 + rng.below(80);
        for _ in 0..n {
            cmds.push(match rng.below(8) {
                0 => Cmd::BreakRemoveLoc(random_loc(&mut rng, &img)),
                1 => Cmd::BreakList,
                _ => Cmd::BreakAdd(img.origin().wrapping_add(rng.below(img.words.len() as u64 + 1) as u16)),
            });
        }
        out.class("many_breakpoints");
    }
    for _ in 0..rng.below(12) {
        cmds.push(match rng.below(10) {
            0 | 1 => Cmd::Continue,
            2 => Cmd::Step,
            3 => Cmd::StepInto(*rng.pick(&[1u32, 1, 2, 3, 10])),
            4 => Cmd::StepOut,
            5 | 6 | 7 => Cmd::BreakAddLoc(random_loc(&mut rng, &img)),
            8 => Cmd::BreakRemoveLoc(random_loc(&mut rng, &img)),
            _ => Cmd::BreakList,
        });
    }
    // the instruction under a breakpoint is patched with `move`: the breakpoint marks the address, whatever it holds
    if rng.chance(1, 4) {
        let adds: Vec<(usize, u16)> = cmds.iter().enumerate().filter_map(|(k, c)| match c { Cmd::BreakAdd(a) => Some((k, *a)), _ => None }).collect();
        let target = if let Some((k, a)) = adds.first() { Some((*k + 1, *a)) } else { img.breaks.first().map(|b| (0usize, img.origin().wrapping_add(*b))) };
        if let Some((at, a)) = target {
            if a >= img.origin() && a < 0xFE00 {
                cmds.insert(at, Cmd::MoveMem(a, *rng.pick(&[0x1021u16, 0x5020, 0x1DA1, 0x927F])));
                cmds.insert(at + 1, Cmd::BreakList);
                out.class("word_under_a_breakpoint_patched");
            }
        }
    }
    // an `eval` that moves the PC, then a breakpoint given relative to the PC: `^k` means the PC as it is now
    let near: Vec<(String, usize)> = img.labels.iter().filter(|(_, idx)| *idx < 200).cloned().collect();
    if !near.is_empty() && rng.chance(1, 3) {
        let (name, idx) = rng.pick(&near).clone();
        let at = rng.below(cmds.len() as u64 + 1) as usize;
        let k = rng.range(0, 4) as i32;
        let _ = name;
        let r = rng.below(7) as u8;
        cmds.insert(at, Cmd::MoveReg(r, img.origin().wrapping_add(idx as u16)));
        cmds.insert(at + 1, Cmd::EvalJmp(r));
        cmds.insert(at + 2, if rng.chance(1, 4) { Cmd::BreakRemoveLoc(Loc::Pc(k)) } else { Cmd::BreakAddLoc(Loc::Pc(k)) });
        if rng.bool() {
            cmds.insert(at + 3, Cmd::Continue);
        }
        out.class("pc_relative_breakpoint_after_eval_moved_the_pc");
    }
    session(&mut out, i, &text, stack, &cmds, seed ^ i, &built.input, &img.breaks, "random");
    out
}
