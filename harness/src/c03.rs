//! C03 — running an image follows the machine model from load to stop.
//!
//! Monitor: fetch trace, captured output, consumed input, stop reason, load-time and final state of
//! the real `RunEnvironment` against the reference run model under the same fuel.

use crate::exec::{build_env, final_state, load_raw, run_env, Abort, RunCfg};
use crate::progs::*;
use crate::refasm::*;
use crate::refvm::{RefVm, Stop};
use crate::util::{hash_words, CaseOut, Collector, Rng, J};
use crate::Cfg;

pub const FLOORS: &[&str] = &[
    "stop:halt", "stop:end_ffff", "stop:exc_low", "stop:exc_high", "stop:exit_238", "stop:exit_1",
    "stop:fuel", "why:unknown_trap", "why:stack_off", "why:input_eof", "out:puts", "out:putsp",
    "out:out", "out:putn", "out:reg", "in:getc", "in:in", "orig:lt3000", "orig:3000", "orig:mid",
    "orig:ge8000", "feature:ends_at_top_of_user_memory", "path:try_from", "path:from_raw", "feature:loop", "feature:self_modify",
    "feature:recursion", "feature:nested_call", "ending:FallOff", "nonascii_input", "feature:empty_image",
    "raw:empty_image", "directed_raw_image",
];

pub const FUEL: u64 = 5000;

pub struct RealRun {
    pub end: Result<(), Abort>,
    pub trace: Vec<(u16, u16)>,
    pub out: String,
    pub input_taken: u64,
    pub reg: [u16; 8],
    pub pc: u16,
    pub cc: u8,
    pub mem_hash: u64,
}

/// Compare a finished real run against the reference model; tries the admissible ISA variants.
/// Returns `Ok(stop)` when some variant matches, `Err((aspect, text))` otherwise,
/// `Ok(Stop::Discard)` when the reference meets something outside the claim.
pub fn compare_run(
    raw: &[u16],
    stack: bool,
    input: &[u8],
    fuel: u64,
    real: &RealRun,
) -> Result<(Stop, u32), (String, String)> {
    let mut vmask = 0u32;
    let mut touched = 0u32;
    let mut first: Option<(String, String)> = None;
    let mut tried = 0;
    loop {
        let Some(mut vm) = RefVm::load(raw, stack) else {
            return Err(("load".into(), "reference loader rejects this image".into()));
        };
        vm.variant = vmask;
        vm.input = input.iter().copied().collect();
        let mut trace = Vec::new();
        let stop = vm.run(fuel, Some(&mut trace));
        if tried == 0 {
            touched = vm.touched;
        }
        tried += 1;
        if let Stop::Discard(_) = stop {
            return Ok((stop, vmask));
        }
        match diff(&vm, &stop, &trace, real, fuel) {
            None => return Ok((stop, vmask)),
            Some(d) => {
                if first.is_none() {
                    first = Some(d);
                }
            }
        }
        let next = vmask.wrapping_sub(touched) & touched;
        if touched == 0 || next == 0 {
            break;
        }
        vmask = next;
    }
    Err(first.unwrap())
}

fn diff(
    vm: &RefVm,
    stop: &Stop,
    trace: &[(u16, u16)],
    real: &RealRun,
    fuel: u64,
) -> Option<(String, String)> {
    // fetch trace (prefix up to the fuel)
    let n = trace.len().min(real.trace.len());
    for i in 0..n {
        if trace[i] != real.trace[i] {
            return Some((
                "trace".into(),
                format!(
                    "fetch #{}: real fetched x{:04X} at x{:04X}, reference x{:04X} at x{:04X}",
                    i, real.trace[i].1, real.trace[i].0, trace[i].1, trace[i].0
                ),
            ));
        }
    }
    if *stop == Stop::Fuel {
        return match &real.end {
            Err(Abort::Fuel) if real.trace.len() >= trace.len() => None,
            other => Some((
                "stop".into(),
                format!(
                    "reference still running after {} instructions, real run ended with {:?} after {} fetches",
                    fuel,
                    other.as_ref().err().map(|a| a.short()).unwrap_or("return".into()),
                    real.trace.len()
                ),
            )),
        };
    }
    if trace.len() != real.trace.len() {
        return Some((
            "trace".into(),
            format!(
                "real run fetched {} instructions, reference {} (reference stop: {})",
                real.trace.len(),
                trace.len(),
                stop.name()
            ),
        ));
    }
    // stop reason / exit status
    let want_end: Result<(), i32> = match stop {
        Stop::Halt | Stop::EndFfff => Ok(()),
        Stop::ExcLow | Stop::ExcHigh => Err(0xEE),
        Stop::Exit(c) => Err(*c),
        _ => Ok(()),
    };
    match (&want_end, &real.end) {
        (Ok(()), Ok(())) => {}
        (Err(c), Err(Abort::Exit(r))) if c == r => {}
        (w, r) => {
            return Some((
                "stop".into(),
                format!(
                    "real run ended with {}, reference stop is {} ({})",
                    match r {
                        Ok(()) => "normal return".to_string(),
                        Err(a) => a.short(),
                    },
                    stop.name(),
                    match w {
                        Ok(()) => "normal end, exit 0".to_string(),
                        Err(c) => format!("exit status {}", c),
                    }
                ),
            ))
        }
    }
    if real.out != vm.out {
        return Some((
            "out".into(),
            format!("program output {:?}, reference {:?}", clip(&real.out), clip(&vm.out)),
        ));
    }
    if real.input_taken != vm.input_taken {
        return Some((
            "input".into(),
            format!("consumed {} input bytes, reference {}", real.input_taken, vm.input_taken),
        ));
    }
    for i in 0..8 {
        if real.reg[i] != vm.reg[i] {
            return Some((
                "reg".into(),
                format!("final R{} = x{:04X}, reference x{:04X}", i, real.reg[i], vm.reg[i]),
            ));
        }
    }
    if real.cc != vm.cc {
        return Some(("cc".into(), format!("final CC {:03b}, reference {:03b}", real.cc, vm.cc)));
    }
    // final PC: pinned only where the property pins it (exceptions leave PC at the offending address)
    let pc_matters = !matches!(stop, Stop::Halt);
    if pc_matters && real.pc != vm.pc {
        return Some(("pc".into(), format!("final PC x{:04X}, reference x{:04X}", real.pc, vm.pc)));
    }
    if real.mem_hash != hash_words(&vm.mem[..]) {
        return Some(("mem".into(), "final memory differs from the reference".into()));
    }
    None
}

fn clip(s: &str) -> String {
    s.chars().take(200).collect()
}

pub fn run(cfg: &Cfg, col: &mut Collector) {
    let n_struct = cfg.n(2500, 60_000, 10);
    let n_raw = cfg.n(2500, 60_000, 10);
    let seed = cfg.seed;
    crate::util::run_cases(n_struct + n_raw, cfg.only_case, cfg.threads, col, move |i| {
        if i < n_struct {
            structured_case(seed, i)
        } else {
            raw_case(seed, i)
        }
    });
    col.extra.push(("structured_programs".into(), J::I(n_struct as i64)));
    col.extra.push(("raw_images".into(), J::I(n_raw as i64)));
    col.extra.push(("fuel".into(), J::I(FUEL as i64)));
}

fn load_checks(out: &mut CaseOut, env: &lace::RunEnvironment, raw: &[u16], stack: bool, case: u64, path: &str) -> bool {
    let Some(vm) = RefVm::load(raw, stack) else {
        out.violate(
            format!("C03/load/{}/accepted-unloadable", path),
            case,
            "loader accepted an image the model cannot place",
            J::obj(vec![("origin", J::s(format!("x{:04X}", raw[0]))), ("words", J::I(raw.len() as i64 - 1))]),
        );
        return false;
    };
    let v = env.verif_view();
    let mut why = None;
    if *v.reg != vm.reg {
        why = Some(format!("registers {:04X?}, model {:04X?}", v.reg, vm.reg));
    } else if v.pc != vm.pc {
        why = Some(format!("PC x{:04X}, model x{:04X}", v.pc, vm.pc));
    } else if v.cc != vm.cc {
        why = Some(format!("CC {:03b}, model none", v.cc));
    } else if v.orig != vm.orig {
        why = Some(format!("origin x{:04X}, model x{:04X}", v.orig, vm.orig));
    } else if v.mem[..] != vm.mem[..] {
        let a = (0..0x10000).find(|&a| v.mem[a] != vm.mem[a]).unwrap();
        why = Some(format!(
            "mem[x{:04X}] = x{:04X}, model x{:04X} (image x{:04X}+{} words, then HALT)",
            a,
            v.mem[a],
            vm.mem[a],
            raw[0],
            raw.len() - 1
        ));
    }
    if let Some(w) = why {
        out.violate(
            format!("C03/load/{}", path),
            case,
            format!("load-time state differs: {}", w),
            J::obj(vec![("image", J::words(&raw[..raw.len().min(40)]))]),
        );
        return false;
    }
    true
}

pub(crate) fn observe(env: &mut lace::RunEnvironment, input: &[u8], fuel: u64) -> RealRun {
    let obs = run_env(
        env,
        RunCfg {
            fuel: Some(fuel + 1),
            input: input.to_vec(),
            keep_trace: true,
            on_prompt: None,
        },
    );
    let fs = final_state(env);
    RealRun {
        end: obs.end,
        trace: obs.trace,
        out: obs.out_normal,
        input_taken: obs.input_taken,
        reg: fs.reg,
        pc: fs.pc,
        cc: fs.cc,
        mem_hash: fs.mem_hash,
    }
}

fn classify(out: &mut CaseOut, stop: &Stop, real: &RealRun, input: &[u8]) {
    out.class(format!("stop:{}", stop.name()));
    if let Some((_, w)) = real.trace.last() {
        match stop {
            Stop::Exit(0xEE) => out.class("why:unknown_trap"),
            Stop::Exit(1) if w >> 12 == 0xD => out.class("why:stack_off"),
            Stop::Exit(1) => out.class("why:input_eof"),
            _ => {}
        }
    }
    for (_, w) in &real.trace {
        match *w {
            0xF020 => out.class("in:getc"),
            0xF021 => out.class("out:out"),
            0xF022 => out.class("out:puts"),
            0xF023 => out.class("in:in"),
            0xF024 => out.class("out:putsp"),
            0xF026 => out.class("out:putn"),
            0xF027 => out.class("out:reg"),
            _ => {}
        }
    }
    if real.input_taken > 0 && input.iter().take(real.input_taken as usize).any(|b| *b >= 0x80) {
        out.class("nonascii_input");
    }
}

fn structured_case(seed: u64, i: u64) -> CaseOut {
    let mut out = CaseOut::new();
    let mut rng = Rng::for_case(seed, "C03s", i);
    let stack = rng.bool();
    let origin = if rng.chance(2, 3) { Some(gen_origin(&mut rng).min(0xFC00)) } else { None };
    let o = ProgOpts {
        stack,
        origin,
        breaks: rng.chance(1, 5),
        ..Default::default()
    };
    let mut built = gen_structured(&mut rng, &o);
    if i % 23 == 7 {
        // a source whose last word sits at xFDFD..xFE02: the implicit HALT is at or beyond the end of user
        // memory (never fetched if the program stops before), data beyond xFE00 is plain memory
        let last = 0xFDFDu16 + ((i / 23) % 6) as u16;
        let kind = (i / 23 / 6) % 3;
        let ch = b'A' + (i % 26) as u8;
        let mut items = Vec::new();
        let st = |label: Option<&str>, stmt: Stmt| Item::Stmt { label: label.map(|l| l.to_string()), stmt };
        let ld = || st(None, Stmt::Ld(0, Target::Label("ch".into())));
        let body: Vec<Item> = match kind {
            // LD R0,ch; OUT; HALT; ch
            0 => vec![ld(), st(None, Stmt::Alias(0x21)), st(None, Stmt::Alias(0x25)), st(Some("ch"), Stmt::Fill(ch as i32))],
            // runs off its end: LD R0,ch; OUT; ch (the data word executes as an instruction, then on)
            1 => vec![ld(), st(None, Stmt::Alias(0x21)), st(Some("ch"), Stmt::Fill(ch as i32))],
            // with trailing data
            _ => vec![
                ld(),
                st(None, Stmt::Alias(0x21)),
                st(None, Stmt::Alias(0x25)),
                st(Some("ch"), Stmt::Fill(ch as i32)),
                st(None, Stmt::Fill(7)),
                st(None, Stmt::Fill(9)),
            ],
        };
        let origin = last.wrapping_sub(body.len() as u16 - 1);
        items.push(Item::Orig(origin as i32));
        items.extend(body);
        items.push(Item::End);
        built.program = Program { items };
        built.input.clear();
        built.features.clear();
        built.features.push("ends_at_top_of_user_memory");
    }
    if i % 97 == 5 {
        // a source without any statement: the image is just the implicit HALT
        built.program = Program { items: match o.origin { Some(v) => vec![Item::Orig(v), Item::End], None => vec![Item::End] } };
        built.input.clear();
        built.features.clear();
        built.features.push("empty_image");
    }
    let img = match encode(&built.program) {
        Verdict::Accept(img) => img,
        other => {
            out.class(format!("generator_rejected:{}", matches!(other, Verdict::Reject(_))));
            out.evals = 0;
            return out;
        }
    };
    let lay = if rng.bool() { Layout::canonical() } else { Layout::random(&mut rng) };
    let text = render(&built.program, &lay, &mut rng).text;
    let (mut env, image) = match build_env(&text, stack, None) {
        Ok(x) => x,
        Err(crate::exec::AsmOutcome::Rejected(d)) if d.stage == "load" => {
            // the text assembles (it just did, and the reference encodes it) but no machine was built from it
            out.class("path:try_from");
            out.violate(
                "C03/load/try_from/refused",
                i,
                format!("loader refused an assembled source (origin x{:04X}, {} words): {}", img.origin(), img.words.len(), d.message),
                J::obj(vec![("source", J::s(&text))]),
            );
            return out;
        }
        Err(o) => {
            // acceptance is C04's business; here it only means nothing was observed
            out.inconclusive = Some(format!("structured program not assembled ({})", o.class()));
            return out;
        }
    };
    let raw = image.raw();
    if raw != img.raw() {
        out.inconclusive = Some("image differs from the reference encoding (see C01)".into());
        return out;
    }
    out.class("path:try_from");
    out.class(crate::c01::origin_class(Some(raw[0])));
    for f in &built.features {
        out.class(format!("feature:{}", f));
    }
    out.class(format!("ending:{:?}", built.ending));
    if !load_checks(&mut out, &env, &raw, stack, i, "try_from") {
        return out;
    }
    let real = observe(&mut env, &built.input, FUEL);
    finish(&mut out, &raw, stack, &built.input, &real, i, Some(&text));
    out
}

fn raw_case(seed: u64, i: u64) -> CaseOut {
    let mut out = CaseOut::new();
    let mut rng = Rng::for_case(seed, "C03r", i);
    let stack = rng.bool();
    crate::exec::init_features(stack);
    lace::set_minimal(true);
    let raw = if i % 7 == 3 {
        out.class("directed_raw_image");
        crate::progs::directed_raw_image(i / 7)
    } else {
        gen_raw_image(&mut rng)
    };
    let mut input = Vec::new();
    for _ in 0..rng.below(4) {
        input.push(match rng.below(6) {
            0 => 0x80 + rng.below(0x80) as u8,
            1 => rng.below(0x21) as u8,
            _ => 0x20 + rng.below(0x5F) as u8,
        });
    }
    let mut env = match load_raw(&raw) {
        Ok(env) => env,
        Err(a) => {
            out.violate(
                "C03/load/from_raw/refused",
                i,
                format!("loader refused a loadable image: {}", a.short()),
                J::obj(vec![("image", J::words(&raw[..raw.len().min(40)]))]),
            );
            return out;
        }
    };
    out.class("path:from_raw");
    if raw.len() == 1 {
        out.class("raw:empty_image");
    }
    out.class(crate::c01::origin_class(Some(raw[0])));
    if !load_checks(&mut out, &env, &raw, stack, i, "from_raw") {
        return out;
    }
    let real = observe(&mut env, &input, FUEL);
    finish(&mut out, &raw, stack, &input, &real, i, None);
    out
}

fn finish(out: &mut CaseOut, raw: &[u16], stack: bool, input: &[u8], real: &RealRun, case: u64, text: Option<&str>) {
    out.nontrivial = if real.trace.len() >= 2 {
        Some(hash_words(raw) ^ crate::util::hash_bytes(input))
    } else {
        None
    };
    match compare_run(raw, stack, input, FUEL, real) {
        Ok((Stop::Discard(why), _)) => {
            out.class("discarded");
            out.class(format!("discarded:{}", why));
        }
        Ok((stop, vmask)) => {
            classify(out, &stop, real, input);
            if vmask != 0 {
                out.class(format!("variant_accepted:{:#x}", vmask));
            }
            if case % 401 == 0 {
                out.sample = Some(J::obj(vec![
                    ("source", text.map(J::s).unwrap_or(J::Null)),
                    ("image", J::words(&raw[..raw.len().min(24)])),
                    ("input", J::A(input.iter().map(|b| J::I(*b as i64)).collect())),
                    ("stop", J::s(stop.name())),
                    ("instructions", J::I(real.trace.len() as i64)),
                    ("output", J::s(clip(&real.out))),
                ]));
            }
        }
        Err((aspect, what)) => {
            let last = real
                .trace
                .last()
                .map(|(pc, w)| format!("x{:04X}@x{:04X}", w, pc))
                .unwrap_or_default();
            let key = match &real.end {
                Err(a @ Abort::Panic { .. }) => format!("C03/panic/{}", a.panic_file()),
                _ => format!("C03/{}", aspect),
            };
            out.violate(
                key,
                case,
                what,
                J::obj(vec![
                    ("source", text.map(J::s).unwrap_or(J::Null)),
                    ("image", J::words(&raw[..raw.len().min(60)])),
                    ("stack_feature", J::B(stack)),
                    ("input", J::A(input.iter().map(|b| J::I(*b as i64)).collect())),
                    ("last_fetch", J::s(last)),
                    (
                        "real_end",
                        J::s(match &real.end {
                            Ok(()) => "returned".to_string(),
                            Err(a) => a.short(),
                        }),
                    ),
                ]),
            );
        }
    }
}
