//! Corpora for the black-box (CLI) layers: generated sources together with what the reference
//! models say about them. Written as one JSON document; the driver feeds the unmodified `lace`
//! binary with them.

use crate::c01::geometry_program;
use crate::progs::{gen_structured, ProgOpts};
use crate::refasm::*;
use crate::refvm::{RefVm, Stop};
use crate::util::{Collector, Rng, J};
use crate::Cfg;

fn ref_run(raw: &[u16], stack: bool, input: &[u8], fuel: u64) -> Option<(Stop, String, u64)> {
    // the admissible-variant search is done in-process by C03; here only programs whose result does
    // not depend on any open point are kept
    let mut vm = RefVm::load(raw, stack)?;
    vm.input = input.iter().copied().collect();
    let stop = vm.run(fuel, None);
    let open = crate::refvm::variant::NONASCII_RAW | crate::refvm::variant::JSRR_TEMP | crate::refvm::variant::PUSH_R7_AFTER | crate::refvm::variant::POP_R7_PLUS;
    if vm.touched & open != 0 {
        return None;
    }
    Some((stop, vm.out.clone(), vm.input_taken))
}

fn stop_json(stop: &Stop) -> J {
    let (exit, halted, returned) = match stop {
        Stop::Halt => (0, true, true),
        Stop::EndFfff => (0, false, true),
        Stop::ExcLow | Stop::ExcHigh => (0xEE, false, false),
        Stop::Exit(c) => (*c, false, false),
        _ => (-1, false, false),
    };
    J::obj(vec![
        ("stop", J::s(stop.name())),
        ("exit", J::I(exit as i64)),
        ("halted", J::B(halted)),
        ("returned", J::B(returned)),
    ])
}

pub fn run(cfg: &Cfg, col: &mut Collector) {
    let mut rng = Rng::for_case(cfg.seed, "corpus", 0);
    let n = cfg.n(150, 3000, 5);
    // ---- structured programs with reference run results
    let mut structured = Vec::new();
    let mut tries = 0;
    while (structured.len() as u64) < n && tries < n * 20 {
        tries += 1;
        let stack = rng.bool();
        let origin = if rng.chance(2, 3) { Some(gen_origin(&mut rng).min(0xFC00)) } else { None };
        let o = ProgOpts {
            stack,
            origin,
            breaks: rng.chance(1, 4),
            ..Default::default()
        };
        let built = gen_structured(&mut rng, &o);
        let Verdict::Accept(img) = encode(&built.program) else { continue };
        let lay = if rng.bool() { Layout::canonical() } else { Layout::random(&mut rng) };
        let text = render(&built.program, &lay, &mut rng).text;
        let raw = img.raw();
        let Some((stop, out, taken)) = ref_run(&raw, stack, &built.input, 20_000) else { continue };
        if matches!(stop, Stop::Fuel | Stop::Discard(_)) {
            continue;
        }
        // ESC in minimal-mode output is an open point (CLI strips ESC..m)
        if out.contains('\u{1b}') {
            continue;
        }
        structured.push(J::obj(vec![
            ("source", J::s(&text)),
            ("stack", J::B(stack)),
            ("input", J::A(built.input.iter().map(|b| J::I(*b as i64)).collect())),
            ("image", J::A(raw.iter().map(|w| J::I(*w as i64)).collect())),
            ("uses_stack_ext", J::B(uses_stack_ext(&built.program))),
            ("features", J::A(built.features.iter().map(|f| J::s(*f)).collect())),
            ("ending", J::s(format!("{:?}", built.ending))),
            ("output", J::s(&out)),
            ("input_taken", J::I(taken as i64)),
            ("ref", stop_json(&stop)),
            ("has_break", J::B(!img.breaks.is_empty())),
            ("labels", J::A(img.labels.iter().map(|(n, i)| J::A(vec![J::s(n), J::I(*i as i64)])).collect())),
        ]));
    }
    // ---- sources whose only error surfaces when words are emitted: a label reference out of
    // range placed at statement position k of n (C07, C08)
    let mut emit_fail = Vec::new();
    let sizes: Vec<usize> = if cfg.thorough() { (1..=12).chain([40]).collect() } else { (1..=6).collect() };
    let mut round = 0usize;
    for n_stmts in sizes {
        for k in 0..n_stmts {
            // every PC-relative form in turn (BR, LD, LDI, LEA, ST, STI, JSR, CALL)
            let form = round % 8;
            round += 1;
            let bits = match form {
                6 => 11,
                7 => 10,
                _ => 9,
            };
            let half = 1i32 << (bits - 1);
            // statements before and after the failing one are plain and valid
            let d = if rng.bool() { half + rng.below(3) as i32 } else { -half - 1 - rng.below(3) as i32 };
            let g = geometry_program(form, d, &mut rng);
            // split g into: the referencing statement and the rest (padding + target)
            let mut items: Vec<Item> = Vec::new();
            let orig: Vec<Item> = g.items.iter().filter(|i| matches!(i, Item::Orig(_))).cloned().collect();
            items.extend(orig);
            let refstmt = g
                .items
                .iter()
                .find(|i| matches!(i, Item::Stmt { stmt, .. } if stmt.pcrel_bits().is_some()))
                .cloned()
                .unwrap();
            for j in 0..n_stmts {
                if j == k {
                    items.push(match &refstmt {
                        Item::Stmt { stmt, .. } => Item::Stmt { label: None, stmt: stmt.clone() },
                        other => other.clone(),
                    });
                } else {
                    items.push(Item::Stmt { label: None, stmt: Stmt::AddI((j % 8) as u8, 0, (j % 16) as i32) });
                }
            }
            // target far away (after or before, depending on the sign of d)
            let pad = Item::Stmt { label: None, stmt: Stmt::Blkw((half + 8) as i32) };
            let target = Item::Stmt { label: Some("target".into()), stmt: Stmt::Alias(0x25) };
            let first_stmt = items.iter().position(|i| matches!(i, Item::Stmt { .. })).unwrap_or(0);
            if d >= 0 {
                items.push(pad);
                items.push(target);
            } else {
                items.insert(first_stmt, pad);
                items.insert(first_stmt, target);
            }
            let p = Program { items };
            let Verdict::Reject(why) = encode(&p) else { continue };
            if !why.contains("words away") {
                continue;
            }
            let text = render(&p, &Layout::canonical(), &mut rng).text;
            let failing_index = if d >= 0 { k } else { k + (half as usize + 8) + 1 };
            emit_fail.push(J::obj(vec![
                ("source", J::s(&text)),
                ("stack", J::B(form == 7)),
                ("statements", J::I(n_stmts as i64)),
                ("fail_position", J::I(k as i64)),
                ("failing_word_index", J::I(failing_index as i64)),
                ("reason", J::s(&why)),
                ("form", J::s(match &refstmt { Item::Stmt { stmt, .. } => stmt.form(), _ => "?" })),
            ]));
        }
    }
    // ---- the smallest programs that fail while emitting: the reference is exactly one word beyond
    // its field, and nothing else is in the program
    for form in 0..8usize {
        let bits = match form {
            6 => 11,
            7 => 10,
            _ => 9,
        };
        let half = 1i32 << (bits - 1);
        for d in [half, -half - 1] {
            let mut r2 = Rng::for_case(cfg.seed, "tight", (form as u64) * 2 + (d > 0) as u64);
            let mut g = geometry_program(form, d, &mut r2);
            // drop the optional prefix statements / origin: keep it minimal
            g.items.retain(|i| !matches!(i, Item::Orig(_)));
            while matches!(g.items.first(), Some(Item::Stmt { stmt: Stmt::AddR(0, 0, 0), label: None })) {
                g.items.remove(0);
            }
            // padding as one directive
            let pad_words: usize = g.items.iter().map(|i| match i { Item::Stmt { stmt, label: None } if !stmt.pcrel_bits().is_some() && !matches!(stmt, Stmt::Alias(_)) => stmt.words(), _ => 0 }).sum();
            let mut items: Vec<Item> = Vec::new();
            let mut padded = false;
            for it in g.items {
                match &it {
                    Item::Stmt { stmt, label: None } if !stmt.pcrel_bits().is_some() && !matches!(stmt, Stmt::Alias(_)) => {
                        if !padded {
                            items.push(Item::Stmt { label: None, stmt: Stmt::Blkw(pad_words as i32) });
                            padded = true;
                        }
                    }
                    _ => items.push(it),
                }
            }
            let p = Program { items };
            let Verdict::Reject(why) = encode(&p) else { continue };
            let total: usize = p.items.iter().map(|i| match i { Item::Stmt { stmt, .. } => stmt.words(), _ => 0 }).sum();
            let text = render(&p, &Layout::canonical(), &mut r2).text;
            emit_fail.push(J::obj(vec![
                ("source", J::s(&text)),
                ("stack", J::B(form == 7)),
                ("statements", J::I(total as i64)),
                ("fail_position", J::I(if d > 0 { 0 } else { total as i64 - 1 })),
                ("failing_word_index", J::I(if d > 0 { 0 } else { total as i64 - 1 })),
                ("reason", J::s(&why)),
                ("form", J::s(format!("{}_tight", ["BR", "LD", "LDI", "LEA", "ST", "STI", "JSR", "CALL"][form]))),
            ]));
        }
    }
    // ---- valid programs whose image ends at / just beyond the top of memory (the assembler does
    // not care where an image ends; the loader does)
    let mut top = Vec::new();
    for (orig, n) in [(0xFFFEu32, 1usize), (0xFFFE, 2), (0xFFFE, 3), (0xFFFD, 2), (0xFFFF, 1), (0xFFFF, 3), (0xFFF0, 15), (0xFFF0, 16), (0xFFF0, 17), (0xFE00, 2)] {
        let mut items = vec![Item::Orig(orig as i32)];
        for k in 0..n {
            items.push(Item::Stmt { label: None, stmt: if k + 1 == n { Stmt::Alias(0x25) } else { Stmt::AddI((k % 8) as u8, 0, (k % 16) as i32) } });
        }
        let p = Program { items };
        let Verdict::Accept(img) = encode(&p) else { continue };
        let text = render(&p, &Layout::canonical(), &mut rng).text;
        top.push(J::obj(vec![
            ("source", J::s(&text)),
            ("stack", J::B(false)),
            ("image", J::A(img.raw().iter().map(|w| J::I(*w as i64)).collect())),
            ("end", J::I((orig as usize + n) as i64)),
        ]));
    }
    col.extra.push(("top_of_memory".into(), J::A(top)));
    // ---- programs accepted / rejected for operand reasons (C07 agreement, C18 gate)
    let mut mixed = Vec::new();
    for _ in 0..cfg.n(80, 1500, 4) {
        let stack_prog = rng.bool();
        let o = GenOpts {
            stack: stack_prog,
            max_stmts: 14,
            min_stmts: 2,
            ..Default::default()
        };
        let mut p = gen_program(&mut rng, &o);
        let mut tag = "valid";
        if rng.chance(1, 3) {
            // inject an out-of-range immediate
            for it in p.items.iter_mut() {
                if let Item::Stmt { stmt: Stmt::AddI(_, _, v), .. } | Item::Stmt { stmt: Stmt::AndI(_, _, v), .. } = it {
                    *v = 16 + rng.below(100) as i32;
                    tag = "bad_operand";
                    break;
                }
            }
        }
        let verdict = encode(&p);
        let text = render(&p, &Layout::random(&mut rng), &mut rng).text;
        let (v, img) = match &verdict {
            Verdict::Accept(i) => ("accept", Some(i.raw())),
            Verdict::Either(i) => ("either", Some(i.raw())),
            Verdict::Reject(_) => ("reject", None),
        };
        mixed.push(J::obj(vec![
            ("source", J::s(&text)),
            ("uses_stack_ext", J::B(uses_stack_ext(&p))),
            ("verdict", J::s(v)),
            ("tag", J::s(tag)),
            ("image", img.map(|r| J::A(r.iter().map(|w| J::I(*w as i64)).collect())).unwrap_or(J::Null)),
        ]));
    }
    // ---- programs with the source text of the statement behind every word (C17 at the CLI)
    let mut listing = Vec::new();
    let mut tries = 0;
    while (listing.len() as u64) < cfg.n(24, 400, 2) && tries < 2000 {
        tries += 1;
        let stack = rng.bool();
        let origin = match rng.below(4) {
            0 => None,
            1 => Some(0x8000 + rng.below(0x7000) as i32),
            _ => Some(gen_origin(&mut rng).clamp(2, 0xF800)),
        };
        let o = GenOpts { stack, max_stmts: 16, min_stmts: 3, origin, breaks: false, ..Default::default() };
        let mut p = gen_program(&mut rng, &o);
        if origin.is_none() {
            p.items.retain(|it| !matches!(it, Item::Orig(_)));
        }
        let Verdict::Accept(img) = encode(&p) else { continue };
        if img.words.is_empty() || img.words.len() > 40 || img.origin() as usize + img.words.len() > 0xFDF0 {
            continue;
        }
        // (a HALT as first word makes the debugger announce it before the first command: the
        // expected transcript below has no room for that line)
        if img.words[0] & 0xF0FF == 0xF025 {
            continue;
        }
        let rendered = render(&p, &Layout::random(&mut rng), &mut rng);
        let texts: Vec<J> = (0..img.words.len())
            .map(|k| {
                let (s0, l) = rendered.stmt_spans[img.item_of_word[k]].expect("statement span");
                J::s(&rendered.text[s0..s0 + l])
            })
            .collect();
        listing.push(J::obj(vec![
            ("source", J::s(&rendered.text)),
            ("stack", J::B(stack)),
            ("origin", J::I(img.origin() as i64)),
            ("texts", J::A(texts)),
        ]));
    }
    col.extra.push(("listing".into(), J::A(listing)));
    // ---- fuzz inputs for the totality property (C05): same generator as the in-process monitor
    let mut fuzz = Vec::new();
    for i in 0..cfg.n(260, 2000, 4) {
        let mut r = Rng::for_case(cfg.seed, "C05", i);
        let (text, _) = crate::c05::gen_text(&mut r, i);
        fuzz.push(J::s(text));
    }
    col.extra.push(("fuzz".into(), J::A(fuzz)));
    col.evaluations = (structured.len() + emit_fail.len() + mixed.len()) as u64;
    col.extra.push(("structured".into(), J::A(structured)));
    col.extra.push(("emit_fail".into(), J::A(emit_fail)));
    col.extra.push(("mixed".into(), J::A(mixed)));
}
