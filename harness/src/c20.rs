//! C20 — the interactive line editor keeps its cursor inside the line.
//!
//! Monitor: the real `Terminal` (constructed without TTY / history file through the `verif`
//! hook) is fed key sequences from a queue; after *every* key its line, cursor and history focus
//! are compared with a plain reference editor; submitted lines and their `;` splitting too.
//! Panics (bounds asserts, slicing inside a UTF-8 sequence) are caught and located.

use std::cell::RefCell;
use std::collections::VecDeque;
use std::rc::Rc;

use lace::verif::{self, Editor, Key, Monitor};

use crate::exec::{guard, Abort};
use crate::util::{hash_bytes, CaseOut, Collector, Rng, J};
use crate::Cfg;

pub const FLOORS: &[&str] = &[
    "key:char", "key:multibyte2", "key:multibyte4", "key:backspace", "key:delete", "key:left",
    "key:right", "key:ctrl_left", "key:ctrl_right", "key:up", "key:down", "key:enter",
    "ctrl_right_with_multibyte_on_line", "edit_of_history_line", "submitted", "submitted_multi_command",
    "blank_enter", "history:empty", "history:two_entries", "random_long", "long_history", "long_line", "deep_history_walk",
];

#[derive(Clone, Copy, Debug, PartialEq)]
pub enum K {
    Ch(char),
    Backspace,
    Delete,
    Left,
    Right,
    CtrlLeft,
    CtrlRight,
    Up,
    Down,
    Enter,
}

impl K {
    fn to_key(self) -> Key {
        match self {
            K::Ch(c) => Key::Char(c),
            K::Backspace => Key::Backspace,
            K::Delete => Key::Delete,
            K::Left => Key::Left,
            K::Right => Key::Right,
            K::CtrlLeft => Key::CtrlLeft,
            K::CtrlRight => Key::CtrlRight,
            K::Up => Key::Up,
            K::Down => Key::Down,
            K::Enter => Key::Enter,
        }
    }
    fn name(self) -> String {
        match self {
            K::Ch(c) => format!("'{}'", c),
            other => format!("{:?}", other),
        }
    }
}

pub const ALPHABET: &[K] = &[
    K::Ch('a'),
    K::Ch('Z'),
    K::Ch(' '),
    K::Ch('+'),
    K::Ch(';'),
    K::Ch('\u{e9}'),
    K::Ch('\u{1F34B}'),
    K::Backspace,
    K::Delete,
    K::Left,
    K::Right,
    K::CtrlLeft,
    K::CtrlRight,
    K::Up,
    K::Down,
    K::Enter,
];

// ---------------------------------------------------------------- reference editor

#[derive(Clone, Debug)]
pub struct RefEdit {
    pub history: Vec<String>,
    pub index: usize,
    pub buffer: Vec<char>,
    pub cursor: usize,
    /// Second admissible cursor after the last key (see `word_next_alt`).
    pub alt_cursor: Option<usize>,
}

impl RefEdit {
    pub fn new(history: Vec<String>) -> Self {
        RefEdit {
            index: history.len(),
            history,
            buffer: Vec::new(),
            cursor: 0,
            alt_cursor: None,
        }
    }
    fn current(&self) -> Vec<char> {
        if self.index >= self.history.len() {
            self.buffer.clone()
        } else {
            self.history[self.index].chars().collect()
        }
    }
    /// An edit of a focused history line works on a copy, which becomes the new line.
    fn fork(&mut self) {
        if self.index < self.history.len() {
            self.buffer = self.history[self.index].chars().collect();
            self.index = self.history.len();
        }
    }
    /// Returns the submitted line on Enter.
    pub fn key(&mut self, k: K) -> Option<String> {
        self.alt_cursor = None;
        match k {
            K::Enter => {
                // a blank line is never submitted, typed or recalled (a history can hold blank lines)
                self.fork();
                if self.buffer.iter().all(|c| c.is_whitespace()) {
                    self.buffer.clear();
                    self.cursor = 0;
                    return None;
                }
                return Some(self.buffer.iter().collect());
            }
            K::Ch(c) => {
                if (c as u32) < 0x20 || c as u32 == 0x7f {
                    return None;
                }
                self.fork();
                self.buffer.insert(self.cursor, c);
                self.cursor += 1;
            }
            K::Backspace => {
                self.fork();
                if self.cursor > 0 && self.cursor <= self.buffer.len() {
                    self.cursor -= 1;
                    self.buffer.remove(self.cursor);
                }
            }
            K::Delete => {
                self.fork();
                if self.cursor < self.buffer.len() {
                    self.buffer.remove(self.cursor);
                }
            }
            K::Left => {
                if self.cursor > 0 {
                    self.cursor -= 1;
                }
            }
            K::Right => {
                if self.cursor < self.current().len() {
                    self.cursor += 1;
                }
            }
            K::CtrlLeft => self.cursor = word_back(&self.current(), self.cursor),
            K::CtrlRight => {
                let cur = self.current();
                self.alt_cursor = word_next_alt(&cur, self.cursor);
                self.cursor = word_next(&cur, self.cursor);
                return None;
            }
            K::Up => {
                if self.index > 0 {
                    self.index -= 1;
                    self.cursor = self.current().len();
                }
            }
            K::Down => {
                if self.index < self.history.len() {
                    self.index += 1;
                    self.cursor = self.current().len();
                }
            }
        }
        None
    }
    /// Bookkeeping of a submitted line (what `read_line` does around the key loop).
    pub fn submitted(&mut self, line: &str) {
        if self.history.last().map(|l| l.as_str()) != Some(line) {
            self.history.push(line.to_string());
        }
        self.index = self.history.len();
    }
    pub fn start_line(&mut self) {
        self.buffer.clear();
        self.cursor = 0;
    }
}

/// Start of the word to the left of the cursor (Vim `b`; words = runs of alphanumerics or runs of
/// other non-blank characters), in characters.
fn word_back(chars: &[char], cursor: usize) -> usize {
    let mut i = cursor.min(chars.len());
    while i > 0 && chars[i - 1].is_whitespace() {
        i -= 1;
    }
    if i == 0 {
        return 0;
    }
    let class = chars[i - 1].is_alphanumeric();
    while i > 0 && !chars[i - 1].is_whitespace() && chars[i - 1].is_alphanumeric() == class {
        i -= 1;
    }
    i
}

/// Start of the next word to the right of the cursor (Vim `w`), or the end of the line.
fn word_next(chars: &[char], cursor: usize) -> usize {
    let n = chars.len();
    if cursor >= n {
        return n;
    }
    let mut i = cursor;
    if !chars[i].is_whitespace() {
        let class = chars[i].is_alphanumeric();
        i += 1;
        while i < n && !chars[i].is_whitespace() && chars[i].is_alphanumeric() == class {
            i += 1;
        }
    }
    while i < n && chars[i].is_whitespace() {
        i += 1;
    }
    i
}

/// When the word under the cursor is followed by nothing but blanks up to the end of the line
/// there is no next word. "Vim rules" then allow two answers: Vim itself stays inside the line
/// (first blank after the word / last character), an insert-mode editor goes to the end of the
/// line. Both are accepted.
fn word_next_alt(chars: &[char], cursor: usize) -> Option<usize> {
    let n = chars.len();
    if cursor >= n || chars[cursor].is_whitespace() {
        return None;
    }
    let class = chars[cursor].is_alphanumeric();
    let mut i = cursor + 1;
    while i < n && !chars[i].is_whitespace() && chars[i].is_alphanumeric() == class {
        i += 1;
    }
    if i < n && chars[i..].iter().all(|c| c.is_whitespace()) {
        Some(i)
    } else {
        None
    }
}

// ---------------------------------------------------------------- monitor

struct Seen {
    line: String,
    cursor: usize,
    history_index: usize,
    history_len: usize,
    submitted: bool,
}

pub struct Outcome {
    pub violation: Option<(String, String)>,
    pub submitted: u64,
    pub multi: bool,
    pub blank_enter: bool,
    pub edited_history: bool,
    pub ctrl_right_mb: bool,
}

pub fn check_sequence(keys: &[K], history: &[String]) -> Outcome {
    let mut oc = Outcome {
        violation: None,
        submitted: 0,
        multi: false,
        blank_enter: false,
        edited_history: false,
        ctrl_right_mb: false,
    };
    let seen: Rc<RefCell<Vec<Seen>>> = Rc::new(RefCell::new(Vec::new()));
    let seen2 = seen.clone();
    verif::install(Monitor {
        armed: true,
        keys: Some(keys.iter().map(|k| k.to_key()).collect::<VecDeque<Key>>()),
        on_key: Some(Box::new(move |v| {
            seen2.borrow_mut().push(Seen {
                line: v.line.to_string(),
                cursor: v.cursor,
                history_index: v.history_index,
                history_len: v.history.len(),
                submitted: v.submitted,
            });
        })),
        ..Default::default()
    });
    let mut commands: Vec<String> = Vec::new();
    let end = guard(|| {
        let mut ed = Editor::new(history.to_vec());
        // read commands until the key queue runs dry (typed unwind)
        // a submitted line of k keys holds at most k commands: anything beyond that means the
        // splitter is re-reading old text instead of asking for a new line
        let cap = keys.len() + 2;
        loop {
            match ed.read() {
                Some(c) => commands.push(c),
                None => break,
            }
            if commands.len() > cap {
                break;
            }
        }
    });
    verif::take();
    let seen = seen.borrow();
    // ---- reference, key by key
    let mut r = RefEdit::new(history.to_vec());
    let mut expected_commands: Vec<String> = Vec::new();
    r.start_line();
    for (ki, k) in keys.iter().enumerate() {
        let before_focus_hist = r.index < r.history.len();
        let had_mb = !r.current().iter().all(|c| c.is_ascii());
        let sub = r.key(*k);
        if matches!(k, K::Ch(_) | K::Backspace | K::Delete) && before_focus_hist {
            oc.edited_history = true;
        }
        if *k == K::CtrlRight && had_mb {
            oc.ctrl_right_mb = true;
        }
        if *k == K::Enter && sub.is_none() {
            oc.blank_enter = true;
        }
        let prefix = || keys[..=ki].iter().map(|k| k.name()).collect::<Vec<_>>().join(" ");
        let Some(s) = seen.get(ki) else {
            // the editor stopped handling keys: must be a panic
            let what = match &end {
                Err(a @ Abort::Panic { .. }) => format!("after keys [{}]: {}", prefix(), a.short()),
                other => format!("after keys [{}] the editor handled no further key ({:?})", prefix(), other.as_ref().err().map(|a| a.short())),
            };
            let key = match &end {
                Err(a @ Abort::Panic { .. }) => format!("C20/panic/{}", a.panic_file()),
                _ => "C20/stopped".to_string(),
            };
            oc.violation = Some((key, what));
            return oc;
        };
        let want_line: String = r.current().iter().collect();
        let n_chars = s.line.chars().count();
        if s.cursor > n_chars {
            oc.violation = Some((
                "C20/cursor-outside-line".into(),
                format!("after keys [{}]: cursor {} on a line of {} characters {:?}", prefix(), s.cursor, n_chars, s.line),
            ));
            return oc;
        }
        if s.line == want_line && r.alt_cursor == Some(s.cursor) {
            // the other admissible reading of "no next word": follow the implementation
            r.cursor = s.cursor;
        }
        if s.line != want_line || s.cursor != r.cursor {
            oc.violation = Some((
                format!("C20/differs-from-reference/{}", match k { K::Ch(_) => "Char".to_string(), other => format!("{:?}", other) }),
                format!(
                    "after keys [{}]: line {:?} cursor {}, reference line {:?} cursor {}",
                    prefix(),
                    s.line,
                    s.cursor,
                    want_line,
                    r.cursor
                ),
            ));
            return oc;
        }
        if s.history_index != r.index || s.history_len != r.history.len() {
            oc.violation = Some((
                "C20/history-focus".into(),
                format!(
                    "after keys [{}]: history focus {}/{}, reference {}/{}",
                    prefix(),
                    s.history_index,
                    s.history_len,
                    r.index,
                    r.history.len()
                ),
            ));
            return oc;
        }
        if s.submitted != sub.is_some() {
            oc.violation = Some((
                "C20/submit".into(),
                format!("after keys [{}]: submitted = {}, reference {}", prefix(), s.submitted, sub.is_some()),
            ));
            return oc;
        }
        if let Some(line) = sub {
            oc.submitted += 1;
            let parts: Vec<String> = line.split(';').map(|p| p.to_string()).collect();
            if parts.len() > 1 {
                oc.multi = true;
            }
            expected_commands.extend(parts);
            r.submitted(&line);
            r.start_line();
        }
    }
    if commands.len() > keys.len() + 2 {
        oc.violation = Some((
            "C20/splitter-never-asks-for-a-new-line".into(),
            format!(
                "keys [{}]: more commands were read ({:?}...) than the submitted text holds; the reference reads {:?} and then waits for the next line",
                keys.iter().map(|k| k.name()).collect::<Vec<_>>().join(" "),
                &commands[..commands.len().min(6)],
                expected_commands
            ),
        ));
        return oc;
    }
    match &end {
        Err(Abort::Keys) => {}
        Err(a @ Abort::Panic { .. }) => {
            oc.violation = Some((format!("C20/panic/{}", a.panic_file()), format!("keys [{}]: {}", keys.iter().map(|k| k.name()).collect::<Vec<_>>().join(" "), a.short())));
            return oc;
        }
        other => {
            oc.violation = Some(("C20/end".into(), format!("editor ended with {:?}", other.as_ref().err().map(|a| a.short()))));
            return oc;
        }
    }
    if commands != expected_commands {
        oc.violation = Some((
            "C20/submitted-text".into(),
            format!(
                "keys [{}]: commands read {:?}, reference {:?}",
                keys.iter().map(|k| k.name()).collect::<Vec<_>>().join(" "),
                commands,
                expected_commands
            ),
        ));
    }
    oc
}

// ---------------------------------------------------------------- workload

const CHUNK: u64 = if cfg!(miri) { 32 } else { 2048 };

fn count_seqs(max_len: u32) -> u64 {
    (1..=max_len).map(|l| (ALPHABET.len() as u64).pow(l)).sum()
}

fn nth_seq(mut i: u64, max_len: u32) -> Vec<K> {
    let k = ALPHABET.len() as u64;
    for l in 1..=max_len {
        let n = k.pow(l);
        if i < n {
            let mut v = Vec::new();
            for _ in 0..l {
                v.push(ALPHABET[(i % k) as usize]);
                i /= k;
            }
            return v;
        }
        i -= n;
    }
    Vec::new()
}

pub fn histories() -> Vec<Vec<String>> {
    vec![Vec::new(), vec!["step".to_string(), "p caf\u{e9} \u{1F34B};x".to_string()]]
}

pub fn run(cfg: &Cfg, col: &mut Collector) {
    let max_len: u32 = if cfg.miri { 3 } else if cfg.thorough() { 6 } else { 5 };
    let n_seqs = count_seqs(max_len);
    let n_chunks = (n_seqs + CHUNK - 1) / CHUNK;
    let hs = histories();
    let n_enum = n_chunks * hs.len() as u64;
    let n_random = cfg.n(40, 800, 1);
    let seed = cfg.seed;
    let hs = &hs;
    crate::util::run_cases(n_enum + n_random, cfg.only_case, cfg.threads, col, move |i| {
        if i < n_enum {
            let h = (i / n_chunks) as usize;
            enum_chunk(i, i % n_chunks, max_len, n_seqs, &hs[h], h)
        } else {
            random_case(seed, i, hs)
        }
    });
    col.exhaustive = true;
    col.extra.push((
        "exhaustive_part".into(),
        J::obj(vec![
            ("alphabet", J::A(ALPHABET.iter().map(|k| J::s(k.name())).collect())),
            ("max_length", J::I(max_len as i64)),
            ("sequences_per_history", J::I(n_seqs as i64)),
            ("histories", J::I(hs.len() as i64)),
        ]),
    ));
}

fn tally(out: &mut CaseOut, keys: &[K], oc: &Outcome) {
    for k in keys {
        out.class(match k {
            K::Ch('\u{e9}') => "key:multibyte2",
            K::Ch('\u{1F34B}') => "key:multibyte4",
            K::Ch(_) => "key:char",
            K::Backspace => "key:backspace",
            K::Delete => "key:delete",
            K::Left => "key:left",
            K::Right => "key:right",
            K::CtrlLeft => "key:ctrl_left",
            K::CtrlRight => "key:ctrl_right",
            K::Up => "key:up",
            K::Down => "key:down",
            K::Enter => "key:enter",
        });
    }
    if oc.submitted > 0 {
        out.class("submitted");
    }
    if oc.multi {
        out.class("submitted_multi_command");
    }
    if oc.blank_enter {
        out.class("blank_enter");
    }
    if oc.edited_history {
        out.class("edit_of_history_line");
    }
    if oc.ctrl_right_mb {
        out.class("ctrl_right_with_multibyte_on_line");
    }
}

fn enum_chunk(case: u64, chunk: u64, max_len: u32, n_seqs: u64, history: &[String], h: usize) -> CaseOut {
    let mut out = CaseOut::new();
    let lo = chunk * CHUNK;
    let hi = (lo + CHUNK).min(n_seqs);
    let mut nontrivial = 0u64;
    for si in lo..hi {
        let keys = nth_seq(si, max_len);
        let oc = check_sequence(&keys, history);
        if let Some((key, what)) = &oc.violation {
            out.violate(
                key.clone(),
                case,
                what.clone(),
                J::obj(vec![
                    ("keys", J::A(keys.iter().map(|k| J::s(k.name())).collect())),
                    ("history", J::A(history.iter().map(J::s).collect())),
                ]),
            );
        }
        let edits = keys.iter().any(|k| matches!(k, K::Ch(_) | K::Backspace | K::Delete));
        let moves = keys.iter().any(|k| matches!(k, K::Left | K::Right | K::CtrlLeft | K::CtrlRight | K::Up | K::Down));
        if edits && moves {
            nontrivial += 1;
        }
        if si % 257 == 0 {
            tally(&mut out, &keys, &oc);
        }
    }
    out.class(if h == 0 { "history:empty" } else { "history:two_entries" });
    out.evals = hi - lo;
    out.nontrivial = if nontrivial > 0 { Some(hash_bytes(format!("{}:{}", h, chunk).as_bytes())) } else { None };
    if chunk % 61 == 0 {
        out.sample = Some(J::obj(vec![
            ("keys", J::A(nth_seq(lo + 17.min(hi - lo - 1), max_len).iter().map(|k| J::s(k.name())).collect())),
            ("history", J::A(history.iter().map(J::s).collect())),
            ("sequences_in_chunk", J::I((hi - lo) as i64)),
        ]));
    }
    out
}

fn random_case(seed: u64, i: u64, hs: &[Vec<String>]) -> CaseOut {
    let mut out = CaseOut::new();
    let mut rng = Rng::for_case(seed, "C20", i);
    let extra: &[K] = &[K::Ch('x'), K::Ch('3'), K::Ch('_'), K::Ch('\u{2713}'), K::Ch('\t'), K::Ch('\u{7f}'), K::Ch('-'), K::Ch('\u{3000}'),
        // printable characters whose code point, cut to eight bits, would be a control character or DEL
        K::Ch('\u{1F600}'), K::Ch('\u{410}'), K::Ch('\u{41f}'), K::Ch('\u{11f}'), K::Ch('\u{192}'), K::Ch('\u{2019}'), K::Ch('\u{201c}'), K::Ch('\u{2013}'), K::Ch('\u{17f}'), K::Ch('\u{a0}'), K::Ch('\u{85}')];
    let mut evals = 0;
    for _ in 0..(if cfg!(miri) { 2 } else { 50 }) {
        let len = 20 + rng.below(if cfg!(miri) { 40 } else { 180 });
        let keys: Vec<K> = (0..len)
            .map(|_| if rng.chance(1, 6) { *rng.pick(extra) } else { *rng.pick(ALPHABET) })
            .collect();
        let mut history = rng.pick(hs).clone();
        let mut keys = keys;
        match rng.below(8) {
            0 => {
                // a long history (hundreds of lines, some repeated, some long), walked far up and down
                let n = 100 + rng.below(400);
                history = (0..n)
                    .map(|k| match k % 7 {
                        0 => "reg".to_string(),
                        1 => format!("print x{:04x}", k),
                        2 => "step".to_string(),
                        3 => format!("echo {}", "\u{e9}x".repeat((k % 40) as usize)),
                        4 => history.first().cloned().unwrap_or_default(),
                        5 => String::new(),
                        _ => format!("move r{} #{}", k % 8, k),
                    })
                    .filter(|l| !l.is_empty() || rng.chance(1, 4))
                    .collect();
                for k in keys.iter_mut() {
                    if rng.chance(1, 2) {
                        *k = if rng.chance(3, 4) { K::Up } else { K::Down };
                    }
                }
                out.class("long_history");
            }
            2 if !cfg!(miri) => {
                // submit a line on top of a history of several hundred lines, then walk all the way up
                let n = *rng.pick(&[255usize, 256, 499, 500, 501, 512, 1000, 1024]);
                history = (0..n).map(|k| format!("l{}", k)).collect();
                let ups = n + 1 - rng.below(3) as usize;
                keys = vec![K::Ch('z'), K::Ch('z'), K::Enter];
                keys.extend(std::iter::repeat(K::Up).take(ups));
                keys.push(if rng.bool() { K::Enter } else { K::Ch('!') });
                keys.push(K::Enter);
                out.class("deep_history_walk");
            }
            1 => {
                // one line far longer than the editor's initial buffer (64 bytes), typed and then edited
                let mut typed: Vec<K> = (0..(70 + rng.below(400))).map(|k| K::Ch(if k % 5 == 0 { '\u{e9}' } else { 'a' })).collect();
                typed.extend(keys.iter().copied());
                keys = typed;
                out.class("long_line");
            }
            _ => {}
        }
        let oc = check_sequence(&keys, &history);
        evals += 1;
        if let Some((key, what)) = &oc.violation {
            out.violate(
                key.clone(),
                i,
                what.clone(),
                J::obj(vec![
                    ("keys", J::A(keys.iter().map(|k| J::s(k.name())).collect())),
                    ("history", J::A(history.iter().map(J::s).collect())),
                ]),
            );
        }
        tally(&mut out, &keys, &oc);
    }
    out.class("random_long");
    out.evals = evals;
    out.nontrivial = Some(hash_bytes(format!("rand{}", i).as_bytes()));
    out
}
