//! C13 — debugger writes are confined to user space and to the named target.
//!
//! Monitor: long sessions of `move` / `goto` / `break add|remove` / inspection commands with
//! targets swept over address boundaries in every spelling; the full machine state and the
//! breakpoint list at every prompt are compared with the reference model (frame condition:
//! nothing but the named word/register changes; refused commands change nothing).

use crate::dbgmon::{run_and_verify, script_lines};
use crate::refasm::*;
use crate::refdbg::{Cmd, Loc};
use crate::util::{hash_bytes, CaseOut, Collector, Rng, J};
use crate::Cfg;

pub const FLOORS: &[&str] = &[
    "move_reg", "move_mem:accepted", "move_mem:refused_low", "move_mem:refused_high", "goto:accepted",
    "goto:refused", "break_add:accepted", "break_add:refused", "break_remove", "loc:label", "loc:pc",
    "loc:abs", "label_offset_crosses_8000", "pc_offset_overflows_16_bits", "offset_beyond_i16_rejected",
    "inspect", "addr:0", "addr:orig-1", "addr:orig", "addr:x7FFF", "addr:x8000", "addr:xFDFF",
    "addr:xFE00", "addr:xFFFF", "origin_high", "origin_low", "predefined_breakpoint_outside_user_space",
    "origin_zero", "origin_above_user_space", "wrong_case_label_rejected", "integer_beyond_32_bits_rejected",
    "bare_number_like_label_is_a_number", "pc_outside_user_space", "integer_of_17_bits_rejected", "label_far_into_a_big_program", "eval_line_with_a_label_in_front_refused", "addr:device_register_of_other_machines", "condition_codes_set_before_the_commands",
];

const CMDS_PER_SESSION: u64 = 120;

pub fn run(cfg: &Cfg, col: &mut Collector) {
    let n = cfg.n(170, 8500, 3);
    let seed = cfg.seed;
    let sweep_all = cfg.thorough();
    crate::util::run_cases(n, cfg.only_case, cfg.threads, col, move |i| one_case(seed, i, n, sweep_all));
    col.extra.push(("sessions".into(), J::I(n as i64)));
    col.extra.push(("commands_per_session".into(), J::I(CMDS_PER_SESSION as i64)));
    if sweep_all {
        col.extra.push(("all_65536_addresses_as_move_target".into(), J::B(true)));
    }
}

fn program(rng: &mut Rng, orig: u16, jump_out: Option<u16>, big_gap: Option<i32>) -> (String, RefImage) {
    if orig == 0xFDF0 {
        // image fills 0xFDF0..=0xFDFF exactly; the trailing `.break` marks 0xFE00, the first
        // address outside user space
        let mut items = vec![Item::Orig(orig as i32)];
        let names = ["first", "mid", "data", "last"];
        for k in 0..16 {
            let label = match k {
                0 => Some(names[0]),
                7 => Some(names[1]),
                14 => Some(names[2]),
                15 => Some(names[3]),
                _ => None,
            };
            items.push(Item::Stmt { label: label.map(|s| s.to_string()), stmt: Stmt::AddI(1, 1, 1) });
        }
        items.push(Item::Break);
        let p = Program { items };
        let img = match encode(&p) {
            Verdict::Accept(img) => img,
            _ => unreachable!("fixed-shape program"),
        };
        return (render(&p, &Layout::canonical(), rng).text, img);
    }
    // a small program with a few labels; it is never run to completion here
    let mut items = vec![Item::Orig(orig as i32)];
    // (label names that are words of the command language elsewhere - `pc`, `sp` - are plain labels)
    let names = *rng.pick(&[["first", "mid", "data", "last"], ["pc", "sp", "Main", "psr"], ["PC", "count", "Count", "lr"], ["first", "Pc", "data", "SP"],
        // labels whose bare name is a number to the command language (with an offset they are labels)
        ["b10", "o17", "data", "B1"],
        // labels that begin like a register and go on: labels, to every command
        ["R0_SAVE", "r2d2", "data", "r7_"]]);
    if jump_out.is_some() {
        // the program's first two instructions take the PC out of user space
        items.push(Item::Stmt { label: None, stmt: Stmt::Ld(5, Target::Label("tgt_out".into())) });
        items.push(Item::Stmt { label: None, stmt: Stmt::Jmp(5) });
    }
    let n = 4 + rng.below(12) as usize;
    for k in 0..n {
        let label = match k {
            0 => Some(names[0]),
            _ if k == n / 2 => Some(names[1]),
            _ if k == n - 2 => Some(names[2]),
            _ if k == n - 1 => Some(names[3]),
            _ => None,
        };
        let stmt = match if k == 0 { 0 } else { rng.below(4) } {
            // (the first statement is an ADD with a value of its own: one `step` from the origin sets the condition codes)
            0 if k == 0 => Stmt::AddI(rng.below(7) as u8, rng.below(7) as u8, *rng.pick(&[1, -1, 5, -7, 15, -16])),
            0 => Stmt::AddI(rng.below(8) as u8, rng.below(8) as u8, rng.range(-16, 15) as i32),
            1 => Stmt::Fill(rng.below(0x10000) as i32),
            2 => Stmt::Not(rng.below(8) as u8, rng.below(8) as u8),
            _ => Stmt::AndR(1, 2, 3),
        };
        if let (Some(gap), true) = (big_gap, k == n / 2) {
            // the labels behind this lie more than x8000 words into the program
            items.push(Item::Stmt { label: None, stmt: Stmt::Blkw(gap) });
        }
        items.push(Item::Stmt { label: label.map(|s| s.to_string()), stmt });
    }
    if let Some(t) = jump_out {
        items.push(Item::Stmt { label: Some("tgt_out".into()), stmt: Stmt::Fill(t as i32) });
    }
    let p = Program { items };
    let img = match encode(&p) {
        Verdict::Accept(img) => img,
        _ => unreachable!("fixed-shape program"),
    };
    (render(&p, &Layout::canonical(), rng).text, img)
}

fn boundary_addr(rng: &mut Rng, orig: u16) -> (u16, Option<&'static str>) {
    match rng.below(12) {
        0 => (0, Some("addr:0")),
        1 => (orig.wrapping_sub(1), Some("addr:orig-1")),
        2 => (orig, Some("addr:orig")),
        3 => (0x7FFF, Some("addr:x7FFF")),
        4 => (0x8000, Some("addr:x8000")),
        5 => (0xFDFF, Some("addr:xFDFF")),
        6 => (0xFE00, Some("addr:xFE00")),
        7 => (0xFFFF, Some("addr:xFFFF")),
        8 => (orig.wrapping_add(1), None),
        // the addresses other LC-3 machines map their device and status registers to: plain memory here
        9 => (*rng.pick(&[0xFFFCu16, 0xFFFE, 0xFE00, 0xFE02, 0xFE04, 0xFE06, 0xFFFC, 0xFFFD]), Some("addr:device_register_of_other_machines")),
        _ => (rng.u16(), None),
    }
}

fn one_case(seed: u64, i: u64, n_sessions: u64, sweep_all: bool) -> CaseOut {
    let mut out = CaseOut::new();
    let mut rng = Rng::for_case(seed, "C13", i);
    let stack = rng.bool();
    let orig: u16 = match rng.below(9) {
        6 => 0xFDF0,
        7 => 0x0000,          // 0x0000 itself is a user address
        8 => 0xFE10,          // image above the user area: no address at all is a legal target
        0 => 0x3000,
        1 => 0x7FF0 + rng.below(0x20) as u16, // image straddles 0x8000
        2 => 0x8000 + rng.below(0x6000) as u16,
        3 => 1 + rng.below(0x100) as u16,
        4 => 0xFD00 + rng.below(0xE0) as u16,
        _ => gen_origin(&mut rng).clamp(1, 0xFD00) as u16,
    };
    // every eleventh session has a program of more than x8000 words at a low origin: a label far into it plus
    // an offset can pass x10000, which is no address (not the address it would wrap to)
    let big = i % 11 == 7 && i % 5 != 2;
    let orig: u16 = if big { *rng.pick(&[0x0000u16, 0x0100, 0x0040, 0x1000]) } else { orig };
    // every fifth session lets the program leave user space first (see below): from an ordinary origin
    let want_out = i % 5 == 2;
    let orig: u16 = if want_out { *rng.pick(&[0x3000u16, 0x0100, 0x8000, 0xC123, 0x7FF8, 0xFC00]) } else { orig };
    out.class(if orig >= 0x8000 { "origin_high" } else { "origin_low" });
    if orig == 0xFDF0 {
        out.class("predefined_breakpoint_outside_user_space");
    }
    if orig == 0 {
        out.class("origin_zero");
    }
    if orig == 0xFE10 {
        out.class("origin_above_user_space");
    }
    // one session in five starts by letting the program jump out of user space: locations relative to
    // the PC are then relative to *that* PC (x0000, origin-1, xFE00, xFFFF), and mostly name nothing legal
    let jump_out: Option<u16> = if want_out {
        Some(*rng.pick(&[0x0000u16, orig - 1, 0xFE00, 0xFFFF, orig - 2, 0xFE01]))
    } else {
        None
    };
    let gap = if big { Some(0xC000 + rng.below(0x1000) as i32) } else { None };
    let (text, img) = program(&mut rng, orig, jump_out, gap);
    if big {
        out.class("label_far_into_a_big_program");
    }
    let labels: Vec<(String, u16)> = img.labels.iter().map(|(n, idx)| (n.clone(), orig + *idx as u16)).collect();

    let mut cmds: Vec<Cmd> = Vec::new();
    let mut classes: Vec<String> = Vec::new();
    // park the PC somewhere first (high / low), so that ^offsets are exercised from both ends
    if jump_out.is_some() {
        cmds.push(Cmd::StepInto(2));
        classes.push("pc_outside_user_space".into());
    } else {
        if orig != 0xFDF0 && orig < 0xFE00 && i % 3 == 1 {
            // one instruction executed first: the condition codes are set when the commands below are given
            cmds.push(Cmd::Step);
            classes.push("condition_codes_set_before_the_commands".into());
        }
        cmds.push(Cmd::Goto(orig + rng.below(img.words.len() as u64) as u16));
    }
    for k in 0..CMDS_PER_SESSION {
        // thorough: every address is a `move` target exactly once over the whole run
        let forced: Option<u16> = if sweep_all && k % 2 == 0 {
            let per = 65536 / n_sessions + 1;
            let idx = i * per + k / 2;
            if k / 2 < per && idx < 65536 {
                Some(idx as u16)
            } else {
                None
            }
        } else {
            None
        };
        let (addr, tag) = match forced {
            Some(a) => (a, None),
            None if orig == 0xFDF0 && rng.chance(1, 5) => (0xFE00, Some("addr:xFE00")),
            None => boundary_addr(&mut rng, orig),
        };
        if let Some(t) = tag {
            classes.push(t.to_string());
        }
        // spelling of the location
        let loc = match if forced.is_some() { rng.below(2) } else if jump_out.is_some() { 3 + rng.below(5) } else { rng.below(8) } {
            0 | 1 => {
                classes.push("loc:abs".into());
                Loc::Abs(addr)
            }
            2 | 3 | 4 => {
                let (name, base) = rng.pick(&labels).clone();
                let off = addr as i32 - base as i32; // mathematical distance
                let off = match rng.below(4) {
                    0 => off,
                    1 => *rng.pick(&[0x7FFF, -0x8000, 0x7FFE, -0x7FFF, 1, -1, 0]),
                    2 => rng.range(-40, 40) as i32,
                    _ => off.clamp(-0x8000, 0x7FFF),
                };
                if !(-0x8000..=0x7FFF).contains(&off) {
                    // not expressible as a 16-bit signed offset: the grammar rejects the token
                    classes.push("offset_beyond_i16_rejected".into());
                    let l = Loc::Label(name, base, off);
                    cmds.push(Cmd::Rejected(format!("goto {}", l.text(rng.next()))));
                    continue;
                }
                classes.push("loc:label".into());
                let sum = base as i32 + off;
                if (base < 0x8000) != (sum < 0x8000) && (0..0x10000).contains(&sum) {
                    classes.push("label_offset_crosses_8000".into());
                }
                Loc::Label(name, base, off)
            }
            _ => {
                classes.push("loc:pc".into());
                let off = match rng.below(4) {
                    0 => *rng.pick(&[0x7FFF, -0x8000, 0x7FFE, -0x7FFF]),
                    1 => rng.range(-5, 5) as i32,
                    _ => rng.range(-0x8000, 0x7FFF) as i32,
                };
                // whether PC + off leaves 16 bits is only known at run time; counted below
                Loc::Pc(off)
            }
        };
        if rng.chance(1, 16) {
            // integers of more than 32 bits whose low bits would be a fine address or value: refused
            let low = orig.wrapping_add(rng.below(img.words.len() as u64) as u16) as u64;
            let big = (1 + rng.below(5)) * (1u64 << 32) + low;
            let spelt = match rng.below(4) {
                0 => format!("{}", big),
                1 => format!("x{:x}", big),
                2 => format!("#{}", big),
                _ => format!("o{:o}", big),
            };
            classes.push("integer_beyond_32_bits_rejected".into());
            cmds.push(Cmd::Rejected(match rng.below(5) {
                0 => format!("goto {}", spelt),
                1 => format!("move {} x1234", spelt),
                2 => format!("break add {}", spelt),
                3 => format!("move r{} {}", rng.below(8), spelt),
                _ => format!("goto {}+{}", labels[0].0, spelt),
            }));
            continue;
        }
        if rng.chance(1, 20) {
            // one more than sixteen bits hold: 65536 is no address and no value (not x0000, whatever the origin is)
            let big = 65536u64 + *rng.pick(&[0u64, 0, 0, 1, 2, 0x3000]);
            let spelt = match rng.below(5) {
                0 => format!("{}", big),
                1 => format!("x{:x}", big),
                2 => format!("#{}", big),
                3 => format!("0x{:X}", big),
                _ => format!("o{:o}", big),
            };
            let line = match rng.below(5) {
                0 => format!("goto {}", spelt),
                1 => format!("move {} x1234", spelt),
                2 => format!("break add {}", spelt),
                3 => format!("move r{} {}", rng.below(8), spelt),
                _ => format!("break remove {}", spelt),
            };
            if crate::refcmd::parse(&line).is_err() {
                classes.push("integer_of_17_bits_rejected".into());
                cmds.push(Cmd::Rejected(line));
            }
            continue;
        }
        if labels.iter().any(|(n, _)| n == "b10") && orig > 15 && rng.chance(1, 10) {
            // the bare tokens b10, o17, B1 are the numbers 2, 15 and 1, whatever labels exist: below the
            // origin, so refused without effect
            classes.push("bare_number_like_label_is_a_number".into());
            let t = *rng.pick(&["b10", "o17", "B1", "B10", "O17", "0b10", "b1"]);
            cmds.push(Cmd::Inspect(match rng.below(4) {
                0 => format!("goto {}", t),
                1 => format!("move {} x{:04x}", t, rng.u16()),
                2 => format!("break add {}", t),
                _ => format!("break remove {}", t),
            }));
            continue;
        }
        if rng.chance(1, 12) {
            // a source line given to `eval` with a label of the program in front: refused ("expected an
            // instruction"), and nothing changes - the label included, wherever the PC stands
            let (name, base) = rng.pick(&labels).clone();
            classes.push("eval_line_with_a_label_in_front_refused".into());
            cmds.push(Cmd::Inspect(format!("{} {}{} {}", rng.s(&["eval", "e"]), name, rng.s(&["", ":"]), rng.s(&["add r1, r1, #1", "not r2 r2", "st r0 #1"]))));
            // ... and the label is used right away
            let l = Loc::Label(name, base, rng.range(-2, 3) as i32);
            cmds.push(match rng.below(3) {
                0 => Cmd::MoveMemLoc(l, rng.u16()),
                1 => Cmd::BreakAddLoc(l),
                _ => Cmd::GotoLoc(l),
            });
            continue;
        }
        if rng.chance(1, 14) {
            // an existing label in another letter case: labels are case-sensitive, so this names
            // nothing - an error, and nothing changes
            let (name, _) = rng.pick(&labels).clone();
            let flipped: String = name.chars().enumerate().map(|(k, c)| if (k + name.len()) % 2 == 0 { c.to_ascii_uppercase() } else { c.to_ascii_lowercase() }).collect();
            let other: String = name.chars().map(|c| if c.is_ascii_lowercase() { c.to_ascii_uppercase() } else { c.to_ascii_lowercase() }).collect();
            let wrong = if flipped != name && !labels.iter().any(|(n, _)| *n == flipped) { flipped } else { other };
            if wrong != name && !labels.iter().any(|(n, _)| *n == wrong) {
                let arg = match rng.below(3) {
                    0 => wrong.clone(),
                    1 => format!("{}+{}", wrong, rng.below(3)),
                    _ => format!("{}-1", wrong),
                };
                // (a wrong-case spelling may itself be a number to the command language: `B10`)
                if !matches!(crate::refcmd::memory_location(&arg), Ok(crate::refcmd::RLoc::Label(n, _)) if n == wrong) {
                    continue;
                }
                classes.push("wrong_case_label_rejected".into());
                // (the line parses; it is refused when the label is looked up: a command without effect)
                cmds.push(Cmd::Inspect(match rng.below(4) {
                    0 => format!("move {} x{:04x}", arg, rng.u16()),
                    1 => format!("goto {}", arg),
                    2 => format!("break add {}", arg),
                    _ => format!("break remove {}", arg),
                }));
                continue;
            }
        }
        let cmd = match rng.below(11) {
            0 | 1 => {
                classes.push("move_reg".into());
                Cmd::MoveReg(rng.below(8) as u8, *rng.pick(&[0u16, 1, 0x7FFF, 0x8000, 0xFFFF, 0x1234]))
            }
            2 | 3 | 4 => Cmd::MoveMemLoc(loc, rng.u16()),
            5 | 6 => Cmd::GotoLoc(loc),
            7 => Cmd::BreakAddLoc(loc),
            8 => Cmd::BreakRemoveLoc(loc),
            _ => {
                classes.push("inspect".into());
                Cmd::Inspect(
                    match rng.below(5) {
                        0 => format!("print {}", loc.text(rng.next())),
                        1 => "registers".to_string(),
                        2 => format!("assembly {}", loc.text(rng.next())),
                        3 => "break list".to_string(),
                        _ => format!("print r{}", rng.below(8)),
                    },
                )
            }
        };
        cmds.push(cmd);
    }
    cmds.push(Cmd::Exit);
    let lines = script_lines(&cmds, seed ^ i);
    let checked = run_and_verify(&mut out, "C13", i, &text, stack, &cmds, &lines, "\n", &[], false, &img.breaks);
    let (Some(sess), Some(_)) = (&checked.sess, &checked.stats) else {
        return out;
    };
    // ---- classes from what actually happened (the model agreed with every prompt)
    let mut si = 0usize;
    for c in &cmds {
        if matches!(c, Cmd::Rejected(_)) {
            continue;
        }
        let (Some(a), Some(b)) = (sess.snaps.get(si), sess.snaps.get(si + 1)) else { break };
        si += 1;
        let resolved = |l: &Loc| l.resolve(a.pc, orig);
        match c {
            Cmd::MoveMemLoc(l, _) => {
                match resolved(l) {
                    Some(_) => out.class("move_mem:accepted"),
                    None => {
                        let raw: i64 = match l {
                            Loc::Abs(x) => *x as i64,
                            Loc::Label(_, base, off) => *base as i64 + *off as i64,
                            Loc::Pc(off) => a.pc as i64 + *off as i64,
                        };
                        out.class(if raw < orig as i64 { "move_mem:refused_low" } else { "move_mem:refused_high" });
                    }
                }
            }
            Cmd::GotoLoc(l) => out.class(if resolved(l).is_some() { "goto:accepted" } else { "goto:refused" }),
            Cmd::BreakAddLoc(l) => out.class(if resolved(l).is_some() { "break_add:accepted" } else { "break_add:refused" }),
            Cmd::BreakRemoveLoc(_) => out.class("break_remove"),
            _ => {}
        }
        if let Cmd::MoveMemLoc(Loc::Pc(off), _) | Cmd::GotoLoc(Loc::Pc(off)) | Cmd::BreakAddLoc(Loc::Pc(off)) = c {
            let sum = a.pc as i64 + *off as i64;
            if !(0..0x10000).contains(&sum) {
                out.class("pc_offset_overflows_16_bits");
            }
        }
        let _ = b;
    }
    for c in classes {
        out.class(c);
    }
    out.evals = cmds.len() as u64;
    out.nontrivial = Some(hash_bytes(format!("{}|{:?}", text, lines).as_bytes()));
    if i % 37 == 0 {
        out.sample = Some(J::obj(vec![
            ("source", J::s(&text)),
            ("script_head", J::A(lines.iter().take(12).map(J::s).collect())),
            ("commands", J::I(lines.len() as i64)),
        ]));
    }
    out
}
