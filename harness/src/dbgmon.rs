//! Debugger session monitor: runs a real session (program + command script) with snapshots at
//! every prompt, and checks it against the reference debugger model in lockstep.

use std::cell::RefCell;
use std::rc::Rc;

use crate::exec::{build_env, run_env, Abort, AsmOutcome, Image, RunCfg, RunObs};
use crate::refdbg::{After, Cmd, Reading, RefDbg};
use crate::refvm::{RefVm, Stop};
use crate::util::J;

#[derive(Clone, Debug)]
pub struct Snap {
    pub pc: u16,
    pub reg: [u16; 8],
    pub cc: u8,
    /// words which differ from the load-time memory
    pub mem_diff: Vec<(u16, u16)>,
    pub bps: Vec<(u16, bool)>,
    pub fetches: u64,
    pub ticks: u64,
    pub commands_read: usize,
    pub out_len: usize,
    pub dbg_len: usize,
    pub input_taken: u64,
}

pub struct Session {
    pub image: Image,
    pub snaps: Vec<Snap>,
    pub obs: RunObs,
    pub fin: Snap,
    pub init_mem: Box<[u16; 0x10000]>,
}

/// Words of `mem` which differ from `init`. Whole-slice and per-block comparisons come first: they
/// are single `memcmp`s (cheap even under Miri, which would otherwise spend its time on a 64K-word
/// loop per prompt), and only blocks that differ are scanned word by word.
pub fn diff_mem(mem: &[u16; 0x10000], init: &[u16; 0x10000]) -> Vec<(u16, u16)> {
    if mem[..] == init[..] {
        return Vec::new();
    }
    let mut v = Vec::new();
    for block in 0..256usize {
        let (lo, hi) = (block << 8, (block + 1) << 8);
        if mem[lo..hi] == init[lo..hi] {
            continue;
        }
        for a in lo..hi {
            if mem[a] != init[a] {
                v.push((a as u16, mem[a]));
            }
        }
    }
    v
}

/// Run a real debugger session on this (fresh) thread.
pub fn run_session(
    text: &str,
    stack: bool,
    script: &str,
    input: &[u8],
    tick_fuel: u64,
    keep_trace: bool,
) -> Result<Session, AsmOutcome> {
    let (mut env, image) = build_env(text, stack, Some(script.to_string()))?;
    let init_mem: Box<[u16; 0x10000]> = Box::new(*env.verif_view().mem);
    let snaps: Rc<RefCell<Vec<Snap>>> = Rc::new(RefCell::new(Vec::new()));
    let snaps2 = snaps.clone();
    let init2 = init_mem.clone();
    let obs = run_env(
        &mut env,
        RunCfg {
            fuel: Some(tick_fuel),
            input: input.to_vec(),
            keep_trace,
            on_prompt: Some(Box::new(move |v| {
                snaps2.borrow_mut().push(Snap {
                    pc: v.state.pc,
                    reg: *v.state.reg,
                    cc: v.state.cc,
                    mem_diff: diff_mem(v.state.mem, &init2),
                    bps: v.breakpoints.clone(),
                    fetches: v.fetches,
                    ticks: v.ticks,
                    commands_read: v.commands_read,
                    out_len: v.out_normal_len,
                    dbg_len: v.out_debugger_len,
                    input_taken: v.input_taken,
                });
            })),
        },
    );
    let v = env.verif_view();
    let fin = Snap {
        pc: v.pc,
        reg: *v.reg,
        cc: v.cc,
        mem_diff: diff_mem(v.mem, &init_mem),
        bps: Vec::new(),
        fetches: obs.fetches,
        ticks: obs.ticks,
        commands_read: obs.commands.len(),
        out_len: obs.out_normal.len(),
        dbg_len: obs.out_debugger.len(),
        input_taken: obs.input_taken,
    };
    let snaps = Rc::try_unwrap(snaps).map(|c| c.into_inner()).unwrap_or_default();
    Ok(Session {
        image,
        snaps,
        obs,
        fin,
        init_mem,
    })
}

#[derive(Default, Debug)]
pub struct Stats {
    pub prompts_checked: u64,
    pub resumes: u64,
    pub executed: u64,
    pub classes: Vec<String>,
    pub ambiguous: (u64, u64),
    pub discarded: Option<String>,
}

pub struct Mismatch {
    pub aspect: String,
    pub what: String,
    pub at_command: usize,
}

fn model_diff(d: &RefDbg, init: &[u16; 0x10000]) -> Vec<(u16, u16)> {
    diff_mem(&d.vm.mem, init)
}

fn cmp_state(s: &Snap, d: &RefDbg, init: &[u16; 0x10000], pc_matters: bool) -> Option<(String, String)> {
    if pc_matters && s.pc != d.vm.pc {
        return Some(("pc".into(), format!("PC x{:04X}, reference x{:04X}", s.pc, d.vm.pc)));
    }
    for i in 0..8 {
        if s.reg[i] != d.vm.reg[i] {
            return Some((
                "reg".into(),
                format!("R{} = x{:04X}, reference x{:04X}", i, s.reg[i], d.vm.reg[i]),
            ));
        }
    }
    if s.cc != d.vm.cc {
        return Some(("cc".into(), format!("CC {:03b}, reference {:03b}", s.cc, d.vm.cc)));
    }
    let md = model_diff(d, init);
    if s.mem_diff != md {
        let show = |v: &Vec<(u16, u16)>| {
            v.iter()
                .take(6)
                .map(|(a, w)| format!("x{:04X}=x{:04X}", a, w))
                .collect::<Vec<_>>()
                .join(",")
        };
        return Some((
            "mem".into(),
            format!("memory changes since load [{}], reference [{}]", show(&s.mem_diff), show(&md)),
        ));
    }
    None
}

fn cmp_prompt(s: &Snap, d: &RefDbg, init: &[u16; 0x10000], out_normal: &str) -> Option<(String, String)> {
    if let Some(x) = cmp_state(s, d, init, true) {
        return Some(x);
    }
    if s.fetches != d.executed {
        return Some((
            "count".into(),
            format!("{} instructions executed so far, reference {}", s.fetches, d.executed),
        ));
    }
    let real_bps: Vec<u16> = s.bps.iter().map(|b| b.0).collect();
    if real_bps != d.bps {
        return Some((
            "breakpoints".into(),
            format!("breakpoint list {:04X?}, reference {:04X?}", real_bps, d.bps),
        ));
    }
    if out_normal.get(..s.out_len) != Some(d.vm.out.as_str()) {
        return Some((
            "out".into(),
            format!(
                "program output so far {:?}, reference {:?}",
                out_normal.get(..s.out_len).unwrap_or("?"),
                d.vm.out
            ),
        ));
    }
    if s.input_taken != d.vm.input_taken {
        return Some((
            "input".into(),
            format!("{} input bytes consumed, reference {}", s.input_taken, d.vm.input_taken),
        ));
    }
    None
}

fn end_name(end: &Result<(), Abort>) -> String {
    match end {
        Ok(()) => "run() returned".into(),
        Err(a) => a.short(),
    }
}

/// Check a finished session against the model. `cmds[i]` is the command whose text was line `i`
/// of the script (all of them valid commands); end of script acts as `quit`.
#[allow(clippy::too_many_arguments)]
pub fn verify(
    sess: &Session,
    raw: &[u16],
    breaks: &[u16],
    stack: bool,
    cmds: &[Cmd],
    input: &[u8],
    model_fuel: u64,
    variant: u32,
) -> Result<Stats, Mismatch> {
    let mut stats = Stats::default();
    let mut vm = RefVm::load(raw, stack).expect("loadable image");
    vm.input = input.iter().copied().collect();
    vm.variant = variant;
    let breaks: Vec<u16> = breaks.iter().map(|b| raw[0].wrapping_add(*b)).collect();
    let mut model = RefDbg::new(vm, &breaks, model_fuel);
    let init = &sess.init_mem;
    let out = &sess.obs.out_normal;

    let mut script: Vec<Cmd> = cmds.to_vec();
    script.push(Cmd::Quit); // end of input
    // index of the prompt at which command `ci` is read: rejected lines do not produce a new prompt
    let mut si = 0usize;
    for (ci, cmd) in script.iter().enumerate() {
        let mm = |aspect: String, what: String| Mismatch {
            aspect,
            what,
            at_command: ci,
        };
        if let Cmd::Rejected(_) = cmd {
            // consumed inside the same prompt as the next accepted command
            continue;
        }
        let rejected_before = script[..ci].iter().rev().take_while(|c| matches!(c, Cmd::Rejected(_))).count();
        // the debugger must be at a prompt, about to read command ci
        let Some(snap) = sess.snaps.get(si) else {
            return Err(mm(
                "session-ended-early".into(),
                format!(
                    "session ended ({}) before reading command #{} `{}`; {} prompts seen",
                    end_name(&sess.obs.end),
                    ci,
                    cmd.text(0),
                    sess.snaps.len()
                ),
            ));
        };
        if let Some((a, w)) = cmp_prompt(snap, &model, init, out) {
            return Err(mm(a, format!("at the prompt before command #{} `{}`: {}", ci, cmd.text(0), w)));
        }
        if snap.commands_read != ci - rejected_before {
            return Err(mm(
                "command-consumption".into(),
                format!(
                    "{} command lines consumed before the prompt for command #{} (expected {}): a valid command was rejected or a malformed one accepted",
                    snap.commands_read,
                    ci,
                    ci - rejected_before
                ),
            ));
        }
        // breakpoint list invariant
        if snap.bps.windows(2).any(|w| w[0].0 >= w[1].0) {
            return Err(mm(
                "breakpoints-unsorted".into(),
                format!("breakpoint list not strictly increasing: {:04X?}", snap.bps),
            ));
        }
        stats.prompts_checked += 1;
        if cmd.is_resuming() {
            stats.resumes += 1;
        }
        let branches = model.apply(cmd, stack);
        let mut chosen = None;
        let mut first_err: Option<(String, String)> = None;
        for br in branches {
            let verdict: Option<(String, String)> = match &br.after {
                After::Prompt => match sess.snaps.get(si + 1) {
                    None => Some((
                        "no-pause".into(),
                        format!(
                            "after `{}` the reference pauses at x{:04X} after {} instruction(s), the session instead ended with {}",
                            cmd.text(0),
                            br.dbg.vm.pc,
                            br.executed,
                            end_name(&sess.obs.end)
                        ),
                    )),
                    Some(next) => cmp_prompt(next, &br.dbg, init, out)
                        .map(|(a, w)| (a, format!("after `{}` (reference executes {} instruction(s)): {}", cmd.text(0), br.executed, w))),
                },
                After::Discard(why) => {
                    stats.discarded = Some(why.to_string());
                    return Ok(stats);
                }
                After::Fuel => {
                    stats.discarded = Some("model fuel".into());
                    return Ok(stats);
                }
                terminal => {
                    // session must be over: no further prompt
                    if sess.snaps.len() > si + 1 {
                        Some((
                            "spurious-pause".into(),
                            format!(
                                "after `{}` the reference session is over ({:?}) but the debugger paused again at x{:04X}",
                                cmd.text(0),
                                terminal,
                                sess.snaps[si + 1].pc
                            ),
                        ))
                    } else {
                        cmp_end(sess, &br.dbg, terminal, init)
                    }
                }
            };
            match verdict {
                None => {
                    chosen = Some(br);
                    break;
                }
                Some(e) => {
                    if first_err.is_none() {
                        first_err = Some(e);
                    }
                }
            }
        }
        let Some(br) = chosen else {
            let (a, w) = first_err.unwrap();
            return Err(mm(a, w));
        };
        match br.reading {
            Reading::A => stats.ambiguous.0 += 1,
            Reading::B => stats.ambiguous.1 += 1,
            Reading::Only => {}
        }
        if cmd.is_resuming() {
            stats.classes.push(format!(
                "{}:{}",
                match cmd {
                    Cmd::Step => "step",
                    Cmd::StepInto(_) => "si",
                    Cmd::StepOut => "so",
                    _ => "continue",
                },
                if br.executed == 0 { "refused" } else { "ran" }
            ));
        }
        stats.executed += br.executed;
        let over = br.after != After::Prompt;
        if over {
            stats.classes.push(format!(
                "end:{}",
                match &br.after {
                    After::ProcessExit(c) => format!("process_exit_{}", c),
                    After::ExitCommand => "exit_command".into(),
                    After::Detached(s) => format!("detached_{}", s.name()),
                    _ => "?".into(),
                }
            ));
        }
        model = br.dbg;
        if over {
            return Ok(stats);
        }
        si += 1;
    }
    Ok(stats)
}

fn cmp_end(sess: &Session, d: &RefDbg, after: &After, init: &[u16; 0x10000]) -> Option<(String, String)> {
    let (want, pc_matters): (Result<(), i32>, bool) = match after {
        After::ProcessExit(c) => (Err(*c), true),
        After::ExitCommand => (Ok(()), true),
        After::Detached(stop) => match stop {
            Stop::Halt => (Ok(()), false),
            Stop::EndFfff => (Ok(()), true),
            Stop::ExcLow | Stop::ExcHigh => (Err(0xEE), true),
            Stop::Exit(c) => (Err(*c), true),
            Stop::Fuel | Stop::Discard(_) => return None,
        },
        _ => return None,
    };
    match (&want, &sess.obs.end) {
        (Ok(()), Ok(())) => {}
        (Err(c), Err(Abort::Exit(r))) if c == r => {}
        (w, r) => {
            return Some((
                "end".into(),
                format!(
                    "session ended with {}, reference: {:?} ({})",
                    end_name(r),
                    after,
                    match w {
                        Ok(()) => "normal return".to_string(),
                        Err(c) => format!("exit status {}", c),
                    }
                ),
            ))
        }
    }
    if let Some((a, w)) = cmp_state(&sess.fin, d, init, pc_matters) {
        return Some((format!("final-{}", a), format!("final state: {}", w)));
    }
    if sess.obs.out_normal != d.vm.out {
        return Some((
            "final-out".into(),
            format!("program output {:?}, reference {:?}", sess.obs.out_normal, d.vm.out),
        ));
    }
    if sess.obs.input_taken != d.vm.input_taken {
        return Some((
            "final-input".into(),
            format!("{} input bytes consumed, reference {}", sess.obs.input_taken, d.vm.input_taken),
        ));
    }
    None
}

/// Trace invariant (C11): an instruction at a breakpointed address is only ever fetched directly
/// after a prompt at that address. Needs `keep_trace`.
pub fn breakpoint_trace_invariant(sess: &Session) -> Option<String> {
    for j in 0..sess.snaps.len() {
        let lo = sess.snaps[j].fetches as usize;
        let hi = sess.snaps.get(j + 1).map(|s| s.fetches as usize);
        let Some(hi) = hi else {
            break; // after the last prompt the debugger is detached or the session is over
        };
        // breakpoint set in force during this segment = the list seen at the next prompt
        let set: Vec<u16> = sess.snaps[j + 1].bps.iter().map(|b| b.0).collect();
        for i in lo..hi.min(sess.obs.trace.len()) {
            let (pc, _) = sess.obs.trace[i];
            if i > lo && set.contains(&pc) {
                return Some(format!(
                    "instruction at breakpoint x{:04X} was fetched (fetch #{}) without a pause before it; the resuming command was read at prompt #{} (PC x{:04X})",
                    pc, i, j, sess.snaps[j].pc
                ));
            }
        }
    }
    None
}

pub fn session_json(text: &str, script: &[String], stack: bool, input: &[u8]) -> J {
    J::obj(vec![
        ("source", J::s(text)),
        ("script", J::A(script.iter().map(J::s).collect())),
        ("stack_feature", J::B(stack)),
        ("input", J::A(input.iter().map(|b| J::I(*b as i64)).collect())),
    ])
}

// ---------------------------------------------------------------- shared case runner

use crate::refvm::variant;
use crate::util::CaseOut;

pub struct Checked {
    pub sess: Option<Session>,
    pub stats: Option<Stats>,
}

pub const MODEL_FUEL: u64 = 20_000;
pub const TICK_FUEL: u64 = 4 * MODEL_FUEL + 2_000;

thread_local! {
    static FUEL_SCALE: std::cell::Cell<u64> = const { std::cell::Cell::new(1) };
}

/// Multiply the logical fuel (model instructions, run-loop iterations) of the sessions verified on
/// this case thread: for the few programs that run for more than 2^16 instructions on purpose.
pub fn case_fuel_scale(k: u64) {
    FUEL_SCALE.with(|c| c.set(k.max(1)));
}

fn model_fuel() -> u64 {
    MODEL_FUEL * FUEL_SCALE.with(|c| c.get())
}

fn tick_fuel() -> u64 {
    4 * model_fuel() + 2_000
}

/// Render the script with per-command spelling variety.
pub fn script_lines(cmds: &[Cmd], salt: u64) -> Vec<String> {
    cmds.iter()
        .enumerate()
        .map(|(i, c)| c.text(crate::util::mix64(salt ^ (i as u64 * 7919))))
        .collect()
}

/// Run one session and check it against the model; violations are filed under `prop`.
/// Returns the session (for extra, property-specific checks) and the model statistics.
#[allow(clippy::too_many_arguments)]
pub fn run_and_verify(
    out: &mut CaseOut,
    prop: &str,
    case: u64,
    text: &str,
    stack: bool,
    cmds: &[Cmd],
    lines: &[String],
    sep: &str,
    input: &[u8],
    keep_trace: bool,
    breaks: &[u16],
) -> Checked {
    // "mix": `;` and newline alternate irregularly inside one script
    let script = if sep == "mix" {
        let mut s = String::new();
        for (k, l) in lines.iter().enumerate() {
            if k > 0 {
                s.push(if crate::util::mix64(case ^ (k as u64 * 0x9E37)) % 3 == 0 { ';' } else { '\n' });
            }
            s.push_str(l);
        }
        s
    } else {
        lines.join(sep)
    };
    let sess = match run_session(text, stack, &script, input, tick_fuel(), keep_trace) {
        Ok(s) => s,
        Err(o) => {
            out.inconclusive = Some(format!("program for the session not assembled ({})", o.class()));
            return Checked {
                sess: None,
                stats: None,
            };
        }
    };
    let raw = sess.image.raw();
    let detail = |extra: Vec<(&str, J)>| {
        let mut d = match session_json(text, lines, stack, input) {
            J::O(p) => p,
            _ => unreachable!(),
        };
        d.push(("separator".into(), J::s(sep)));
        d.push(("session_end".into(), J::s(end_name(&sess.obs.end))));
        d.push(("prompts_seen".into(), J::I(sess.snaps.len() as i64)));
        d.push(("instructions_executed".into(), J::I(sess.obs.fetches as i64)));
        d.push(("run_loop_iterations".into(), J::I(sess.obs.ticks as i64)));
        for (k, v) in extra {
            d.push((k.to_string(), v));
        }
        J::O(d)
    };
    if matches!(&sess.obs.end, Err(a) if a.is_rti_todo()) {
        out.class("discarded_rti");
        return Checked {
            sess: Some(sess),
            stats: None,
        };
    }
    if let Err(a @ Abort::Panic { .. }) = &sess.obs.end {
        out.violate(
            format!("{}/panic/{}", prop, a.panic_file()),
            case,
            format!("debugger session panicked: {}", a.short()),
            detail(vec![]),
        );
        return Checked {
            sess: Some(sess),
            stats: None,
        };
    }
    // admissible ISA variants (R7 after TRAP, non-ASCII input byte)
    let mut result = None;
    let mut first: Option<Mismatch> = None;
    for v in [0, variant::TRAP_R7, variant::NONASCII_RAW, variant::TRAP_R7 | variant::NONASCII_RAW] {
        match verify(&sess, &raw, breaks, stack, cmds, input, model_fuel(), v) {
            Ok(stats) => {
                result = Some(stats);
                break;
            }
            Err(m) => {
                if first.is_none() {
                    first = Some(m);
                }
            }
        }
    }
    match result {
        Some(stats) => Checked {
            sess: Some(sess),
            stats: Some(stats),
        },
        None => {
            let m = first.unwrap();
            let spun = matches!(sess.obs.end, Err(Abort::Fuel));
            let key = if spun {
                format!("{}/no-progress/{}", prop, m.aspect)
            } else {
                format!("{}/{}", prop, m.aspect)
            };
            let what = if spun {
                format!(
                    "run loop used up its {} iterations ({} instructions executed, {} commands read): {}",
                    tick_fuel(),
                    sess.obs.fetches,
                    sess.obs.commands.len(),
                    m.what
                )
            } else {
                m.what
            };
            out.violate(key, case, what, detail(vec![("at_command", J::I(m.at_command as i64))]));
            Checked {
                sess: Some(sess),
                stats: None,
            }
        }
    }
}
