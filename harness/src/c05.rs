//! C05 — the assembler is total: any text yields an image or a diagnostic.
//!
//! Monitor: `catch_unwind` with panic-location capture around the whole public assemble path and
//! around rendering the returned diagnostic; span check of every labelled span; a wall-clock
//! watchdog nominates non-terminating inputs for a CPU-limited re-run (driver).

use crate::exec::{assemble_fresh, AsmOutcome};
use crate::refasm::*;
use crate::util::{hash_bytes, CaseOut, Collector, Rng, J};
use crate::Cfg;

pub const FLOORS: &[&str] = &[
    "mut:token_delete", "mut:token_dup", "mut:token_swap", "mut:token_replace", "mut:char",
    "mut:multibyte", "mut:prefix", "mut:none", "mb_after:x", "mb_after:0x", "mb_after:#",
    "mb_after:.", "mb_after:r", "mb_after:quote", "mb_after:other", "operand_is:directive",
    "operand_is:break", "operand_is:string", "accepted", "rejected", "size:small", "operand_is:number_beyond_32_bits",
    "line_starts_with:number_beyond_32_bits", "mut:invisible_first_char_short_file", "mut:string_ending_in_an_escape",
];

const MB: &[&str] = &["\u{e9}", "\u{2713}", "\u{1F34B}", "\u{0301}", "\u{a0}", "\u{3000}", "\u{ff10}",
    // characters whose lower- or upper-case form has another UTF-8 length (Kelvin, Ohm, dotted I, capital sharp s, Angstrom, sharp s, 'n, j-caron)
    "\u{212a}", "\u{2126}", "\u{130}", "\u{1e9e}", "\u{212b}", "\u{df}", "\u{149}", "\u{1f0}"];

/// Replacement tokens of every kind, including directives *with* their operand and `.break`.
const TOKEN_POOL: &[(&str, &str)] = &[
    ("r0", "reg"), ("R7", "reg"), ("r8", "label"), ("r01", "label"),
    ("lab", "label"), ("Loop", "label"), ("x", "label"), ("xyz", "label"), ("0", "label"), ("12", "label"),
    ("#5", "lit"), ("#-1", "lit"), ("#0", "lit"), ("#65535", "lit"), ("#-32768", "lit"), ("#65536", "lit"),
    ("#", "badlit"), ("#-", "badlit"), ("#+3", "lit"), ("#1a", "badlit"), ("#--1", "badlit"),
    ("x10", "lit"), ("xFFFF", "lit"), ("x-1", "lit"), ("0x3000", "lit"), ("X7f", "lit"), ("x10000", "badlit"),
    ("0x", "label"), ("x-", "label"), ("x+1", "lit"), ("0x-8001", "label"),
    ("\"str\"", "string"), ("\"\"", "string"), ("\"a\\\"b\"", "string"), ("\"open", "badstring"),
    ("\"esc\\", "badstring"), ("\"caf\u{e9}\"", "string"),
    (".fill x1", "directive"), (".blkw 2", "directive"), (".stringz \"a\"", "directive"),
    (".fill", "directive"), (".blkw", "directive"), (".stringz", "directive"), (".blkw #-1", "directive"),
    (".break", "break"), (".orig x3000", "orig"), (".orig", "orig"), (".end", "end"), (".bogus", "baddir"), (".", "baddir"),
    ("add", "instr"), ("AND", "instr"), ("not", "instr"), ("br", "instr"), ("brnzp", "instr"), ("jsr", "instr"),
    ("ld", "instr"), ("ldr", "instr"), ("str", "instr"), ("ret", "instr"), ("rti", "instr"), ("jmp", "instr"),
    ("push", "instr"), ("call", "instr"), ("rets", "instr"), ("pop", "instr"), ("lea", "instr"),
    // hex literals with a minus sign, around the most negative value and beyond it
    ("x-8000", "lit"), ("0X-8000", "lit"), ("x-7FFF", "lit"), ("x-8001", "label"), ("x-FFFF", "label"), ("x-FFF1", "label"), ("x-+4", "label"), ("x-0", "lit"), ("#-32768", "lit"),
    // mnemonics with a letter too many, repeated or out of order: labels
    ("brnn", "label"), ("brzz", "label"), ("brnzpp", "label"), ("brpnp", "label"), ("BRNN", "label"), ("brzn", "label"), ("brpz", "label"), ("brpzn", "label"),
    ("brr", "label"), ("addd", "label"), ("nott", "label"), ("rett", "label"), ("jsrrr", "label"), ("ldii", "label"), ("haltt", "label"), ("retss", "label"), ("pushh", "label"),
    ("trap", "trap"), ("halt", "trap"), ("puts", "trap"), ("getc", "trap"), ("reg", "trap"),
    ("; comment", "comment"), (";", "comment"), ("@", "unknown"), ("$1", "unknown"), ("'c'", "unknown"),
    ("\u{e9}", "unknown"), ("-5", "unknown"), ("+", "unknown"), ("[r0]", "unknown"), ("\0", "unknown"),
    // magnitudes at and beyond every integer width a parser might pass through
    ("65536", "bignum"), ("4294967295", "bignum"), ("4294967296", "bignum"), ("99999999999", "bignum"),
    ("18446744073709551616", "bignum"), ("340282366920938463463374607431768211456", "bignum"), ("00000000000000000000012", "bignum"),
    ("#4294967296", "bignum"), ("#-2147483649", "bignum"), ("#18446744073709551615", "bignum"), ("x100000000", "bignum"),
    ("xFFFFFFFFFFFFFFFFF", "bignum"), ("x-80000000", "bignum"), ("-99999999999", "bignum"), ("r99999999999", "bignum"),
];

const CHAR_POOL: &[char] = &[
    ' ', '\t', '\n', '\r', ',', ':', ';', '"', '\\', '.', '#', 'x', 'X', '0', '1', '7', '8', '9', 'r',
    'R', 'a', 'f', 'g', 'z', '_', '-', '+', '@', '\0', '\u{7f}', '\u{1b}', '\u{e9}', '\u{2713}',
    '\u{1F34B}', '\u{feff}', '\u{85}', '\u{2028}', '\u{212a}', '\u{130}', '\u{2126}', '\u{df}', '/', '*', '(', ')', '%', '\'', '\x0c', '\x0b',
];

fn token_spans(text: &str) -> Vec<(usize, usize)> {
    // tokens as the documentation describes them: separated by whitespace, ',' and ':';
    // strings and comments are kept whole
    let mut spans = Vec::new();
    let b: Vec<(usize, char)> = text.char_indices().collect();
    let mut i = 0;
    while i < b.len() {
        let (pos, c) = b[i];
        if c.is_ascii_whitespace() || c == ',' || c == ':' {
            i += 1;
            continue;
        }
        let start = pos;
        if c == ';' {
            while i < b.len() && b[i].1 != '\n' {
                i += 1;
            }
        } else if c == '"' {
            i += 1;
            while i < b.len() && b[i].1 != '"' && b[i].1 != '\n' {
                if b[i].1 == '\\' {
                    i += 1;
                }
                i += 1;
            }
            i = (i + 1).min(b.len());
        } else {
            while i < b.len() && !(b[i].1.is_ascii_whitespace() || b[i].1 == ',' || b[i].1 == ':') {
                i += 1;
            }
        }
        let end = if i < b.len() { b[i].0 } else { text.len() };
        spans.push((start, end));
    }
    spans
}

struct Mutated {
    text: String,
    classes: Vec<String>,
}

fn mutate(base: &str, rng: &mut Rng) -> Mutated {
    let mut text = base.to_string();
    let mut classes = Vec::new();
    let n_mut = match rng.below(10) {
        0 => 0,
        1..=6 => 1,
        7 | 8 => 2,
        _ => 3 + rng.below(4),
    };
    if n_mut == 0 {
        classes.push("mut:none".to_string());
    }
    for _ in 0..n_mut {
        let toks = token_spans(&text);
        match rng.below(9) {
            0 if !toks.is_empty() => {
                let (s, e) = *rng.pick(&toks);
                text.replace_range(s..e, "");
                classes.push("mut:token_delete".into());
            }
            1 if !toks.is_empty() => {
                let (s, e) = *rng.pick(&toks);
                let t = text[s..e].to_string();
                text.insert_str(e, &format!(" {}", t));
                classes.push("mut:token_dup".into());
            }
            2 if toks.len() >= 2 => {
                let a = rng.below(toks.len() as u64) as usize;
                let b = rng.below(toks.len() as u64) as usize;
                let (a, b) = (a.min(b), a.max(b));
                if a != b {
                    let (s1, e1) = toks[a];
                    let (s2, e2) = toks[b];
                    let t1 = text[s1..e1].to_string();
                    let t2 = text[s2..e2].to_string();
                    text.replace_range(s2..e2, &t1);
                    text.replace_range(s1..e1, &t2);
                }
                classes.push("mut:token_swap".into());
            }
            3 | 4 if !toks.is_empty() => {
                let ti = rng.below(toks.len() as u64) as usize;
                let (s, e) = toks[ti];
                let (rep, kind) = *rng.pick(TOKEN_POOL);
                // is the replaced token an operand (not first on its line)?
                let line_start = text[..s].rfind('\n').map(|p| p + 1).unwrap_or(0);
                let is_operand = !text[line_start..s].trim().is_empty();
                text.replace_range(s..e, rep);
                classes.push("mut:token_replace".into());
                if is_operand {
                    match kind {
                        "directive" => classes.push("operand_is:directive".into()),
                        "break" => classes.push("operand_is:break".into()),
                        "string" | "badstring" => classes.push("operand_is:string".into()),
                        "bignum" => classes.push("operand_is:number_beyond_32_bits".into()),
                        _ => {}
                    }
                } else if kind == "bignum" {
                    classes.push("line_starts_with:number_beyond_32_bits".into());
                }
            }
            5 => {
                // character-level mutation
                let mut chars: Vec<char> = text.chars().collect();
                let c = *rng.pick(CHAR_POOL);
                if chars.is_empty() || rng.bool() {
                    let at = rng.below(chars.len() as u64 + 1) as usize;
                    chars.insert(at, c);
                } else if rng.bool() {
                    let at = rng.below(chars.len() as u64) as usize;
                    chars[at] = c;
                } else {
                    let at = rng.below(chars.len() as u64) as usize;
                    chars.remove(at);
                }
                text = chars.into_iter().collect();
                classes.push("mut:char".into());
            }
            6 | 7 if !toks.is_empty() => {
                // multi-byte character before / inside / right after a token
                let (s, e) = *rng.pick(&toks);
                let mb = rng.s(MB);
                let tok = text[s..e].to_string();
                let lower = tok.to_ascii_lowercase();
                // "right after the prefix" positions
                let (at, after) = if lower.starts_with("0x") && rng.bool() {
                    (s + 2, "0x")
                } else if lower.starts_with('x') && rng.bool() {
                    (s + 1, "x")
                } else if lower.starts_with('#') && rng.bool() {
                    (s + 1, "#")
                } else if lower.starts_with('.') && rng.bool() {
                    (s + 1, ".")
                } else if lower.starts_with('r') && rng.bool() {
                    (if rng.bool() { s + 1 } else { (s + 2).min(e) }, "r")
                } else if lower.starts_with('"') && rng.bool() {
                    (s + 1, "quote")
                } else {
                    // any char boundary in s..=e
                    let bounds: Vec<usize> = (s..=e).filter(|p| text.is_char_boundary(*p)).collect();
                    (*rng.pick(&bounds), "other")
                };
                if text.is_char_boundary(at) {
                    text.insert_str(at, mb);
                    classes.push("mut:multibyte".into());
                    classes.push(format!("mb_after:{}", after));
                }
            }
            _ => {
                // lone prefixes / odd ends
                let extra = rng.s(&[
                    "x", "0x", "#", ".", "r", "\"", "#-", "x-", "0", "R", "X", "0X", "\"\\", ";", "\\", "lab",
                    "lab:", "x\u{e9}", "0x\u{e9}", "#\u{e9}", ".\u{e9}", "r0\u{e9}", "r\u{e9}", "\u{e9}", "r7;x",
                ]);
                match rng.below(3) {
                    0 => text.push_str(extra),
                    1 => {
                        text.push('\n');
                        text.push_str(extra);
                    }
                    _ => {
                        let bounds: Vec<usize> = (0..=text.len()).filter(|p| text.is_char_boundary(*p)).collect();
                        let at = *rng.pick(&bounds);
                        text.insert_str(at, &format!(" {} ", extra));
                    }
                }
                classes.push("mut:prefix".into());
            }
        }
    }
    Mutated { text, classes }
}

/// Hand-written seeds for inputs the grammar generator would not produce.
const SEEDS: &[&str] = &[
    "", " ", "\n", ";", "lab", "lab:", "lab lab2 add r0 r0 r0", "add", "add r0", "add r0 r0", "add r0 r0 .fill x1",
    "add r0 r0 .break", ".orig", ".orig r0", ".orig x3000 x3000", ".fill", ".blkw", ".stringz", ".stringz x1",
    ".stringz \"abc", ".stringz \"abc\\", "br", "br r0", "br \"s\"", "br .break", "ld r0 .stringz \"x\"",
    "trap", "trap r1", "trap lab", "halt halt", ".end", ".end add", "x\u{e9}", "0x\u{e9}", "#\u{e9}", "r0\u{e9}",
    "r\u{e9}", ".\u{e9}", "\u{e9}", "\u{1F34B} add r0 r0 r0", "add r0 r0 r0 \u{1F34B}", "lab\u{e9} add r0 r0 r0",
    "\"\u{e9}", "\"", "\\", "r7;x", "x10;c", "#5;c", "add r0,r0,#5;c", "lab .break", ".break .break", ".break",
    "r8", "r9", "R8", "R9", "add r8 r9 r0", "add r0 r0 r8", "r8 add r0 r0 r0", "r9: halt", "not r0,r9", "r8,", "jmp r8", "R9 .fill x1", ".break;c", ".end;x", "halt;c",
    "lab .orig x3000", ".orig x3000 lab", "lab .end", "push r0", "call x", "rets", "pop",
    ".blkw #-1", ".blkw x0", ".fill #-32768", ".orig #-1", "br #-2", "br #-257", "jsr #-1025", "ldr r0 r0 #-33",
    "x12345", ".orig x3000000", "a 0x123456", "#99999", "x-12345", "0xFFFFF add r0 r0 r0", ".stringz \"caf\u{e9}\\n\"",
    ".stringz \"\u{65e5}\u{672c}\\n\"", "s .stringz \"ok \u{1F44D} \\\"yes\\\"\"", ".stringz \"\u{e9}\\\\\"", ".fill ; x1234", ".fill;todo", ".blkw ; c",
    "a\0b", "\0", "add r0\0 r0 r0", "r0", "R7 R7", "#1", "x1", "\"s\"", ", , ,", ":::", "lab: :lab2",
    // the second definition of a label whose first one sits on a line that emits nothing
    "start .orig x3000\nstart lea r0 start\nhalt", "loop .break\nloop add r0 r0 #1", "a\n.break\na halt", "e .end\ne halt",
    "z .orig x3000\n.break\nz .break\nz halt", "dup\ndup halt", "dup .fill x1\ndup .fill x2\ndup .fill x3",
    ".fill x-8000", "add r0, r0, x-8000", ".fill 0X-8000\n.fill x-8001", "ld r0 x-FFFF", ".orig x-8000", ".blkw x-8000",
    "brnn", "brzz add r0 r0 r0", "br brnzpp", "brpnp .fill x1", "BRNN", "ld r0 brzz", "brnzpp\nbrnzpp", "jsr addd",
    // text after `.end`: long lines, multi-byte characters at every column around the places where a message might cut them
    ".end\nabcdefghijklmnopqrstuv\u{e9}xyz and more", ".end\nabcdefghijklmnopqrstuvw\u{e9}xyz", ".end\n0123456789012345678901\u{20ac}", ".end\n\u{1F34B}\u{1F34B}\u{1F34B}\u{1F34B}\u{1F34B}\u{1F34B}\u{1F34B} lemons",
    "halt\n.end\nthis line is longer than twenty-four bytes caf\u{e9}", ".END ; c\n          abcdefghijklmnopqrstuv\u{e9}",
    // a byte order mark (and other invisible characters) in front of very short files
    "\u{feff}", "\u{feff}halt", "\u{feff}r1\n", "\u{feff}ab", "\u{feff}ab;\u{2192}\nhalt\n", "\u{feff}x30", "\u{feff}#1", "\u{feff}.orig x3000", "\u{feff}\"s",
    "\u{feff}; c", "\u{feff}\nhalt", "\u{feff}lab halt\nbr lab", "\u{200b}halt", "\u{feff}\u{feff}halt", "halt\u{feff}", "\u{feff}add r0 r0 \u{e9}",
    // string literals ended by the end of the file, after other text
    "halt\ns .stringz \"no end", "lea r0 s\ns .stringz \"caf\u{e9}", "add r0 r0 #1 \"", ".stringz \"a\\", "x .stringz \"\r",
];

pub fn run(cfg: &Cfg, col: &mut Collector) {
    let n = cfg.n(40_000, 1_500_000, 60);
    let seed = cfg.seed;
    crate::util::run_cases_plain(n, cfg.only_case, cfg.threads, col, move |i| one_case(seed, i));
    col.extra.push(("inputs".into(), J::I(n as i64)));
    col.extra.push(("token_pool_size".into(), J::I(TOKEN_POOL.len() as i64)));
}

pub fn gen_text(rng: &mut Rng, i: u64) -> (String, Vec<String>) {
    if (i as usize) < SEEDS.len() * 2 {
        // each seed once as is, once mutated
        let s = SEEDS[i as usize / 2];
        if i % 2 == 0 {
            return (s.to_string(), vec!["mut:none".into(), "seed".into()]);
        }
        let m = mutate(s, rng);
        return (m.text, m.classes);
    }
    let o = GenOpts {
        stack: rng.bool(),
        max_stmts: if rng.chance(1, 20) { 60 } else { 12 },
        ..Default::default()
    };
    let p = gen_program(rng, &o);
    let lay = if rng.bool() { Layout::canonical() } else { Layout::random(rng) };
    let base = render(&p, &lay, rng).text;
    let mut m = mutate(&base, rng);
    if rng.chance(1, 25) {
        // a string literal that ends in (or shortly behind) a backslash escape of every kind, known or not
        let c = *rng.pick(&['x', 'u', 'U', '0', '1', '7', 'a', 'b', 'e', 'f', 'n', 'r', 't', 'v', 'N', 'c', 'd', 'o', 'X', '{', '\'', '"', '\\', ' ', '\u{e9}']);
        let tail = *rng.pick(&["", "4", "41", "7", "b\u{2192}", "{", "{41}", "\u{e9}", "G", "g1", " ", "\\"]);
        m.text = format!("{}.stringz \"{}\\{}{}\"{}", rng.s(&["", "s ", "lea r0 s\ns "]), rng.s(&["", "C:\\\\tmp", "bell", "a"]), c, tail, rng.s(&["", "\n", "\nhalt\n"]));
        m.classes.push("mut:string_ending_in_an_escape".into());
    }
    if rng.chance(1, 30) {
        // an invisible first character, and a file that ends right after its first token or two
        let keep = 1 + rng.below(9) as usize;
        let head: String = m.text.trim_start().chars().take(keep).collect();
        m.text = format!("{}{}", rng.s(&["\u{feff}", "\u{200b}", "\u{feff}\u{feff}", "\u{a0}"]), head);
        m.classes.push("mut:invisible_first_char_short_file".into());
    }
    (m.text, m.classes)
}

fn one_case(seed: u64, i: u64) -> CaseOut {
    let mut rng = Rng::for_case(seed, "C05", i);
    let (text, classes) = gen_text(&mut rng, i);
    let stack = rng.chance(2, 3);
    let mut out = check_text(&text, stack, i, "C05");
    for c in classes {
        out.class(c);
    }
    out.class("size:small");
    if i % 4001 == 0 {
        out.sample = Some(J::obj(vec![("source", J::s(&text)), ("stack_feature", J::B(stack))]));
    }
    out
}

/// The totality oracle for one input.
pub fn check_text(text: &str, stack: bool, case: u64, prop: &str) -> CaseOut {
    let mut out = CaseOut::new();
    let t = text.to_string();
    let outcome = std::thread::scope(|s| {
        std::thread::Builder::new()
            .stack_size(8 << 20)
            .spawn_scoped(s, || assemble_fresh(&t, stack))
            .unwrap()
            .join()
    });
    let outcome = match outcome {
        Ok(o) => o,
        Err(_) => {
            out.violate(
                format!("{}/abort", prop),
                case,
                "assembler thread died outside the unwinding guard",
                J::obj(vec![("source", J::s(clip(text))), ("stack_feature", J::B(stack))]),
            );
            return out;
        }
    };
    out.nontrivial = Some(hash_bytes(text.as_bytes()));
    out.class(outcome.class());
    match &outcome {
        AsmOutcome::Ok(_) => {}
        AsmOutcome::Rejected(d) => {
            for (off, len) in &d.labels {
                if off + len > text.len() || *off > text.len() {
                    out.violate(
                        format!("{}/span-outside-source", prop),
                        case,
                        format!(
                            "diagnostic labels bytes {}..{} of a {}-byte source",
                            off,
                            off + len,
                            text.len()
                        ),
                        J::obj(vec![
                            ("source", J::s(clip(text))),
                            ("stack_feature", J::B(stack)),
                            ("diagnostic", J::s(&d.message)),
                        ]),
                    );
                }
            }
            if d.rendered.is_empty() {
                out.violate(
                    format!("{}/empty-diagnostic", prop),
                    case,
                    "diagnostic renders to nothing",
                    J::obj(vec![("source", J::s(clip(text)))]),
                );
            }
        }
        AsmOutcome::Crashed { stage, abort } => {
            out.violate(
                format!("{}/panic/{}", prop, abort.panic_file()),
                case,
                format!("{} during {}", abort.short(), stage),
                J::obj(vec![
                    ("source", J::s(clip(text))),
                    ("source_len", J::I(text.len() as i64)),
                    ("stack_feature", J::B(stack)),
                    ("stage", J::s(*stage)),
                    ("abort", J::s(abort.short())),
                ]),
            );
        }
    }
    out
}

fn clip(s: &str) -> String {
    if s.len() <= 2000 {
        s.to_string()
    } else {
        let mut end = 1000;
        while !s.is_char_boundary(end) {
            end += 1;
        }
        let mut start = s.len() - 600;
        while !s.is_char_boundary(start) {
            start += 1;
        }
        format!("{} ...[{} bytes]... {}", &s[..end], s.len(), &s[start..])
    }
}

// ---------------------------------------------------------------- size extremes

pub const SIZE_FLOORS: &[&str] = &["size:blkw_ffff", "size:long_string", "size:distance_8000", "size:over_64k_statements", "size:literal_offset_far_line", "size:last_line_of_a_full_program", "size:many_comment_lines", "size:many_blank_lines", "size:long_line"];

pub fn size_cases() -> Vec<(String, String)> {
    let mut v: Vec<(String, String)> = Vec::new();
    for n in 1..=3 {
        v.push((format!("size:blkw_ffff x{}", n), ".blkw xFFFF\n".repeat(n) + "halt\n"));
    }
    v.push(("size:blkw_ffff labelled".into(), "a .blkw xFFFF\nb .blkw xFFFF\nld r0 a\nld r0 b\n".into()));
    v.push(("size:long_string".into(), format!(".stringz \"{}\"\nhalt\n", "a".repeat(70_000))));
    v.push((
        "size:long_string escapes".into(),
        format!("lea r0 s\nputs\nhalt\ns .stringz \"{}\"\n", "\\n\u{e9}".repeat(20_000)),
    ));
    for d in [0x7FFEusize, 0x7FFF, 0x8000, 0x8001, 0xFFFE, 0xFFFF] {
        // forward and backward references across d words, padding by .blkw and by real statements
        v.push((format!("size:distance_8000 fwd blkw {:#x}", d), format!("br t\n.blkw x{:X}\nt halt\n", d)));
        v.push((format!("size:distance_8000 back blkw {:#x}", d), format!("t halt\n.blkw x{:X}\nbr t\n", d)));
        v.push((format!("size:distance_8000 jsr {:#x}", d), format!("jsr t\n.blkw x{:X}\nt ret\n", d)));
        v.push((format!("size:distance_8000 lea back {:#x}", d), format!("t .fill x0\n.blkw x{:X}\nlea r1 t\n", d)));
    }
    for d in [0x7FFFusize, 0x8000, 0x8001] {
        let mut s = String::with_capacity(d * 16 + 64);
        s.push_str("ld r0 t\n");
        for _ in 0..d {
            s.push_str("add r0 r0 #1\n");
        }
        s.push_str("t .fill x1\n");
        v.push((format!("size:distance_8000 stmts {:#x}", d), s));
    }
    for n in [65_534usize, 65_535, 65_536, 65_537, 70_000, 131_072] {
        let mut s = String::with_capacity(n * 6 + 64);
        for _ in 0..n {
            s.push_str("halt\n");
        }
        v.push((format!("size:over_64k_statements {}", n), s.clone()));
        let mut l = String::from("first add r0 r0 r0\n");
        l.push_str(&s);
        l.push_str("last br first\n");
        v.push((format!("size:over_64k_statements labelled {}", n), l));
    }
    // literal PC offsets on lines around the 15-bit and 16-bit line-number boundaries
    for pad in [0x7FFCusize, 0x7FFD, 0x7FFE, 0x7FFF, 0x8000, 0xFFFB, 0xFFFC, 0xFFFD, 0xFFFE] {
        for (mn, off) in [("br", 0i32), ("br", 1), ("br", -1), ("br", 255), ("br", -256), ("ld r1", 3), ("jsr", 1023), ("jsr", -1024), ("lea r2", -2)] {
            v.push((
                format!("size:literal_offset_far_line pad {:#x} {} #{}", pad, mn, off),
                format!(".blkw x{:X}\n{} #{}\nhalt\n", pad, mn, off),
            ));
        }
    }
    // ... and as the very last statement of a program of exactly 65535 (and 65534) words
    for pad in [0xFFFDusize, 0xFFFE] {
        for (mn, off) in [("br", 0i32), ("brz", -1), ("ld r1", 3), ("ldi r1", -3), ("lea r2", 0), ("st r3", -256), ("sti r3", 255), ("jsr", 0), ("jsr", -1024)] {
            v.push((
                format!("size:last_line_of_a_full_program pad {:#x} {} #{}", pad, mn, off),
                format!(".blkw x{:X}\n{} #{}\n", pad, mn, off),
            ));
        }
        for mn in ["br", "ld r1", "lea r2", "st r3", "jsr"] {
            v.push((
                format!("size:last_line_of_a_full_program pad {:#x} {} label", pad, mn),
                format!(".blkw x{:X}\nt {} t\n", pad, mn),
            ));
            v.push((
                format!("size:last_line_of_a_full_program pad {:#x} {} label before", pad, mn),
                format!(".blkw x{:X}\nt .fill x0\n{} t", pad - 1, mn),
            ));
        }
    }
    // a `.break` (and a label in front of one) behind a program that fills every one of the 65535 lines
    v.push(("size:last_line_of_a_full_program break after".into(), ".blkw xFFFF\n.break\n".into()));
    v.push(("size:last_line_of_a_full_program break after stmt".into(), ".blkw xFFFE\nhalt\n.break\n".into()));
    v.push(("size:last_line_of_a_full_program labelled break".into(), "x_ .blkw xFFFF\nlab .break\n".into()));
    v.push(("size:last_line_of_a_full_program break then end".into(), ".orig x0000\n.blkw xFFFF\n.break\n.end\n".into()));
    v.push(("size:last_line_of_a_full_program break before last".into(), ".blkw xFFFE\n.break\nhalt\n".into()));
    // long runs of lines that produce no token for the parser (anything that handles them by
    // recursion instead of iteration runs out of stack), and single lines of extreme length
    v.push(("size:many_comment_lines lf".into(), "; c\n".repeat(200_000) + "halt\n"));
    v.push(("size:many_comment_lines crlf".into(), "; c\r\n".repeat(120_000) + "halt\r\n"));
    v.push(("size:many_comment_lines only".into(), "; nothing else\n".repeat(100_000)));
    v.push(("size:many_comment_lines then truncated".into(), ";\n".repeat(150_000) + "add r0 r0"));
    v.push(("size:many_comment_lines between".into(), "ld r0 t\n".to_string() + &";x\n".repeat(150_000) + "t .fill x1\n"));
    v.push(("size:many_blank_lines".into(), "\n".repeat(300_000) + "halt\n" + &" \t\n".repeat(100_000)));
    v.push(("size:long_line comment".into(), format!(";{}\nhalt\n", "x".repeat(2_000_000))));
    v.push(("size:long_line blanks".into(), format!("add{}r0,r0,#1\nhalt\n", " ".repeat(1_000_000))));
    v.push(("size:long_line commas".into(), format!("add r0{}r0,#1\nhalt\n", ",".repeat(500_000))));
    v.push(("size:over_64k_statements fills".into(), ".fill x1\n".repeat(66_000) + "end_ halt\nbr end_\n"));
    v.push(("size:blkw_ffff then label".into(), ".blkw xFFFF\n.blkw x2\nz halt\nbr z\n".into()));
    v
}

pub fn run_sizes(cfg: &Cfg, col: &mut Collector) {
    let cases = size_cases();
    let n = if cfg.miri { 0 } else { cases.len() as u64 };
    let cases = &cases;
    crate::util::run_cases_plain(n, cfg.only_case, cfg.threads.min(6), col, move |i| {
        let (name, text) = &cases[i as usize];
        let mut out = check_text(text, false, i, "C05");
        out.class(name.split(' ').next().unwrap().to_string());
        out.class(name.clone());
        if i == 0 {
            out.sample = Some(J::obj(vec![("size_case", J::s(name)), ("source_len", J::I(text.len() as i64))]));
        }
        out
    });
}
