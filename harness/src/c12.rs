//! C12 — reset restores the initial machine exactly.
//!
//! Monitor: snapshot at the prompt right after every `reset` against the load-time snapshot taken
//! independently of the debugger (registers, PC, CC, all 65,536 words); `...; reset; quit` against
//! a plain run of the same image (final state and output suffix).

use crate::dbgmon::run_session;
use crate::exec::{build_env, final_state, run_env, Abort, RunCfg};
use crate::progs::{gen_structured, ProgOpts};
use crate::refasm::*;
use crate::util::{hash_bytes, hash_words, CaseOut, Collector, Rng, J};
use crate::Cfg;

pub const FLOORS: &[&str] = &[
    "reset_after_execution", "reset_after_move_reg", "reset_after_move_mem", "reset_after_goto",
    "reset_after_eval_store", "reset_after_program_store", "reset_twice", "reset_then_full_run",
    "store_into_code", "store_into_stack_area", "memory_dirty_before_reset", "output:minimal", "output:decorated",
    "assembly_after_store_into_code", "resumed_under_debugger_after_reset", "reset_while_paused_on_breakpoint",
    "resume_after_reset_compared_with_fresh_session", "reset_after_unfinished_step_over_call", "halt_planted_before_reset", "reset_after_eval_jump", "reset_while_parked_on_a_halt_planted_at_the_origin", "planted_halt_at_the_origin_reached_by_running", "words_exchanged_before_reset", "reset_after_a_long_run", "image_ends_at_fffe", "reset_while_the_program_has_words_on_the_stack", "eval_of_an_extension_mnemonic_without_the_flag_before_reset",
];

const FUEL: u64 = 15_000;

pub fn run(cfg: &Cfg, col: &mut Collector) {
    let n = cfg.n(2500, 60_000, 8);
    let seed = cfg.seed;
    crate::util::run_cases(n, cfg.only_case, cfg.threads, col, move |i| one_case(seed, i));
    col.extra.push(("sessions".into(), J::I(n as i64)));
}

/// A `step` over a call that is cut short inside the subroutine, then `reset`: whatever the debugger
/// remembered about the unfinished step must be gone. Every pause reached by the resuming commands
/// after the reset is compared with the pause a fresh session reaches with the same commands.
fn unfinished_step_case(i: u64, rng: &mut Rng) -> CaseOut {
    let mut out = CaseOut::new();
    let stack = rng.bool();
    let (call, ret) = if stack && rng.bool() { ("call", "rets") } else { ("jsr", "ret") };
    let text = format!(
        "{c} sub\nadd r1 r1 #1\n{c} sub\nadd r1 r1 #2\nhalt\nsub add r2 r2 #1\nadd r2 r2 #1\n{r}\n",
        c = call,
        r = ret
    );
    let inside = 0x3005 + rng.below(3) as u16;
    let mut bp_lines = vec![format!("break add x{:04x}", inside)];
    let mut lines = bp_lines.clone();
    lines.push("step".into()); // over the first call: stops at the breakpoint inside it
    if rng.bool() {
        let l = format!("break remove x{:04x}", inside);
        bp_lines.push(l.clone());
        lines.push(l);
    }
    if rng.chance(1, 3) {
        lines.push("si 1".into());
    }
    lines.push(rng.s(&["reset", "z"]).to_string());
    let reset_at = lines.len();
    let mut resumes = Vec::new();
    for _ in 0..1 + rng.below(3) {
        resumes.push(match rng.below(5) {
            0 => "step".to_string(),
            1 => format!("si {}", 1 + rng.below(4)),
            2 => "step out".to_string(),
            _ => "continue".to_string(),
        });
    }
    lines.extend(resumes.iter().cloned());
    lines.push("quit".into());
    let mut fl = bp_lines.clone();
    fl.extend(resumes.iter().cloned());
    fl.push("quit".into());
    let detail = || J::obj(vec![("source", J::s(&text)), ("script", J::A(lines.iter().map(J::s).collect())), ("fresh_script", J::A(fl.iter().map(J::s).collect())), ("stack_feature", J::B(stack))]);
    let sess = match run_session(&text, stack, &lines.join("\n"), &[], 6 * FUEL, false) {
        Ok(s) => s,
        Err(o) => {
            out.inconclusive = Some(format!("not assembled ({})", o.class()));
            return out;
        }
    };
    if let Err(a @ Abort::Panic { .. }) = &sess.obs.end {
        out.violate(format!("C12/panic/{}", a.panic_file()), i, a.short(), detail());
        return out;
    }
    let t = text.clone();
    let fscript = fl.join("\n");
    let fresh = std::thread::scope(|sc| {
        std::thread::Builder::new().stack_size(8 << 20).spawn_scoped(sc, || run_session(&t, stack, &fscript, &[], 6 * FUEL, false).ok()).ok()?.join().ok()?
    });
    let Some(fresh) = fresh else {
        out.inconclusive = Some("fresh session could not be run".into());
        return out;
    };
    let Some(z) = sess.snaps.iter().find(|s| s.commands_read == reset_at) else { return out };
    out.class("reset_after_unfinished_step_over_call");
    out.class("resume_after_reset_compared_with_fresh_session");
    out.class("reset_while_paused_on_breakpoint");
    for k in 0..resumes.len() {
        let a = sess.snaps.iter().find(|s| s.commands_read == reset_at + k + 1);
        let f = fresh.snaps.iter().find(|s| s.commands_read == bp_lines.len() + k + 1);
        match (a, f) {
            (Some(a), Some(f)) => {
                if a.pc != f.pc || a.reg != f.reg || a.cc != f.cc || a.fetches - z.fetches != f.fetches || a.mem_diff != f.mem_diff {
                    out.violate(
                        "C12/resume-after-reset",
                        i,
                        format!(
                            "after `...; reset` and {:?}: paused at PC x{:04X} after {} instructions, registers {:04X?}; a fresh session pauses at PC x{:04X} after {} instructions, registers {:04X?}",
                            &resumes[..=k], a.pc, a.fetches - z.fetches, a.reg, f.pc, f.fetches, f.reg
                        ),
                        detail(),
                    );
                    return out;
                }
            }
            (None, None) => break,
            _ => {
                out.violate("C12/resume-after-reset", i, format!("after `...; reset` and {:?}: one session has ended, the fresh one has not (or the reverse)", &resumes[..=k]), detail());
                return out;
            }
        }
    }
    out.evals = 1;
    out.nontrivial = Some(hash_bytes(format!("{}|{:?}", text, lines).as_bytes()));
    out
}

fn one_case(seed: u64, i: u64) -> CaseOut {
    let mut out = CaseOut::new();
    let mut rng = Rng::for_case(seed, "C12", i);
    if rng.chance(1, 12) {
        return unfinished_step_case(i, &mut rng);
    }
    let stack = rng.bool();
    // this monitor compares machine state, not debugger text: half of the sessions use the
    // decorated output mode, whose `assembly`/`print` paths differ from the minimal ones
    let minimal = rng.bool();
    crate::exec::case_minimal(minimal);
    out.class(if minimal { "output:minimal" } else { "output:decorated" });
    let origin = if rng.bool() { Some(gen_origin(&mut rng).clamp(0x10, 0xF000)) } else { None };
    let o = ProgOpts {
        stack,
        origin,
        breaks: rng.chance(1, 4),
        tame_endings: true,
        io: true,
        max_sections: 4,
    };
    let mut built = gen_structured(&mut rng, &o);
    // a program that runs for 60,000 instructions, run to its end, reset and run again: the second run is a
    // fresh run however much was executed before (miri: left out, four orders of magnitude slower)
    let long_history = !cfg!(miri) && i % 41 == 13;
    let fuel_scale: u64 = if long_history { 40 } else { 1 };
    if long_history {
        let st = |label: Option<&str>, stmt: Stmt| Item::Stmt { label: label.map(|l| l.to_string()), stmt };
        let mut items: Vec<Item> = match o.origin { Some(v) => vec![Item::Orig(v)], None => vec![] };
        items.extend(vec![
            st(None, Stmt::Ld(1, Target::Label("n".into()))),
            st(Some("lp"), Stmt::AddI(2, 2, 1)),
            st(None, Stmt::AddI(1, 1, -1)),
            st(None, Stmt::Br(1, Target::Label("lp".into()))),
            st(None, Stmt::Alias(0x25)),
            st(Some("n"), Stmt::Fill(20_000 + (i % 7) as i32 * 3_000)),
            Item::End,
        ]);
        built.program = Program { items };
        built.input.clear();
        built.features.clear();
    }
    // a program that takes more from the stack than it put there (the word behind the stack is read: defined,
    // if unusual), reset while something it pushed is still on the stack: the second run finds the stack
    // it found the first time
    let unbalanced_stack = stack && !long_history && i % 17 == 6;
    if unbalanced_stack {
        let st = |label: Option<&str>, stmt: Stmt| Item::Stmt { label: label.map(|l| l.to_string()), stmt };
        let mut items: Vec<Item> = match o.origin { Some(v) => vec![Item::Orig(v)], None => vec![] };
        items.extend(vec![
            st(None, Stmt::AndI(0, 0, 0)),
            st(None, Stmt::AddI(0, 0, 5)),
            st(None, Stmt::Push(0)),
            st(None, Stmt::Push(0)),
            st(None, Stmt::Pop(1)),
            st(None, Stmt::Pop(2)),
            st(None, Stmt::Pop(3)),
            st(None, Stmt::AddR(4, 3, 2)),
            st(None, Stmt::Alias(0x25)),
            Item::End,
        ]);
        built.program = Program { items };
        built.input.clear();
        built.features.clear();
    }
    // without the flag: an `eval` of an extension mnemonic is refused, and the words of opcode 0xD the program runs
    // into after the reset end the run as they do in a fresh one
    let ext_words_without_flag = !stack && !long_history && i % 19 == 7;
    if ext_words_without_flag {
        let st = |label: Option<&str>, stmt: Stmt| Item::Stmt { label: label.map(|l| l.to_string()), stmt };
        let mut items: Vec<Item> = match o.origin { Some(v) => vec![Item::Orig(v)], None => vec![] };
        items.extend(vec![
            st(None, Stmt::AndI(0, 0, 0)),
            st(None, Stmt::AddI(0, 0, 7)),
            st(Some("w"), Stmt::Fill(0xD400)),
            st(None, Stmt::Fill(0xD080)),
            st(None, Stmt::AddR(3, 2, 0)),
            st(None, Stmt::Alias(0x25)),
            Item::End,
        ]);
        built.program = Program { items };
        built.input.clear();
        built.features.clear();
    }
    // input would be consumed before the reset and missing afterwards: programs without input
    for _ in 0..6 {
        if !built.features.contains(&"input") {
            break;
        }
        built = gen_structured(&mut rng, &o);
    }
    if built.features.contains(&"input") {
        out.evals = 0;
        return out;
    }
    // the largest image there is: padded so that its last word is xFFFE and the loader's HALT stands in
    // xFFFF, the last word of memory - part of what was loaded like every other word
    if i % 43 == 29 && !long_history {
        if let Verdict::Accept(pre) = encode(&built.program) {
            let end = pre.origin() as usize + pre.words.len();
            if end < 0xFFFF {
                let at = built.program.items.iter().position(|it| matches!(it, Item::End)).unwrap_or(built.program.items.len());
                built.program.items.insert(at, Item::Stmt { label: None, stmt: Stmt::Blkw((0xFFFF - end) as i32) });
                out.class("image_ends_at_fffe");
            }
        }
    }
    let img = match encode(&built.program) {
        Verdict::Accept(img) => img,
        _ => {
            out.evals = 0;
            return out;
        }
    };
    let lay = if rng.bool() { Layout::canonical() } else { Layout::random(&mut rng) };
    let text = render(&built.program, &lay, &mut rng).text;
    let orig = img.origin();
    let n_words = img.words.len() as u64;
    let in_prog = |rng: &mut Rng| orig.wrapping_add(rng.below(n_words + 1) as u16);

    // ---- history
    let mut lines: Vec<String> = Vec::new();
    let mut tags: Vec<&'static str> = Vec::new();
    // breakpoint commands of the history: a fresh session gets the same ones before it is compared
    let mut bp_lines: Vec<String> = Vec::new();
    let paused_on_breakpoint_history = rng.chance(1, 5);
    if paused_on_breakpoint_history {
        // pause on a run-time breakpoint early in the program, reset right there
        let l = format!("break add x{:04x}", orig.wrapping_add(1 + rng.below(3) as u16));
        bp_lines.push(l.clone());
        lines.push(l);
        lines.push("continue".into());
        tags.push("reset_while_paused_on_breakpoint");
    }
    // a HALT written over the first word while the PC stands on it, a try to run on (refused: parked on a
    // HALT), and the reset right there: the PC does not move, the word under it does
    let halt_at_origin_history = !paused_on_breakpoint_history && i % 9 == 4;
    if halt_at_origin_history {
        if rng.bool() && n_words >= 2 {
            // ... reached by running: a JMP planted behind the origin takes the program back onto it
            lines.push(format!("move r5 x{:04x}", orig));
            lines.push(format!("move x{:04x} xC140", orig.wrapping_add(1)));
            lines.push(format!("goto x{:04x}", orig.wrapping_add(1)));
            tags.push("planted_halt_at_the_origin_reached_by_running");
        }
        lines.push(format!("move x{:04x} xF025", orig));
        lines.push(rng.s(&["continue", "step", "si 2", "continue"]).to_string());
        tags.push("reset_while_parked_on_a_halt_planted_at_the_origin");
    }
    for _ in 0..(if paused_on_breakpoint_history || halt_at_origin_history { 0 } else { 1 + rng.below(9) }) {
        match rng.below(12) {
            0 | 1 => {
                lines.push(rng.s(&["step", "si 3", "si 10", "continue", "si 50", "so"]).to_string());
                tags.push("reset_after_execution");
            }
            2 => {
                lines.push(format!("move r{} x{:04x}", rng.below(8), rng.u16()));
                tags.push("reset_after_move_reg");
            }
            3 | 4 => {
                let a = match rng.below(4) {
                    0 => {
                        tags.push("store_into_code");
                        in_prog(&mut rng)
                    }
                    1 => {
                        tags.push("store_into_stack_area");
                        0xFDFF - rng.below(8) as u16
                    }
                    _ => orig.wrapping_add(rng.below(0x400) as u16).min(0xFDFF).max(orig),
                };
                // words stored over code must stay executable and harmless (no RTI, no wild jumps)
                let mut w = *rng.pick(&[0x1021u16, 0x5020, 0x0000, 0x927F, 0x1DA1, 0x0E00, 0x16E5]);
                let mut a = a;
                if rng.chance(1, 6) {
                    // a HALT planted in the code - at the origin while the PC may still be there, or anywhere -
                    // and a try to run on: the pause on it is history like everything else
                    w = 0xF025;
                    a = if rng.bool() { orig } else { in_prog(&mut rng) };
                    tags.push("halt_planted_before_reset");
                    lines.push(format!("move x{:04x} x{:04x}", a, w));
                    lines.push(rng.s(&["continue", "step", "si 2", "registers"]).to_string());
                } else {
                    lines.push(format!("move x{:04x} x{:04x}", a, w));
                }
                tags.push("reset_after_move_mem");
            }
            5 if n_words >= 2 && rng.bool() => {
                // two words of the program exchanged (or one raised and another lowered by the same amount): every
                // sum over the words around them is what it was, the memory is not
                let ia = rng.below(n_words) as usize;
                let mut ib = rng.below(n_words) as usize;
                if ib == ia {
                    ib = (ia + 1) % n_words as usize;
                }
                let (wa, wb) = (img.words[ia], img.words[ib]);
                let (a, b) = (orig.wrapping_add(ia as u16), orig.wrapping_add(ib as u16));
                if a < 0xFE00 && b < 0xFE00 {
                    if wa != wb && rng.bool() {
                        lines.push(format!("move x{:04x} x{:04x}", a, wb));
                        lines.push(format!("move x{:04x} x{:04x}", b, wa));
                    } else {
                        let k = 1 + rng.below(200) as u16;
                        lines.push(format!("move x{:04x} x{:04x}", a, wa.wrapping_add(k)));
                        lines.push(format!("move x{:04x} x{:04x}", b, wb.wrapping_sub(k)));
                    }
                    tags.push("words_exchanged_before_reset");
                    tags.push("reset_after_move_mem");
                    tags.push("store_into_code");
                }
            }
            5 => {
                lines.push(format!("goto x{:04x}", in_prog(&mut rng)));
                tags.push("reset_after_goto");
            }
            6 | 7 => {
                // eval of a store: via a register holding an arbitrary address (also below the origin)
                let a = match rng.below(3) {
                    0 => rng.below(orig as u64 + 1) as u16, // below the origin
                    1 => in_prog(&mut rng),
                    _ => rng.u16(),
                };
                lines.push(format!("move r1 x{:04x}", a));
                lines.push(format!("eval str r{} r1 #{}", rng.below(8), rng.range(-3, 3)));
                tags.push("reset_after_eval_store");
            }
            8 if rng.bool() => {
                // a hand-made call or jump into the program
                lines.push(format!("move r2 x{:04x}", in_prog(&mut rng)));
                lines.push(format!("eval {} r2", rng.s(&["jsrr", "jmp", "JSRR"])));
                if rng.bool() {
                    lines.push(rng.s(&["si 2", "step", "si 5"]).to_string());
                }
                tags.push("reset_after_eval_jump");
            }
            8 => {
                lines.push(format!("eval add r{} r{} #{}", rng.below(8), rng.below(8), rng.range(-16, 15)));
            }
            9 => {
                if built.features.contains(&"self_modify") || built.features.contains(&"memory") {
                    tags.push("reset_after_program_store");
                }
                lines.push("continue".into());
            }
            _ => {
                // looking is not touching: inspection commands in between, also right after stores into code
                let l = match rng.below(6) {
                    0 => format!("assembly x{:04x}", in_prog(&mut rng)),
                    1 => format!("print x{:04x}", in_prog(&mut rng)),
                    2 => "assembly".to_string(),
                    _ => rng.s(&["registers", "print r0", "break list", "assembly ^1", "print ^"]).to_string(),
                };
                if l.starts_with('a') && tags.contains(&"store_into_code") {
                    tags.push("assembly_after_store_into_code");
                }
                lines.push(l);
            }
        }
        if tags.last() == Some(&"reset_after_move_mem") && tags.contains(&"store_into_code") && rng.chance(1, 3) {
            lines.push(if rng.bool() { "assembly".to_string() } else { format!("assembly x{:04x}", in_prog(&mut rng)) });
            tags.push("assembly_after_store_into_code");
        }
    }
    if long_history {
        lines.clear();
        bp_lines.clear();
        lines.push(rng.s(&["continue", "si 50000", "continue"]).to_string());
        if rng.bool() {
            lines.push("continue".to_string());
        }
        tags.clear();
        tags.push("reset_after_a_long_run");
    }
    if unbalanced_stack {
        lines.clear();
        bp_lines.clear();
        tags.clear();
        match rng.below(4) {
            0 => lines.push("si 3".into()),
            1 => lines.push("si 4".into()),
            2 => {
                lines.push("si 2".into());
                lines.push("eval push r0".into());
            }
            _ => {
                lines.push("eval push r5".into());
                lines.push("eval push r5".into());
                lines.push("si 5".into());
            }
        }
        tags.push("reset_while_the_program_has_words_on_the_stack");
    }
    if ext_words_without_flag {
        lines.clear();
        bp_lines.clear();
        tags.clear();
        if rng.bool() {
            lines.push("step".into());
        }
        lines.push(rng.s(&["eval push r0", "eval pop r1", "eval PUSH R3", "eval rets", "eval call w", "e push r7"]).to_string());
        if rng.bool() {
            lines.push("step out".into());
        }
        tags.push("eval_of_an_extension_mnemonic_without_the_flag_before_reset");
    }
    let n_resets = if long_history { 1 } else { 1 + rng.below(3) };
    let mut reset_lines = Vec::new();
    for k in 0..n_resets {
        reset_lines.push(lines.len());
        lines.push(rng.s(&["reset", "z", "RESET"]).to_string());
        if k + 1 < n_resets && rng.bool() {
            // something in between repeated resets
            lines.push(format!("move r2 x{:04x}", rng.u16()));
            lines.push("si 2".into());
        }
    }
    let full_run = rng.chance(2, 3) || halt_at_origin_history || long_history || unbalanced_stack || ext_words_without_flag;
    let mut resume_cmd: Option<String> = None;
    if full_run {
        // resume in different ways before detaching: with the debugger still attached for a while
        // (continue / step / step into k), or at once; every way ends like a fresh run
        let resume = match rng.below(6) {
            0 => Some("continue".to_string()),
            1 => Some(format!("si {}", 1 + rng.below(6))),
            2 => Some("step".to_string()),
            3 if stack => Some("step out".to_string()),
            _ if halt_at_origin_history || long_history => Some("continue".to_string()),
            _ => None,
        };
        if let Some(r) = &resume {
            lines.push(r.clone());
            tags.push("resumed_under_debugger_after_reset");
        }
        resume_cmd = resume;
        lines.push("quit".into());
    } else {
        lines.push("exit".into());
    }
    // (the commands reach the debugger as one string: separated by line ends, or by `;` - also behind an `eval`)
    let script = lines.join(if i % 2 == 0 { "\n" } else { ";" });

    // ---- load-time snapshot, independent of the debugger: from_raw of the same image
    let raw = img.raw();
    let Some(load) = crate::refvm::RefVm::load(&raw, stack) else {
        out.evals = 0;
        return out;
    };
    let sess = match run_session(&text, stack, &script, &[], 6 * FUEL * fuel_scale, false) {
        Ok(s) => s,
        Err(o) => {
            out.inconclusive = Some(format!("not assembled ({})", o.class()));
            return out;
        }
    };
    let detail = |extra: &str| {
        J::obj(vec![
            ("source", J::s(&text)),
            ("script", J::A(lines.iter().map(J::s).collect())),
            ("stack_feature", J::B(stack)),
            ("note", J::s(extra)),
            ("session_end", J::s(match &sess.obs.end { Ok(()) => "returned".to_string(), Err(a) => a.short() })),
        ])
    };
    if let Err(a @ Abort::Panic { .. }) = &sess.obs.end {
        if a.is_rti_todo() {
            out.class("discarded_rti");
            return out;
        }
        out.violate(format!("C12/panic/{}", a.panic_file()), i, a.short(), detail(""));
        return out;
    }
    // words in which the memory captured before run() differs from the model's load state: they
    // count as "changed" too, so that the comparison below is against the *model's* loaded machine
    let load_skew: Vec<(u16, u16)> = if sess.init_mem[..] != load.mem[..] {
        (0..0x10000usize).filter(|&a| sess.init_mem[a] != load.mem[a]).map(|a| (a as u16, sess.init_mem[a])).collect()
    } else {
        Vec::new()
    };
    // ---- snapshot right after each reset
    let mut dirty_before = false;
    for (k, &rl) in reset_lines.iter().enumerate() {
        // the prompt at which `rl + 1` lines have been consumed and which follows the reset
        let Some(pos) = sess.snaps.iter().position(|s| s.commands_read == rl + 1) else {
            // the session may legitimately have ended earlier (process exit during the history)
            if sess.obs.end.is_ok() && sess.snaps.iter().all(|s| s.commands_read <= rl) {
                out.class("session_over_before_reset");
            }
            return out;
        };
        let s = &sess.snaps[pos];
        if pos > 0 {
            let before = &sess.snaps[pos - 1];
            if !before.mem_diff.is_empty() || before.reg != load.reg || before.pc != load.pc {
                dirty_before = true;
            }
        }
        let mut why = None;
        if s.reg != load.reg {
            why = Some(format!("registers {:04X?}, load-time {:04X?}", s.reg, load.reg));
        } else if s.pc != load.pc {
            why = Some(format!("PC x{:04X}, load-time x{:04X}", s.pc, load.pc));
        } else if s.cc != 0 {
            why = Some(format!("CC {:03b}, load-time none", s.cc));
        } else if !s.mem_diff.is_empty() || !load_skew.is_empty() {
            // actual memory = captured + diff; compare with the model's load state
            let mut diffs: Vec<(u16, u16)> = Vec::new();
            for (a, w) in s.mem_diff.iter().chain(load_skew.iter()) {
                let actual = s.mem_diff.iter().find(|(x, _)| x == a).map(|(_, v)| *v).unwrap_or(*w);
                if actual != load.mem[*a as usize] && !diffs.iter().any(|(x, _)| x == a) {
                    diffs.push((*a, actual));
                }
            }
            if diffs.is_empty() {
                continue;
            }
            let (a, w) = diffs[0];
            why = Some(format!(
                "{} memory words differ from load time, e.g. mem[x{:04X}] = x{:04X} (loaded x{:04X})",
                diffs.len(),
                a,
                w,
                load.mem[a as usize]
            ));
        }
        if let Some(w) = why {
            out.violate(
                if k == 0 { "C12/state-after-reset" } else { "C12/state-after-repeated-reset" },
                i,
                format!("after reset #{}: {}", k + 1, w),
                detail(""),
            );
            return out;
        }
    }
    if dirty_before {
        out.class("memory_dirty_before_reset");
    }
    for t in &tags {
        out.class(*t);
    }
    if n_resets > 1 {
        out.class("reset_twice");
    }
    // ---- reset followed by a complete run behaves like a fresh run
    if full_run && sess.obs.end != Err(Abort::Fuel) {
        let t = text.clone();
        let plain = std::thread::scope(|s| {
            std::thread::Builder::new()
                .stack_size(8 << 20)
                .spawn_scoped(s, move || {
                    crate::exec::case_minimal(minimal);
                    let (mut env, _) = build_env(&t, stack, None).ok()?;
                    let obs = run_env(&mut env, RunCfg { fuel: Some(FUEL * fuel_scale), input: vec![], keep_trace: false, on_prompt: None });
                    Some((obs.end, obs.out_normal, final_state(&env)))
                })
                .ok()?
                .join()
                .ok()?
        });
        if let Some((pend, pout, pfs)) = plain {
            if pend != Err(Abort::Fuel) {
                out.class("reset_then_full_run");
                let last_reset = *reset_lines.last().unwrap();
                let at = sess.snaps.iter().position(|s| s.commands_read == last_reset + 1).unwrap();
                let out_after = &sess.obs.out_normal[sess.snaps[at].out_len..];
                let mut mem = sess.init_mem.clone();
                for (a, w) in &sess.fin.mem_diff {
                    mem[*a as usize] = *w;
                }
                let mut why = None;
                if sess.obs.end != pend {
                    why = Some("ended differently from a fresh run".to_string());
                } else if out_after != pout {
                    why = Some(format!("output after reset {:?}, fresh run {:?}", out_after, pout));
                } else if sess.fin.reg != pfs.reg || sess.fin.cc != pfs.cc || sess.fin.pc != pfs.pc {
                    why = Some(format!(
                        "final registers/PC/CC {:04X?} x{:04X} {:03b}, fresh run {:04X?} x{:04X} {:03b}",
                        sess.fin.reg, sess.fin.pc, sess.fin.cc, pfs.reg, pfs.pc, pfs.cc
                    ));
                } else if hash_words(&mem[..]) != pfs.mem_hash {
                    why = Some("final memory differs from a fresh run".to_string());
                }
                if let Some(w) = why {
                    out.violate("C12/run-after-reset", i, format!("`...; reset; quit`: {}", w), detail(""));
                    return out;
                }
            }
        }
    }
    // ---- the pause reached by resuming after the reset is the pause a fresh session reaches
    if let (Some(r), false) = (&resume_cmd, cfg!(miri)) {
        let mut fl = bp_lines.clone();
        fl.push(r.clone());
        fl.push("quit".into());
        let fscript = fl.join("\n");
        let t = text.clone();
        let fresh = std::thread::scope(|sc| {
            std::thread::Builder::new()
                .stack_size(8 << 20)
                .spawn_scoped(sc, || {
                    crate::exec::case_minimal(minimal);
                    run_session(&t, stack, &fscript, &[], 6 * FUEL * fuel_scale, false).ok()
                })
                .ok()?
                .join()
                .ok()?
        });
        let last_reset = *reset_lines.last().unwrap();
        let after_resume = sess.snaps.iter().find(|s| s.commands_read == last_reset + 2);
        let at_reset = sess.snaps.iter().find(|s| s.commands_read == last_reset + 1);
        if let (Some(f), Some(a), Some(z)) = (fresh, after_resume, at_reset) {
            if let Some(fa) = f.snaps.iter().find(|s| s.commands_read == bp_lines.len() + 1) {
                out.class("resume_after_reset_compared_with_fresh_session");
                let mut why = None;
                if a.pc != fa.pc || a.reg != fa.reg || a.cc != fa.cc {
                    why = Some(format!(
                        "paused with PC x{:04X} registers {:04X?} CC {:03b}; a fresh session pauses with PC x{:04X} registers {:04X?} CC {:03b}",
                        a.pc, a.reg, a.cc, fa.pc, fa.reg, fa.cc
                    ));
                } else if a.fetches - z.fetches != fa.fetches {
                    why = Some(format!("{} instructions executed, a fresh session executes {}", a.fetches - z.fetches, fa.fetches));
                } else if a.mem_diff != fa.mem_diff {
                    why = Some("memory differs from a fresh session's at the same pause".to_string());
                } else if sess.obs.out_normal[z.out_len..a.out_len] != f.obs.out_normal[..fa.out_len] {
                    why = Some("program output differs from a fresh session's at the same pause".to_string());
                }
                if let Some(w) = why {
                    out.violate("C12/resume-after-reset", i, format!("`...; reset; {}`: {}", r, w), detail(""));
                    return out;
                }
            }
        }
    }
    out.nontrivial = if dirty_before {
        Some(hash_bytes(format!("{}|{}", text, script).as_bytes()))
    } else {
        None
    };
    if i % 503 == 0 {
        out.sample = Some(detail("sample"));
    }
    out
}
