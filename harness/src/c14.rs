//! C14 — the command language is total, unambiguous (and, in the driver, transport-independent).
//!
//! Monitor: every generated command line goes through the real parser (hook `parse_command`) under
//! `catch_unwind` and through the reference matcher; accept/reject, command and every argument
//! value must agree. A through-the-machine part re-observes the parse by its effect
//! (`move r1 T`, `goto T`, `break add T`) on the paused machine.

use lace::verif::{self, Monitor};

use crate::dbgmon::run_and_verify;
use crate::exec::{guard, Abort};
use crate::refcmd::{self, atoms, atoms_of_debug, Parsed, RLoc};
use crate::refdbg::{Cmd, Loc};
use crate::util::{hash_bytes, CaseOut, Collector, Rng, J};
use crate::Cfg;

pub const FLOORS: &[&str] = &[
    "ctx:value", "ctx:address", "ctx:location", "ctx:count", "ctx:move_location", "ctx:break",
    "accept:value", "accept:register", "accept:address", "accept:pc_offset", "accept:label",
    "accept:label_offset", "reject:integer", "reject:other", "family:boundary", "family:names",
    "family:random", "family:multibyte", "family:machine", "names:accepted", "names:misspelling",
    "names:too_many_args", "names:too_few_args", "machine:move", "machine:goto", "machine:break",
    "names:long_unknown_word_multibyte", "names:other_white_space", "names:hundreds_of_arguments",
];

pub const ALPHABET: &[char] = &['+', '-', '#', 'x', 'o', 'b', '0', '1', '7', '9', 'a', 'f', 'g', '^', 'r', '_'];
const CHUNK: u64 = if cfg!(miri) { 16 } else { 2048 };

fn count_strings(max_len: u32) -> u64 {
    (1..=max_len).map(|l| (ALPHABET.len() as u64).pow(l)).sum()
}

fn nth_string(mut i: u64, max_len: u32) -> String {
    let k = ALPHABET.len() as u64;
    for l in 1..=max_len {
        let n = k.pow(l);
        if i < n {
            let mut s = String::new();
            for _ in 0..l {
                s.push(ALPHABET[(i % k) as usize]);
                i /= k;
            }
            return s;
        }
        i -= n;
    }
    String::new()
}

pub const CONTEXTS: &[(&str, &str, &str)] = &[
    ("ctx:value", "move r1 ", ""),
    ("ctx:address", "goto ", ""),
    ("ctx:location", "print ", ""),
    ("ctx:count", "si ", ""),
    ("ctx:move_location", "move ", " 1"),
    ("ctx:break", "break add ", ""),
];

/// Compare one line. Returns the class of the outcome.
fn check_line(out: &mut CaseOut, line: &str, case: u64) -> Option<&'static str> {
    verif::install(Monitor {
        armed: true,
        ..Default::default()
    });
    let real = guard(|| verif::parse_command(line));
    verif::take();
    let reference = refcmd::parse(line);
    let detail = |r: &str| {
        J::obj(vec![
            ("line", J::s(line)),
            ("implementation", J::s(r)),
            ("reference", J::s(format!("{:?}", reference))),
        ])
    };
    let real = match real {
        Ok(r) => r,
        Err(Abort::Exit(code)) => {
            out.violate(
                format!("C14/name={}/process-exit", line.split(' ').next().unwrap_or("")),
                case,
                format!("the command line `{}` ends the process with status {} from inside the parser", line, code),
                detail("process exit"),
            );
            return None;
        }
        Err(a) => {
            out.violate(
                format!("C14/parser-panic/{}", a.panic_file()),
                case,
                format!("`{}` makes the parser panic: {}", line, a.short()),
                detail(&a.short()),
            );
            return None;
        }
    };
    // bare `print`: help.txt documents a default (PC), the implementation requires the argument;
    // either is accepted
    let bare_print = {
        let mut t = line.split(' ').filter(|t| !t.is_empty());
        matches!((t.next(), t.next()), (Some(n), None) if n.eq_ignore_ascii_case("print") || n.eq_ignore_ascii_case("p"))
    };
    match (&real, &reference) {
        (Ok(dbg), Ok(parsed)) => {
            let got = atoms_of_debug(dbg);
            let want = atoms(parsed);
            if got != want {
                out.violate(
                    format!("C14/different-parse/{}", want[0]),
                    case,
                    format!("`{}` parses to {}, the grammar gives {:?}", line, dbg, parsed),
                    detail(dbg),
                );
                return None;
            }
            Some(match parsed {
                Parsed::Move(RLoc::Reg(_), _) | Parsed::StepInto(_) => "accept:value",
                Parsed::Print(l) | Parsed::Move(l, _) | Parsed::Goto(l) | Parsed::BreakAdd(l) | Parsed::BreakRemove(l) | Parsed::Assembly(l) => match l {
                    RLoc::Reg(_) => "accept:register",
                    RLoc::Addr(_) => "accept:address",
                    RLoc::Pc(_) => "accept:pc_offset",
                    RLoc::Label(_, 0) => "accept:label",
                    RLoc::Label(..) => "accept:label_offset",
                },
                _ => "accept:other",
            })
        }
        (Err(_), Err(why)) => Some(if why.contains("integer") || why.contains("address") || why.contains("offset") {
            "reject:integer"
        } else {
            "reject:other"
        }),
        (Ok(dbg), Err(_)) if bare_print && atoms_of_debug(dbg) == vec!["Print", "PCOffset", "0"] => Some("accept:other"),
        (Ok(dbg), Err(why)) => {
            out.violate(
                "C14/accepted-malformed",
                case,
                format!("`{}` is accepted as {}, the grammar rejects it ({})", line, dbg, why),
                detail(dbg),
            );
            None
        }
        (Err(e), Ok(parsed)) => {
            out.violate(
                format!("C14/rejected-valid/{}", atoms(parsed)[0]),
                case,
                format!("`{}` is rejected ({}), the grammar gives {:?}", line, e, parsed),
                detail(e),
            );
            None
        }
    }
}

pub fn run(cfg: &Cfg, col: &mut Collector) {
    let max_len: u32 = if cfg.miri { 2 } else if cfg.thorough() { 5 } else { 4 };
    let n_strings = count_strings(max_len);
    let n_chunks = (n_strings + CHUNK - 1) / CHUNK;
    // natively one case checks every boundary token; under Miri eight cases check every 32nd token each
    let (n_boundary, stride) = if cfg.miri { (8u64, 32u64) } else { (1u64, 1u64) };
    let n_names = cfg.n(40, 400, 1);
    let n_random = cfg.n(60, 2000, 1);
    let n_machine = cfg.n(60, 3000, 2);
    let seed = cfg.seed;
    let total = n_chunks + n_boundary + n_names + n_random + n_machine;
    crate::util::run_cases(total, cfg.only_case, cfg.threads, col, move |i| {
        if i < n_chunks {
            enum_chunk(i, max_len, n_strings)
        } else if i < n_chunks + n_boundary {
            boundary_case(i, i - n_chunks, stride)
        } else if i < n_chunks + n_boundary + n_names {
            names_case(seed, i)
        } else if i < n_chunks + n_boundary + n_names + n_random {
            random_case(seed, i)
        } else {
            machine_case(seed, i)
        }
    });
    col.exhaustive = true;
    col.extra.push((
        "exhaustive_part".into(),
        J::obj(vec![
            ("alphabet", J::s(ALPHABET.iter().collect::<String>())),
            ("max_length", J::I(max_len as i64)),
            ("strings", J::I(n_strings as i64)),
            ("contexts", J::A(CONTEXTS.iter().map(|c| J::s(format!("{}T{}", c.1, c.2))).collect())),
            ("lines", J::I((n_strings * CONTEXTS.len() as u64) as i64)),
        ]),
    ));
}

fn enum_chunk(chunk: u64, max_len: u32, n_strings: u64) -> CaseOut {
    let mut out = CaseOut::new();
    let lo = chunk * CHUNK;
    let hi = (lo + CHUNK).min(n_strings);
    let mut evals = 0;
    let mut nontrivial_hash = 0u64;
    let mut seen: std::collections::BTreeSet<&'static str> = Default::default();
    for si in lo..hi {
        let t = nth_string(si, max_len);
        for (ctx, pre, post) in CONTEXTS {
            let line = format!("{}{}{}", pre, t, post);
            evals += 1;
            if let Some(cls) = check_line(&mut out, &line, chunk) {
                if cls.starts_with("accept") || cls == "reject:integer" {
                    nontrivial_hash ^= hash_bytes(line.as_bytes());
                }
                seen.insert(cls);
                seen.insert(*ctx);
            }
        }
    }
    for c in seen {
        out.class(c);
    }
    out.evals = evals;
    out.nontrivial = Some(nontrivial_hash ^ chunk);
    if chunk % 97 == 0 {
        out.sample = Some(J::obj(vec![
            ("first_token_of_chunk", J::s(nth_string(lo, max_len))),
            ("last_token_of_chunk", J::s(nth_string(hi - 1, max_len))),
            ("lines_checked", J::I(evals as i64)),
        ]));
    }
    out
}

fn boundary_case(case: u64, part: u64, stride: u64) -> CaseOut {
    let mut out = CaseOut::new();
    let mut toks: Vec<String> = Vec::new();
    let magnitudes: &[i64] = &[
        0, 1, 7, 8, 255, 256, 32766, 32767, 32768, 32769, 65534, 65535, 65536, 65537, 2147483646, 2147483647,
        2147483648, 2147483649, 4294967295, 4294967296, 9999999999,
        // more than 32 bits whose low 32 bits are a small number or a fine address (no bit 31 on the way)
        0x1_0000_002A, 0x1_0000_3002, 0x3_0000_3001, 0x1_0000_0001, 0x1_0000_0002, 0x10_0000_3000, 0x7_0000_0007, 0x100_0000_0001,
    ];
    for m in magnitudes {
        let spell: Vec<String> = vec![
            format!("{}", m),
            format!("#{}", m),
            format!("x{:x}", m),
            format!("X{:X}", m),
            format!("0x{:x}", m),
            format!("o{:o}", m),
            format!("0o{:o}", m),
            format!("b{:b}", m),
            format!("0b{:b}", m),
            format!("000{}", m),
            format!("#000{}", m),
            format!("x000{:x}", m),
            // any number of zeros may stand behind the sign and the prefix: a long token need not be a large number
            format!("{}{}", "0".repeat(18), m),
            format!("#{}{}", "0".repeat(24), m),
            format!("x{}{:x}", "0".repeat(20), m),
            format!("0x{}{:X}", "0".repeat(33), m),
            format!("0b{}{:b}", "0".repeat(40), m),
            format!("o{}{:o}", "0".repeat(19), m),
        ];
        for s in spell {
            toks.push(s.clone());
            toks.push(format!("-{}", s));
            toks.push(format!("+{}", s));
            // sign after the prefix
            if let Some(p) = s.find(|c: char| "xXoObB#".contains(c)) {
                let (a, b) = s.split_at(p + 1);
                toks.push(format!("{}-{}", a, b));
                toks.push(format!("{}+{}", a, b));
                toks.push(format!("-{}-{}", a, b));
            }
            toks.push(format!("^{}", s));
            toks.push(format!("^-{}", s));
            toks.push(format!("lab+{}", s));
            toks.push(format!("lab-{}", s));
            toks.push(format!("lab{}", s));
        }
    }
    // characters that are no ASCII digits but whose code point, cut to eight bits, is one (Cyrillic be/ve/es,
    // dotless i, full-width and Arabic-Indic digits): no digit of any radix
    for t in ["#1\u{431}", "x300\u{431}", "0x300\u{432}", "b1\u{431}", "o7\u{432}", "1\u{431}", "x\u{441}", "#\u{432}", "^0x0\u{432}", "lab+x0\u{432}", "lab+\u{431}", "\u{ff11}\u{ff12}", "#\u{661}", "x\u{131}0", "3\u{131}"] {
        toks.push(t.to_string());
    }
    // more digits than any integer type holds, then a character that makes the token a label
    for t in ["xfffffffffg", "Xf2f7fB7A0GFx2", "b1000000000000000000000000000000000_t", "o77777777777777777777z", "x123456789abcdefQ", "b" ] {
        toks.push(t.to_string());
        toks.push(format!("{}+1", t));
    }
    let mut evals = 0;
    for (ti, t) in toks.iter().enumerate() {
        if ti as u64 % stride != part % stride {
            continue;
        }
        for (ctx, pre, post) in CONTEXTS {
            evals += 1;
            if let Some(cls) = check_line(&mut out, &format!("{}{}{}", pre, t, post), case) {
                out.class(cls);
                out.class(*ctx);
            }
        }
    }
    out.class("family:boundary");
    out.evals = evals;
    out.nontrivial = Some(hash_bytes(b"boundary") ^ part);
    out.sample = Some(J::obj(vec![("boundary_tokens", J::A(toks.iter().take(12).map(J::s).collect())), ("tokens", J::I(toks.len() as i64))]));
    out
}

fn random_case_of(rng: &mut Rng, s: &str) -> String {
    s.chars().map(|c| if rng.bool() { c.to_ascii_uppercase() } else { c.to_ascii_lowercase() }).collect()
}

fn names_case(seed: u64, i: u64) -> CaseOut {
    let mut out = CaseOut::new();
    let mut rng = Rng::for_case(seed, "C14n", i);
    let names = refcmd::all_names();
    let mut evals = 0;
    for _ in 0..200 {
        let misspelt = rng.chance(1, 3);
        let name = if misspelt { *rng.pick(refcmd::MISSPELLINGS) } else { *rng.pick(&names) };
        if name.eq_ignore_ascii_case("sudo") {
            continue;
        }
        let mut line = random_case_of(&mut rng, name);
        if matches!(name, "step" | "s" | "b" | "break") && rng.chance(3, 4) {
            line.push(' ');
            let sub = rng.s(&["i", "into", "o", "out", "l", "list", "a", "add", "r", "remove", "next", "in", "finish", "ls", "set", "delete", "x3000"]);
            line.push_str(&random_case_of(&mut rng, sub));
        }
        let nargs = rng.below(4);
        for _ in 0..nargs {
            line.push_str(rng.s(&[" ", "  "]));
            line.push_str(rng.s(&["r1", "x3000", "5", "^", "lab+1", "#-3", "R7", "foo", "-", "0x"]));
        }
        evals += 1;
        let reference_ok = refcmd::parse(&line).is_ok();
        if check_line(&mut out, &line, i).is_some() {
            if misspelt {
                out.class("names:misspelling");
            } else if reference_ok {
                out.class("names:accepted");
            } else if nargs >= 2 {
                out.class("names:too_many_args");
            } else {
                out.class("names:too_few_args");
            }
        }
    }
    // far more arguments than any command takes (as many as any counter of them might hold, and more)
    for n_extra in [1usize, 20, 126, 127, 128, 253, 254, 255, 256, 257, 300, 1000, 70_000] {
        if n_extra > 300 && cfg!(miri) {
            continue;
        }
        let base = *rng.pick(&["registers", "print r0", "move r0 5", "goto x3000", "break list", "step", "continue", "assembly", "break add x3001", "reset", "quit"]);
        let line = format!("{}{}", base, " x".repeat(n_extra));
        evals += 1;
        if check_line(&mut out, &line, i).is_some() {
            out.class("names:hundreds_of_arguments");
        }
    }
    // words that are no command at all, long and with multi-byte characters at every byte offset
    // (a diagnostic that abbreviates them must cut at a character boundary)
    for k in 0..40u64 {
        let pad = "a".repeat((16 + (k + i) % 16) as usize);
        let mb = *rng.pick(&["\u{e9}", "\u{20ac}", "\u{1F34B}", "\u{e9}\u{20ac}\u{1F34B}"]);
        let word = format!("{}{}{}", pad, mb, "z".repeat(rng.below(20) as usize));
        let line = match k % 4 {
            0 => word.clone(),
            1 => format!("step {}", word),
            2 => format!("break {} x3000", word),
            _ => format!("{} r1 x3000", word),
        };
        evals += 1;
        if check_line(&mut out, &line, i).is_some() {
            out.class("names:long_unknown_word_multibyte");
        }
    }
    // white space that is not a blank, at every position relative to the words (tokens are separated
    // by blanks only: anything else is part of a token)
    for base in ["move r1 7", "goto x3001", "break add x3002", "step into 2", "print r3", "registers", "break list", "si 3"] {
        for ws in ['\t', '\r', '\u{a0}', '\u{2003}', '\u{3000}', '\u{b}', '\u{c}', '\u{85}', '\u{feff}'] {
            let words: Vec<&str> = base.split(' ').collect();
            for pos in 0..=words.len() {
                for glued in [true, false] {
                    // the character stands before word `pos` (or after the last one), glued to it or after a blank
                    let mut line = String::new();
                    for (wi, w) in words.iter().enumerate() {
                        if wi > 0 {
                            line.push(' ');
                        }
                        if wi == pos {
                            line.push(ws);
                            if !glued {
                                line.push(' ');
                            }
                        }
                        line.push_str(w);
                    }
                    if pos == words.len() {
                        if !glued {
                            line.push(' ');
                        }
                        line.push(ws);
                    }
                    evals += 1;
                    if check_line(&mut out, &line, i).is_some() {
                        out.class("names:other_white_space");
                    }
                }
            }
        }
    }
    // the one command name which is neither parsed nor rejected
    for line in ["sudo", "sudo rm -rf /"] {
        evals += 1;
        check_line(&mut out, line, i);
    }
    out.class("family:names");
    out.evals = evals;
    out.nontrivial = Some(hash_bytes(format!("names{}", i).as_bytes()));
    out
}

fn random_case(seed: u64, i: u64) -> CaseOut {
    let mut out = CaseOut::new();
    let mut rng = Rng::for_case(seed, "C14r", i);
    let pool: Vec<char> = "+-#xXoObB0123456789aAfFgGzZ^rR_.,:'\"\u{e9}\u{1F34B}\u{2713}\t\u{431}\u{432}\u{441}\u{131}\u{ff12}\u{661}".chars().collect();
    let mut evals = 0;
    let mut mb = false;
    for _ in 0..300 {
        let len = 1 + rng.below(14);
        let t: String = (0..len).map(|_| *rng.pick(&pool)).collect();
        if !t.is_ascii() {
            mb = true;
        }
        let (ctx, pre, post) = rng.pick(CONTEXTS);
        let line = format!("{}{}{}", pre, t, post);
        let line = line.trim();
        if line.contains(';') || line.contains('\n') || line.is_empty() {
            continue;
        }
        evals += 1;
        if let Some(cls) = check_line(&mut out, line, i) {
            out.class(cls);
            out.class(*ctx);
        }
    }
    // whole random lines, including eval / echo rests
    for _ in 0..60 {
        let name = *rng.pick(&refcmd::all_names());
        let rest: String = (0..rng.below(12)).map(|_| *rng.pick(&pool)).collect();
        let line = format!("{} {}", name, rest);
        let line = line.trim();
        if name == "sudo" || line.contains(';') {
            continue;
        }
        evals += 1;
        check_line(&mut out, line, i);
    }
    out.class("family:random");
    if mb {
        out.class("family:multibyte");
    }
    out.evals = evals;
    out.nontrivial = Some(hash_bytes(format!("random{}", i).as_bytes()));
    out
}

/// Through the machine: the value the parser produced is revealed by the effect of the command.
fn machine_case(seed: u64, i: u64) -> CaseOut {
    let mut out = CaseOut::new();
    let mut rng = Rng::for_case(seed, "C14m", i);
    // (`o17` and `B1` are labels to the assembler and the integers 15 and 1 to the command language, whatever the program defines)
    let src = ".orig x3000\nfoo add r0 r0 #1\nbar add r1 r1 #1\nlab .fill x1234\n.blkw #20\nend_ halt\no17 .fill x1234\nB1 .fill x5678\n";
    let labels: &[(&str, u16)] = &[("foo", 0x3000), ("bar", 0x3001), ("lab", 0x3002), ("end_", 0x3017), ("o17", 0x3018), ("B1", 0x3019)];
    let pool = |rng: &mut Rng| -> String {
        match rng.below(10) {
            0 => nth_string(rng.below(count_strings(4)), 4),
            1 => format!("x{:x}", 0x3000 + rng.below(0x20)),
            2 => format!("{}", rng.range(-40000, 70000)),
            3 => format!("#{}", rng.range(-40, 40)),
            4 => format!("^{}", rng.range(-3, 30)),
            5 => format!("{}{}{}", rng.pick(labels).0, rng.s(&["+", "-", ""]), rng.s(&["1", "x2", "#3", "", "0x10"])),
            6 => format!("r{}", rng.below(9)),
            7 => format!("{}{}", rng.s(&["0x", "x", "-x", "x-", "b", "0b", "o", "-#"]), rng.below(1000)),
            8 => rng.s(&["0", "-0", "+0", "00", "0x0", "2147483647", "2147483648", "-2147483648", "65535", "65536", "-32768", "-32769", "o17", "B1", "O17", "o17+1", "B1-1", "b1",
                "-40000", "-65535", "-32769", "x-8001", "#-65536"]).to_string(),
            _ => format!("{}", rng.below(0x10000)),
        }
    };
    let to_loc = |l: &RLoc| -> Option<Loc> {
        match l {
            RLoc::Addr(a) => Some(Loc::Abs(*a)),
            RLoc::Pc(o) => Some(Loc::Pc(*o as i32)),
            RLoc::Label(name, off) => labels.iter().find(|(n, _)| n == name).map(|(n, a)| Loc::Label(n.to_string(), *a, *off as i32)),
            RLoc::Reg(_) => None,
        }
    };
    let mut cmds: Vec<Cmd> = Vec::new();
    let mut lines: Vec<String> = Vec::new();
    let mut last_label: Option<String> = None;
    for _ in 0..40 {
        if rng.chance(1, 8) {
            // multi-byte text travels through the same reader: must neither panic nor shift later commands
            let l = format!("echo {}", rng.s(&["caf\u{e9}", "\u{20ac}ab", "\u{1F34B}", "a\u{e9}b\u{2713}", "\u{ff12}", "\u{43f}\u{440}\u{438}\u{432}\u{435}\u{442}", "\u{5e9}\u{5dc}\u{5d5}\u{5dd}", "\u{645}\u{631}\u{62d}\u{628}\u{627}", "\u{7ff}\u{400}"]));
            cmds.push(Cmd::Inspect(l.clone()));
            lines.push(l);
            continue;
        }
        let mut t = pool(&mut rng);
        // the label of the previous command once more, with another offset: what a line means does not
        // depend on the line before it
        if let (Some(prev), true) = (&last_label, rng.chance(1, 4)) {
            t = format!("{}{}", prev, rng.s(&["", "+1", "-1", "+2", "+x3", ""]));
            out.class("machine:same_label_again");
        }
        last_label = labels.iter().map(|(n, _)| *n).find(|n| t.starts_with(n)).map(|n| n.to_string());
        let line = match rng.below(3) {
            0 => format!("move r1 {}", t),
            1 => format!("goto {}", t),
            _ => format!("break add {}", t),
        };
        if line.contains(';') {
            continue;
        }
        let cmd = match refcmd::parse(&line) {
            Ok(Parsed::Move(RLoc::Reg(r), v)) => {
                out.class("machine:move");
                Cmd::MoveReg(r, v)
            }
            Ok(Parsed::Goto(l)) => match to_loc(&l) {
                Some(loc) => {
                    out.class("machine:goto");
                    Cmd::GotoLoc(loc)
                }
                // unknown label: accepted by the grammar, refused at resolution; no effect either way
                None => Cmd::Inspect(line.clone()),
            },
            Ok(Parsed::BreakAdd(l)) => match to_loc(&l) {
                Some(loc) => {
                    out.class("machine:break");
                    Cmd::BreakAddLoc(loc)
                }
                None => Cmd::Inspect(line.clone()),
            },
            Ok(_) => continue,
            Err(_) => Cmd::Rejected(line.clone()),
        };
        // the model must print exactly this text
        lines.push(line);
        cmds.push(cmd);
    }
    cmds.push(Cmd::Exit);
    lines.push("exit".into());
    let sep = *rng.pick(&[";", "\n", "mix", "mix"]);
    let checked = run_and_verify(&mut out, "C14", i, src, false, &cmds, &lines, sep, &[], false, &[]);
    if checked.stats.is_some() {
        out.class("family:machine");
    }
    out.evals = lines.len() as u64;
    out.nontrivial = Some(hash_bytes(format!("{:?}", lines).as_bytes()));
    if i % 11 == 0 {
        out.sample = Some(J::obj(vec![("script", J::A(lines.iter().take(10).map(J::s).collect()))]));
    }
    out
}
