//! C15 — eval executes the instruction it is given, here and now.
//!
//! Transition monitor: for every `eval <instruction>` the snapshot at the prompt before it is the
//! start state; the snapshot after it must be the reference VM's result of executing the ISA
//! encoding of that instruction with PC = current PC (label operands denote the label's absolute
//! address). Refused classes and malformed text must leave the state untouched and the session
//! alive.

use crate::dbgmon::{run_session, Session, Snap};
use crate::exec::Abort;
use crate::refasm::*;
use crate::refvm::{zero_mem, RefVm, Step};
use crate::util::{hash_bytes, CaseOut, Collector, Rng, J};
use crate::Cfg;

pub const FLOORS: &[&str] = &[
    "eval:alu", "eval:ldr_str", "eval:label_load", "eval:label_store", "eval:lea", "eval:jump_reg",
    "eval:jump_label", "eval:trap_output", "eval:stack", "pc_not_origin", "label_before_pc",
    "label_after_pc", "refused:br", "refused:rti", "refused:halt", "refused:unknown_trap",
    "malformed:missing", "malformed:surplus", "malformed:wrong_kind", "malformed:directive",
    "malformed:two_instructions", "malformed:undefined_label", "label_out_of_reach", "eval:outside_user_space", "eval:label_below_origin", "eval_after_reset", "refused:stack_extension_off",
];

enum Expect {
    /// Executes as this word with the given PC-independent semantics.
    Exec { word: u16, jump: bool, class: &'static str },
    /// Must change nothing.
    Refuse(&'static str),
    /// the documents leave it open whether this is refused (no effect at all) or executed exactly
    ExecOrRefuse { word: u16, class: &'static str },
}

struct EvalCmd {
    text: String,
    expect: Expect,
}

pub fn run(cfg: &Cfg, col: &mut Collector) {
    let n = cfg.n(250, 10_000, 3);
    let seed = cfg.seed;
    crate::util::run_cases(n, cfg.only_case, cfg.threads, col, move |i| one_case(seed, i));
    col.extra.push(("sessions".into(), J::I(n as i64)));
}

fn program(rng: &mut Rng, stack: bool) -> (Program, RefImage) {
    loop {
        let mut items = Vec::new();
        if rng.bool() && !cfg!(miri) {
            items.push(Item::Orig(gen_origin(rng).clamp(0x200, 0xF000)));
        }
        let n = 6 + rng.below(14) as usize;
        // (labels spelled like numbers, registers with a second digit or foreign mnemonics are labels
        // to the assembler, and therefore to `eval`)
        let names = *rng.pick(&[
            ["alpha", "data1", "mid_", "tail", "str_", "zed"],
            ["100", "7", "mid_", "b10", "str_", "r10"],
            ["nop", "sp", "007", "o17", "str_", "R77"],
        ]);
        let mut used = 0;
        for k in 0..n {
            let label = if (k % 3 == 0 || rng.chance(1, 5)) && used < names.len() {
                used += 1;
                Some(names[used - 1].to_string())
            } else {
                None
            };
            let stmt = match rng.below(6) {
                0 => Stmt::Fill(rng.below(0x10000) as i32),
                1 => Stmt::AddI(rng.below(8) as u8, rng.below(8) as u8, rng.range(-16, 15) as i32),
                2 => Stmt::Stringz("ok".into()),
                3 => Stmt::Blkw(if rng.chance(1, 4) { 260 + rng.below(900) as i32 } else { 1 + rng.below(3) as i32 }),
                4 => Stmt::Not(1, 1),
                _ => Stmt::Fill(0x41 + rng.below(20) as i32),
            };
            items.push(Item::Stmt { label, stmt });
        }
        let _ = stack;
        let p = Program { items };
        if let Verdict::Accept(img) = encode(&p) {
            return (p, img);
        }
    }
}

fn gen_eval(rng: &mut Rng, img: &RefImage, pc: u16, stack: bool, classes: &mut Vec<String>) -> EvalCmd {
    let r = |rng: &mut Rng| rng.below(8) as u8;
    let lay = if rng.bool() { Layout::canonical() } else { Layout::random(rng) };
    let enc = |s: &Stmt| -> u16 {
        match encode(&Program { items: vec![Item::Stmt { label: None, stmt: s.clone() }] }) {
            Verdict::Accept(i) | Verdict::Either(i) => i.words[0],
            _ => 0,
        }
    };
    let text_of = |s: &Stmt, rng: &mut Rng| -> String {
        let toks = stmt_tokens(s, &lay, rng);
        let mut t = toks[0].clone();
        for tok in &toks[1..] {
            t.push_str(rng.s(&[" ", ", ", ","]));
            t.push_str(tok);
        }
        t
    };
    let orig = img.origin();
    let label = |rng: &mut Rng| -> (String, u16) {
        let (n, idx) = rng.pick(&img.labels).clone();
        (n, orig.wrapping_add(idx as u16))
    };
    match rng.below(20) {
        0 | 1 | 2 => {
            let s = match rng.below(5) {
                0 => Stmt::AddR(r(rng), r(rng), r(rng)),
                1 => Stmt::AddI(r(rng), r(rng), rng.range(-16, 15) as i32),
                2 => Stmt::AndR(r(rng), r(rng), r(rng)),
                3 => Stmt::AndI(r(rng), r(rng), rng.range(-16, 15) as i32),
                _ => Stmt::Not(r(rng), r(rng)),
            };
            EvalCmd { text: text_of(&s, rng), expect: Expect::Exec { word: enc(&s), jump: false, class: "eval:alu" } }
        }
        3 | 4 => {
            let s = if rng.bool() {
                Stmt::Ldr(r(rng), r(rng), rng.range(-32, 31) as i32)
            } else {
                Stmt::Str(r(rng), r(rng), rng.range(-32, 31) as i32)
            };
            EvalCmd { text: text_of(&s, rng), expect: Expect::Exec { word: enc(&s), jump: false, class: "eval:ldr_str" } }
        }
        5..=9 => {
            // label operand: the label's absolute address, wherever the PC is
            let (name, addr) = label(rng);
            let d = r(rng);
            let (mn, opc, class): (&str, u16, &'static str) = match rng.below(5) {
                0 => ("ld", 0x2000, "eval:label_load"),
                1 => ("ldi", 0xA000, "eval:label_load"),
                2 => ("lea", 0xE000, "eval:lea"),
                3 => ("st", 0x3000, "eval:label_store"),
                _ => ("sti", 0xB000, "eval:label_store"),
            };
            classes.push(if addr < pc { "label_before_pc" } else { "label_after_pc" }.to_string());
            let off = addr as i32 - pc as i32;
            let text = format!("{} r{}{}{}", mn, d, rng.s(&[" ", ", "]), name);
            if (-256..=255).contains(&off) {
                EvalCmd {
                    text,
                    expect: Expect::Exec { word: opc | (d as u16) << 9 | (off as u16 & 0x1FF), jump: false, class },
                }
            } else {
                EvalCmd { text, expect: Expect::Refuse("label_out_of_reach") }
            }
        }
        10 => {
            let s = match rng.below(3) {
                0 => Stmt::Jmp(r(rng)),
                1 => Stmt::Ret,
                _ => Stmt::Jsrr(r(rng)),
            };
            EvalCmd { text: text_of(&s, rng), expect: Expect::Exec { word: enc(&s), jump: true, class: "eval:jump_reg" } }
        }
        11 => {
            let (name, addr) = label(rng);
            let off = addr as i32 - pc as i32;
            let call = stack && rng.bool();
            let text = format!("{} {}", if call { "call" } else { "jsr" }, name);
            let (lim, word) = if call { (512, 0xDC00 | (off as u16 & 0x3FF)) } else { (1024, 0x4800 | (off as u16 & 0x7FF)) };
            if (-lim..lim).contains(&off) {
                EvalCmd { text, expect: Expect::Exec { word, jump: true, class: "eval:jump_label" } }
            } else {
                EvalCmd { text, expect: Expect::Refuse("label_out_of_reach") }
            }
        }
        12 => {
            let a = *rng.pick(&[0x21u8, 0x26, 0x27, 0x22]);
            let s = if rng.bool() { Stmt::Alias(a) } else { Stmt::Trap(a as i32) };
            EvalCmd { text: text_of(&s, rng), expect: Expect::Exec { word: 0xF000 | a as u16, jump: false, class: "eval:trap_output" } }
        }
        13 if stack => {
            let s = match rng.below(3) {
                0 => Stmt::Push(r(rng)),
                1 => Stmt::Pop(r(rng)),
                _ => Stmt::Rets,
            };
            let jump = matches!(s, Stmt::Rets);
            EvalCmd { text: text_of(&s, rng), expect: Expect::Exec { word: enc(&s), jump, class: "eval:stack" } }
        }
        13 => {
            // the extension mnemonics without the feature, in any letter case: not instructions here
            let s = match rng.below(4) {
                0 => Stmt::Push(r(rng)),
                1 => Stmt::Pop(r(rng)),
                2 => Stmt::Rets,
                _ => Stmt::Call(label(rng).0),
            };
            let mut t = text_of(&s, rng);
            if rng.bool() {
                t = t.to_uppercase();
            }
            EvalCmd { text: t, expect: Expect::Refuse("refused:stack_extension_off") }
        }
        14 => {
            // (a branch is refused whatever it names: a label, a literal, a label that does not exist, one far away)
            let name = match rng.below(6) {
                0 | 1 => label(rng).0,
                2 => "#1".to_string(),
                3 => rng.s(&["nowhere", "Alpha", "ALPHA", "nolabel", "x", "_"]).to_string(),
                4 => rng.s(&["#255", "#-256", "x1", "#0"]).to_string(),
                _ => format!("{}x", label(rng).0),
            };
            let mn = rng.s(&["br", "brz", "BRnzp", "brn", "brp", "brnp", "brzp", "BRNZ"]);
            EvalCmd { text: format!("{} {}", mn, name), expect: Expect::Refuse("refused:br") }
        }
        15 => match rng.below(3) {
            0 => EvalCmd { text: rng.s(&["rti", "RTI"]).into(), expect: Expect::Refuse("refused:rti") },
            1 => EvalCmd { text: rng.s(&["halt", "trap x25", "HALT", "trap #37"]).into(), expect: Expect::Refuse("refused:halt") },
            _ => EvalCmd {
                text: format!("trap x{:02x}", rng.pick(&[0u8, 0x1F, 0x28, 0x30, 0xFF, 0x80])),
                expect: Expect::Refuse("refused:unknown_trap"),
            },
        },
        16 => EvalCmd {
            text: rng.s(&["add r0 r0", "add", "not r1", "ld r0", "ldr r0 r1", "str", "jmp", "trap", "and r1 r2"]).into(),
            expect: Expect::Refuse("malformed:missing"),
        },
        17 => EvalCmd {
            text: rng.s(&["add r0 r0 r0 r0", "not r1 r1 r1", "ret r0", "jmp r1 r2", "add r1 r1 #1 #1", "out x20", "halt halt", "puts r0"]).into(),
            expect: Expect::Refuse("malformed:surplus"),
        },
        18 => match rng.below(3) {
            0 => EvalCmd {
                text: rng.s(&["add r0 #1 r0", "ld r0 r1", "ldr r0 #1 r1", "jmp #3", "not r1 alpha", "add r0 r0 \"s\"", "jsrr alpha",
                    // (a minus sign and more than x8000 behind it: no hex literal, whatever it would wrap to)
                    "add r0, r0, x-FFF1", "add r0 r0 x-8001", "and r1 r1 x-FFFF", "ldr r0 r1 x-FFE1", "add r0 r0 x-+4"]).into(),
                expect: Expect::Refuse("malformed:wrong_kind"),
            },
            1 => EvalCmd {
                text: rng.s(&[".fill x1", ".blkw #2", ".stringz \"a\"", ".break", ".orig x3000", "add r0 r0 .fill x1", ".end"]).into(),
                expect: Expect::Refuse("malformed:directive"),
            },
            _ => EvalCmd {
                // (every form that takes a label, each with a name nothing defines)
                text: rng.s(&["ld r0 nolabel", "lea r1 Alpha", "st r2 ALPHA", "jsr nowhere", "ldi r3 nolabel", "sti r4 nowhere", "sti r0, Alpha", "ldi r7 ALPHA",
                    "br nolabel", "brnzp nowhere", "brz Alpha", "brn nolabel", "brp ALPHA", "st r5 nowhere", "lea r6, nolabel", "ld r1 nowhere"]).into(),
                expect: Expect::Refuse("malformed:undefined_label"),
            },
        },
        _ => EvalCmd {
            text: rng.s(&["add r0 r0 r0 add r1 r1 r1", "not r1 r1 not r2 r2", "ret ret", "add r1 r1 #1 halt", "alpha add r0 r0 r0", "r0", "#5", "alpha"]).into(),
            expect: Expect::Refuse("malformed:two_instructions"),
        },
    }
}

fn vm_from(sess: &Session, s: &Snap, stack: bool, out_so_far: &str) -> RefVm {
    let mut mem = zero_mem();
    mem.copy_from_slice(&sess.init_mem[..]);
    for (a, w) in &s.mem_diff {
        mem[*a as usize] = *w;
    }
    RefVm {
        reg: s.reg,
        pc: s.pc,
        cc: s.cc,
        mem,
        orig: sess.image.origin(),
        stack_on: stack,
        out: out_so_far.to_string(),
        input: Default::default(),
        input_taken: 0,
        variant: 0,
        touched: 0,
    }
}

fn one_case(seed: u64, i: u64) -> CaseOut {
    let mut out = CaseOut::new();
    let mut rng = Rng::for_case(seed, "C15", i);
    let stack = rng.bool();
    let (p, img) = program(&mut rng, stack);
    let text = render(&p, &Layout::canonical(), &mut rng).text;
    let orig = img.origin();
    let n = img.words.len() as u16;

    // script: goto every PC of the program (shuffled subset), a few evals at each
    let mut lines: Vec<String> = Vec::new();
    let mut evals: Vec<(usize, EvalCmd)> = Vec::new(); // (line index, expectation)
    let mut classes: Vec<String> = Vec::new();
    let mut pcs: Vec<u16> = (0..n).map(|k| orig + k).collect();
    for k in (1..pcs.len()).rev() {
        let j = rng.below(k as u64 + 1) as usize;
        pcs.swap(k, j);
    }
    pcs.truncate(if cfg!(miri) { 2 } else { 12 });
    if rng.bool() {
        pcs.insert(0, orig);
    }
    for pc in pcs {
        if rng.chance(1, 5) {
            // `reset` restores the machine; labels keep their meaning afterwards
            lines.push(rng.s(&["reset", "z"]).to_string());
            classes.push("eval_after_reset".into());
        }
        lines.push(format!("goto x{:04x}", pc));
        if pc != orig {
            classes.push("pc_not_origin".into());
        }
        // registers with addresses inside the image, so that ldr/str/jmp hit known memory
        if rng.bool() {
            lines.push(format!("move r{} x{:04x}", rng.below(8), orig + rng.below(n as u64) as u16));
        }
        if rng.chance(1, 3) {
            lines.push(format!("move r0 x{:04x}", orig + img.label_index("str_").unwrap_or(0) as u16));
        }
        let mut cur = pc;
        for _ in 0..1 + rng.below(4) {
            let e = gen_eval(&mut rng, &img, cur, stack, &mut classes);
            let jump = matches!(e.expect, Expect::Exec { jump: true, .. });
            evals.push((lines.len(), e));
            lines.push(format!("{} {}", rng.s(&["eval", "e", "EVAL", "evaluate"]), evals.last().unwrap().1.text));
            if jump {
                // the PC is no longer known statically: re-park it
                lines.push(format!("goto x{:04x}", pc));
                cur = pc;
            }
        }
    }
    if rng.chance(1, 3) {
        // get the PC out of user space with a jump, then keep evaluating there
        let target = *rng.pick(&[0xFE00u16, 0xFFFF, 0x0000, orig.wrapping_sub(1), 0xFE05]);
        lines.push(format!("move r5 x{:04x}", target));
        evals.push((lines.len(), EvalCmd { text: "jmp r5".into(), expect: Expect::Exec { word: 0xC140, jump: true, class: "eval:jump_reg" } }));
        lines.push("eval jmp r5".into());
        for _ in 0..2 {
            let d = rng.below(5) as u8;
            let (text, word) = match rng.below(3) {
                0 => (format!("add r{} r{} #3", d, d), 0x1020 | (d as u16) << 9 | (d as u16) << 6 | 3),
                1 => (format!("not r{} r{}", d, d), 0x903F | (d as u16) << 9 | (d as u16) << 6),
                _ => (format!("and r{} r{} #0", d, d), 0x5020 | (d as u16) << 9 | (d as u16) << 6),
            };
            evals.push((lines.len(), EvalCmd { text: text.clone(), expect: Expect::Exec { word, jump: false, class: "eval:outside_user_space" } }));
            lines.push(format!("eval {}", text));
        }
    }
    if rng.chance(1, 3) && orig >= 0x0100 {
        // PC a little below the origin (reachable only by a jump), then label operands: the label's
        // address is in reach of the 9/11-bit field, so the answer is either a refusal without any
        // effect or exactly the label's address - never some other address
        let target = orig - 1 - rng.below(40) as u16;
        lines.push(format!("move r5 x{:04x}", target));
        evals.push((lines.len(), EvalCmd { text: "jmp r5".into(), expect: Expect::Exec { word: 0xC140, jump: true, class: "eval:jump_reg" } }));
        lines.push("eval jmp r5".into());
        for _ in 0..3 {
            let (name, idx) = rng.pick(&img.labels).clone();
            let addr = orig.wrapping_add(idx as u16);
            let d = rng.below(8) as u8;
            let (mn, opc): (&str, u16) = *rng.pick(&[("ld", 0x2000u16), ("ldi", 0xA000), ("lea", 0xE000), ("st", 0x3000), ("sti", 0xB000)]);
            let off = addr as i32 - target as i32;
            let text = format!("{} r{} {}", mn, d, name);
            let expect = if (-256..=255).contains(&off) {
                Expect::ExecOrRefuse { word: opc | (d as u16) << 9 | (off as u16 & 0x1FF), class: "eval:label_below_origin" }
            } else {
                Expect::Refuse("label_out_of_reach")
            };
            evals.push((lines.len(), EvalCmd { text: text.clone(), expect }));
            lines.push(format!("eval {}", text));
        }
    }
    lines.push("exit".into());
    let script = lines.join("\n");
    let sess = match run_session(&text, stack, &script, &[], 50_000, false) {
        Ok(s) => s,
        Err(o) => {
            out.inconclusive = Some(format!("not assembled ({})", o.class()));
            return out;
        }
    };
    let detail = |line: usize, extra: String| {
        J::obj(vec![
            ("source", J::s(&text)),
            ("script", J::A(lines.iter().take(line + 1).map(J::s).collect())),
            ("failing_line", J::s(lines.get(line).cloned().unwrap_or_default())),
            ("stack_feature", J::B(stack)),
            ("note", J::s(extra)),
        ])
    };
    out.evals = evals.len() as u64;
    if matches!(&sess.obs.end, Err(a) if a.is_rti_todo()) {
        out.class("discarded_rti");
        return out;
    }
    if let Err(a) = &sess.obs.end {
        // which line was being executed: the last one consumed
        let line = sess.obs.commands.len().saturating_sub(1);
        let cls = evals.iter().find(|(l, _)| *l == line).map(|(_, e)| match &e.expect {
            Expect::Exec { class, .. } | Expect::ExecOrRefuse { class, .. } => *class,
            Expect::Refuse(c) => *c,
        });
        let key = match a {
            Abort::Panic { .. } => format!("C15/session-ended/{}/panic@{}", cls.unwrap_or("?"), a.panic_file()),
            other => format!("C15/session-ended/{}/{}", cls.unwrap_or("?"), other.short()),
        };
        out.violate(key, i, format!("`{}` ended the session: {}", lines.get(line).cloned().unwrap_or_default(), a.short()), detail(line, String::new()));
        return out;
    }
    for (line, e) in &evals {
        // prompt at which this line is read = number of lines consumed before it (all are valid commands)
        let (Some(before), Some(after)) = (
            sess.snaps.iter().find(|s| s.commands_read == *line),
            sess.snaps.iter().find(|s| s.commands_read == *line + 1),
        ) else {
            out.violate(
                "C15/session-ended/no-further-prompt",
                i,
                format!("no prompt after `{}`", lines[*line]),
                detail(*line, String::new()),
            );
            return out;
        };
        let out_before = &sess.obs.out_normal[..before.out_len];
        let vm0 = vm_from(&sess, before, stack, out_before);
        // reference states this command may leave behind (one, or two where the documents leave a choice)
        let mut cands: Vec<RefVm> = Vec::new();
        let class: &str = match &e.expect {
            Expect::Refuse(c) => {
                cands.push(vm0.clone());
                c
            }
            Expect::Exec { word, jump, class } => {
                // the instruction is evaluated with the PC as it stands
                let mut vm = vm0.clone();
                match vm.exec(*word) {
                    Step::Next => {}
                    other => {
                        out.class(format!("discarded:{:?}", other));
                        continue;
                    }
                }
                if !*jump && vm.pc != before.pc {
                    unreachable!("non-jump changed the reference PC");
                }
                cands.push(vm);
                class
            }
            Expect::ExecOrRefuse { word, class } => {
                let mut vm = vm0.clone();
                if let Step::Next = vm.exec(*word) {
                    cands.push(vm);
                }
                cands.push(vm0.clone());
                class
            }
        };
        // link values written by JSR/JSRR/CALL are left open by the property
        let the_word = match &e.expect {
            Expect::Exec { word, .. } | Expect::ExecOrRefuse { word, .. } => Some(*word),
            Expect::Refuse(_) => None,
        };
        let link_reg = matches!(the_word, Some(word) if word >> 12 == 0x4);
        let link_mem = matches!(the_word, Some(word) if word >> 12 == 0xD && (word >> 10) & 3 == 3);
        let compare = |vm: &RefVm| -> Option<String> {
            for r in 0..8 {
                if r == 7 && link_reg {
                    continue;
                }
                if after.reg[r] != vm.reg[r] {
                    return Some(format!("R{} = x{:04X}, expected x{:04X}", r, after.reg[r], vm.reg[r]));
                }
            }
            if after.pc != vm.pc {
                return Some(format!("PC x{:04X}, expected x{:04X}", after.pc, vm.pc));
            }
            if after.cc != vm.cc {
                return Some(format!("CC {:03b}, expected {:03b}", after.cc, vm.cc));
            }
            let mut exp: Vec<(u16, u16)> = crate::dbgmon::diff_mem(&vm.mem, &sess.init_mem);
            let mut got = after.mem_diff.clone();
            if link_mem {
                let slot = vm.reg[7];
                exp.retain(|(a, _)| *a != slot);
                got.retain(|(a, _)| *a != slot);
            }
            if exp != got {
                return Some(format!("memory changes {:04X?}, expected {:04X?}", &got[..got.len().min(4)], &exp[..exp.len().min(4)]));
            }
            if sess.obs.out_normal[..after.out_len] != vm.out {
                return Some(format!(
                    "program output {:?}, expected {:?}",
                    &sess.obs.out_normal[before.out_len..after.out_len],
                    &vm.out[before.out_len.min(vm.out.len())..]
                ));
            }
            None
        };
        let mut why: Option<String> = None;
        let mut matched = None;
        for (k, vm) in cands.iter().enumerate() {
            match compare(vm) {
                None => {
                    matched = Some(k);
                    break;
                }
                Some(w) => {
                    if why.is_none() {
                        why = Some(w);
                    }
                }
            }
        }
        if matched.is_some() {
            why = None;
        }
        if let (Expect::ExecOrRefuse { .. }, Some(k)) = (&e.expect, matched) {
            out.class(if k == 0 && cands.len() == 2 { "open_point:executed" } else { "open_point:refused" });
        }
        if let Some(w) = why {
            let refused = matches!(e.expect, Expect::Refuse(_));
            let open = matches!(e.expect, Expect::ExecOrRefuse { .. });
            out.violate(
                format!("C15/{}/{}", if refused { "refused-class-had-effect" } else if open { "neither-refused-nor-exact" } else { "wrong-effect" }, class),
                i,
                format!("`{}` at PC x{:04X}: {}", lines[*line], before.pc, w),
                detail(*line, format!("state before: regs {:04X?} cc {:03b}", before.reg, before.cc)),
            );
            return out;
        }
        out.class(class);
    }
    for c in classes {
        out.class(c);
    }
    out.nontrivial = Some(hash_bytes(format!("{}|{}", text, script).as_bytes()));
    if i % 61 == 0 {
        out.sample = Some(J::obj(vec![("source", J::s(&text)), ("script_head", J::A(lines.iter().take(14).map(J::s).collect()))]));
    }
    out
}
