//! C19 — assembling is a pure function of the source text.
//!
//! Monitor: histories of sources assembled on ONE thread with the documented `reset_state()` in
//! between (and `StaticSource::new/src/reclaim` used exactly as the watch closure does); every
//! result is compared with the result of assembling the same text on a fresh thread, and repeats
//! with each other.

use lace::StaticSource;

use crate::exec::{assemble_fresh, assemble_static, init_features, AsmOutcome};
use crate::refasm::*;
use crate::util::{hash_bytes, CaseOut, Collector, Rng, J};
use crate::Cfg;

pub const FLOORS: &[&str] = &[
    "after:accepted", "after:rejected_in_lexer", "after:rejected_after_labels", "after:rejected_in_backpatch",
    "after:rejected_in_emit", "shares_labels_with_predecessor", "repeat_same_source", "with_orig", "without_orig",
    "with_break", "histories", "after_many_labels", "extension_program:flag_on", "extension_program:flag_off", "several_undefined_labels", "reserved_looking_label", "after_a_line_in_another_assemblers_dialect",
];

fn summary(o: &AsmOutcome) -> String {
    match o {
        AsmOutcome::Ok(img) => format!("ok orig={:?} breaks={:?} words={:04X?}", img.orig, img.breaks, img.words),
        AsmOutcome::Rejected(d) => format!("rejected stage={} msg={} labels={:?}\n{}", d.stage, d.message, d.labels, d.rendered),
        AsmOutcome::Crashed { stage, abort } => format!("crashed stage={} {}", stage, abort.short()),
    }
}

fn gen_source(rng: &mut Rng, stack: bool, prev_labels: &[String]) -> (String, &'static str) {
    let kind = rng.below(10);
    match kind {
        9 => {
            // two labels which differ only in letter case, and a reference in a third spelling
            // (undefined: labels are case-sensitive); label order / count varied
            let mut t = String::new();
            let names = [("Value", "VALUE", "value"), ("loop", "LOOP", "Loop"), ("Msg", "msg", "MSG")];
            let (a, b, c) = *rng.pick(&names);
            for k in 0..rng.below(4) {
                t.push_str(&format!("p{} add r1 r1 #1\n", k));
            }
            t.push_str(&format!("{} .fill x1\n{} .fill x2\nld r0 {}\nhalt\n", a, b, c));
            (t, "case_variants")
        }
        8 => {
            // many labels (the symbol table grows well beyond its initial capacity)
            let n = 20 + rng.below(60);
            let mut t = String::new();
            for k in 0..n {
                let name = if !prev_labels.is_empty() && rng.chance(1, 4) { rng.pick(prev_labels).clone() } else { format!("L{}", k) };
                t.push_str(&format!("{} add r{} r{} #{}\n", name, k % 8, (k + 1) % 8, k % 16));
            }
            t.push_str("br L1\nhalt\n");
            (t, "many_labels")
        }
        0 if rng.chance(1, 3) => {
            // the first labelled line fails behind its label, or the only label stands before `.orig` / `.break`:
            // the name was recorded all the same, and the next source may use it again
            let l = if prev_labels.is_empty() || rng.bool() { "loop".to_string() } else { rng.pick(prev_labels).clone() };
            let t = match rng.below(5) {
                0 => format!("{} ad r1 r1 #-1\nbrp {}\nhalt\n", l, l),
                1 => format!("{} add r1\nhalt\n", l),
                2 => format!("{} .orig x3000\nadd r0 r0 #1\nhalt\n", l),
                3 => format!("add r0 r0 #1\n{} .break\n", l),
                _ => format!("{} add r1 r1 #99\n", l),
            };
            (t, "label_recorded_by_a_line_that_fails_or_has_no_statement")
        }
        0 => (rng.s(&["add r0 r0 #99\n", "x\u{e9} add r0 r0 r0\n@\n", ".stringz \"open\nhalt\n", ".bogus\n", "#70000\n",
            // a stack mnemonic: a lexer error exactly when the feature is off
            "push r0\nhalt\n", "lab pop r1\n", "add r0 r0 #1\ncall sub\nsub rets\n", "RETS\n"]).to_string(), "lexer_or_parser"),
        6 if rng.chance(1, 3) => {
            // several different undefined labels (a diagnostic that enumerates them must enumerate them
            // the same way every time), and names a runtime or a later version might predefine
            let n = 2 + rng.below(5);
            let mut t = String::from("top add r0 r0 #1\n");
            for k in 0..n {
                let name = match rng.below(3) {
                    0 => format!("missing_{}", rng.below(50)),
                    1 => rng.s(&["_start", "_main", "main", "start", "_end", "__stack", "_exit", "printf"]).to_string(),
                    _ => format!("m{}", k),
                };
                t.push_str(&format!("{} {}\n", rng.s(&["br", "ld r1", "lea r2", "jsr", "st r3"]), name));
            }
            t.push_str("halt\n");
            (t, "several_undefined_labels")
        }
        6 if rng.bool() => {
            // reserved-looking names, defined and used in the ordinary way
            let name = rng.s(&["_start", "_main", "main", "start", "_end", "__stack"]);
            (format!("{} add r0 r0 #1\nbrp {}\nlea r1 {}\nhalt\n", name, name, name), "reserved_looking_label")
        }
        7 if rng.bool() => {
            // a valid program but for the extension mnemonics in it: accepted exactly when this
            // thread's feature flag is on - whatever other threads of the process were given
            (rng.s(&["push r0\npop r1\nhalt\n", "call f\nhalt\nf rets\n", "PUSH R3\nhalt\n", "lab pop r1\nhalt\n"]).to_string(), "extension_program")
        }
        1 if rng.bool() => {
            // fails in the parser after a *forward reference* was recorded; the label it names is
            // unlikely to exist in the next source
            let l = format!("fwd_{}", rng.below(1000));
            (format!("br {}\nld r1 {}\nadd r0 r0 #99\n{} halt\n", l, l, l), "after_labels")
        }
        1 => {
            // fails after some labels were recorded
            let l = if prev_labels.is_empty() || rng.bool() { "loop".to_string() } else { rng.pick(prev_labels).clone() };
            (format!("{} add r0 r0 #1\nzz add r1 r1 #1\nadd r0 r0 #99\n", l), "after_labels")
        }
        2 => {
            let l = if prev_labels.is_empty() || rng.bool() { "loop".to_string() } else { rng.pick(prev_labels).clone() };
            (format!("{} add r0 r0 #1\nbr nowhere_{}\nhalt\n", l, rng.below(5)), "backpatch")
        }
        3 => {
            let l = if prev_labels.is_empty() || rng.bool() { "far".to_string() } else { rng.pick(prev_labels).clone() };
            (format!("ld r0 {}\n.blkw #300\n{} .fill x1\n", l, l), "emit")
        }
        _ => {
            let o = GenOpts {
                stack,
                max_stmts: 14,
                ..Default::default()
            };
            let mut p = gen_program(rng, &o);
            // reuse label names of the predecessor
            if !prev_labels.is_empty() && rng.bool() {
                let mut k = 0;
                for it in p.items.iter_mut() {
                    if let Item::Stmt { label: l @ None, stmt } = it {
                        if stmt.words() > 0 && k < prev_labels.len() && rng.bool() {
                            let name = prev_labels[k].clone();
                            k += 1;
                            *l = Some(name);
                        }
                    }
                }
                // duplicates may have been created: that is fine, the fresh thread decides
            }
            let lay = Layout::random(rng);
            (render(&p, &lay, rng).text, "generated")
        }
    }
}

/// Lines other assemblers (ca65, gas, nasm, lc3as, PennSim, MARS) understand as a switch of some kind.
const FOREIGN_LINES: &[&str] = &[
    ".feature stack", ".FEATURE stack", ".feature stack,", ".feature STACK", ".features stack", ".option stack", ".arch stack", ".arch_extension stack",
    ".enable stack", ".extension stack", ".ext stack", ".set stack 1", ".set stack", ".define stack", ".mode stack", ".stack", ".stack on", ".use stack",
    ".include \"stack.asm\"", ".import stack", ".external push", ".extern pop", ".global main", ".text", ".data", ".code", ".equ stack 1", ".p816", ".cpu lc3b",
    ".syntax unified", ".macro push", ".pragma stack", "#pragma stack", "%include \"stack.inc\"", "-f stack", ";! stack", "; lace: -f stack", ".orig x3000 stack",
];

fn labels_of(text: &str) -> Vec<String> {
    text.lines()
        .filter_map(|l| l.split(|c: char| c.is_whitespace() || c == ':' || c == ',').find(|t| !t.is_empty()))
        .filter(|t| is_plain_label(t))
        .map(|s| s.to_string())
        .collect()
}

pub fn run(cfg: &Cfg, col: &mut Collector) {
    let n = cfg.n(1200, 60_000, 40);
    let seed = cfg.seed;
    crate::util::run_cases(n, cfg.only_case, cfg.threads, col, move |i| one_case(seed, i));
}

fn one_case(seed: u64, i: u64) -> CaseOut {
    let mut out = CaseOut::new();
    let mut rng = Rng::for_case(seed, "C19", i);
    let stack = rng.bool();
    let len = 2 + rng.below(7) as usize;
    let mut sources: Vec<(String, &'static str)> = Vec::new();
    let mut prev: Vec<String> = Vec::new();
    for k in 0..len {
        if k > 0 && rng.chance(1, 5) {
            // repeat an earlier source
            let s = rng.pick(&sources).clone();
            sources.push((s.0, "repeat"));
            continue;
        }
        if rng.chance(1, 8) {
            // a line in the dialect of another assembler that would switch something on there (a feature, an
            // architecture extension, a mode), then the same program without that line: whatever the first
            // text is made of, the second is judged on its own
            let body = rng.s(&["push r0\npop r1\nhalt\n", "call f\nhalt\nf rets\n", "add r0 r0 #1\nhalt\n", "lab pop r1\nhalt\n"]);
            let line = rng.s(FOREIGN_LINES);
            sources.push((format!("{}\n{}", line, body), "foreign_directive_line"));
            sources.push((body.to_string(), if body.contains("add r0") { "generated" } else { "extension_program" }));
            prev = labels_of(body);
            continue;
        }
        let s = gen_source(&mut rng, stack, &prev);
        prev = labels_of(&s.0);
        sources.push(s);
    }
    // ---- history on this thread, exactly like the watch closure
    init_features(stack);
    let mut results: Vec<String> = Vec::new();
    let mut classes: Vec<AsmOutcome> = Vec::new();
    for (text, _) in &sources {
        let mut contents = StaticSource::new(text.clone());
        let o = assemble_static(contents.src());
        results.push(summary(&o));
        classes.push(o);
        lace::reset_state();
        contents.reclaim();
    }
    // ---- each on a fresh thread
    for (k, (text, kind)) in sources.iter().enumerate() {
        let t = text.clone();
        let fresh = std::thread::scope(|s| {
            std::thread::Builder::new().stack_size(8 << 20).spawn_scoped(s, move || assemble_fresh(&t, stack)).unwrap().join()
        });
        let Ok(fresh) = fresh else {
            out.inconclusive = Some("fresh thread could not be joined".into());
            return out;
        };
        let fs = summary(&fresh);
        if *kind == "extension_program" {
            out.class(if stack { "extension_program:flag_on" } else { "extension_program:flag_off" });
            if matches!(fresh, AsmOutcome::Ok(_)) != stack {
                out.violate(
                    "C19/depends-on-other-threads",
                    i,
                    format!(
                        "a program using the stack extension is {} on a fresh thread whose feature flag is {}",
                        if stack { "rejected" } else { "accepted" },
                        if stack { "on" } else { "off" }
                    ),
                    J::obj(vec![("source", J::s(text)), ("result", J::s(&fs)), ("stack_feature", J::B(stack))]),
                );
                return out;
            }
        }
        if fs != results[k] {
            let pred_kind = if k > 0 { sources[k - 1].1 } else { "none" };
            out.violate(
                format!("C19/depends-on-history/after-{}", pred_kind),
                i,
                format!("source #{} of the history assembles differently after its predecessors than on its own", k),
                J::obj(vec![
                    ("history", J::A(sources[..=k].iter().map(|(s, _)| J::s(s)).collect())),
                    ("in_history", J::s(&results[k])),
                    ("fresh", J::s(&fs)),
                    ("stack_feature", J::B(stack)),
                ]),
            );
            return out;
        }
        if k > 0 {
            let cls = match &classes[k - 1] {
                AsmOutcome::Ok(_) => "after:accepted",
                AsmOutcome::Rejected(d) => match (d.stage, sources[k - 1].1) {
                    ("backpatch", _) => "after:rejected_in_backpatch",
                    ("emit", _) => "after:rejected_in_emit",
                    (_, "after_labels") => "after:rejected_after_labels",
                    _ => "after:rejected_in_lexer",
                },
                AsmOutcome::Crashed { .. } => "after:crashed",
            };
            out.class(cls);
            if sources[k - 1].1 == "foreign_directive_line" {
                out.class("after_a_line_in_another_assemblers_dialect");
            }
            if sources[k - 1].1 == "many_labels" {
                out.class("after_many_labels");
            }
            let a = labels_of(&sources[k - 1].0);
            if labels_of(text).iter().any(|l| a.contains(l)) {
                out.class("shares_labels_with_predecessor");
            }
        }
        if *kind == "repeat" {
            out.class("repeat_same_source");
        }
        if *kind == "several_undefined_labels" || *kind == "reserved_looking_label" {
            out.class(*kind);
            // ... and the same result when the same text is assembled again on a second fresh thread
            let t = text.clone();
            let again = std::thread::scope(|s| {
                std::thread::Builder::new().stack_size(8 << 20).spawn_scoped(s, move || assemble_fresh(&t, stack)).unwrap().join()
            });
            if let Ok(again) = again {
                if summary(&again) != fs {
                    out.violate(
                        "C19/differs-between-two-fresh-assemblies",
                        i,
                        "the same source gives two different results on two fresh threads".to_string(),
                        J::obj(vec![("source", J::s(text)), ("first", J::s(&fs)), ("second", J::s(summary(&again))), ("stack_feature", J::B(stack))]),
                    );
                    return out;
                }
            }
        }
        if let AsmOutcome::Ok(img) = &fresh {
            out.class(if img.orig.is_some() { "with_orig" } else { "without_orig" });
            if !img.breaks.is_empty() {
                out.class("with_break");
            }
        }
    }
    out.class("histories");
    out.evals = sources.len() as u64;
    out.nontrivial = Some(hash_bytes(format!("{:?}", sources).as_bytes()));
    if i % 499 == 0 {
        out.sample = Some(J::obj(vec![("history", J::A(sources.iter().map(|(s, k)| J::obj(vec![("kind", J::s(*k)), ("source", J::s(s))])).collect()))]));
    }
    out
}
