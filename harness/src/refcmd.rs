//! Reference matcher for the debugger's command language, written from help.txt, the command-name
//! tables and the doc comments on the integer/label/location grammar. Independent structure:
//! whole-token classification instead of lace's incremental character iterators.

#[derive(Clone, Debug, PartialEq)]
pub enum RLoc {
    Reg(u8),
    Addr(u16),
    Pc(i16),
    Label(String, i16),
}

#[derive(Clone, Debug, PartialEq)]
pub enum Parsed {
    Help,
    StepOver,
    StepInto(u16),
    StepOut,
    Continue,
    Registers,
    Print(RLoc),
    Move(RLoc, u16),
    Goto(RLoc),
    Assembly(RLoc),
    Eval(String),
    Echo(String),
    Reset,
    Quit,
    Exit,
    BreakList,
    BreakAdd(RLoc),
    BreakRemove(RLoc),
}

#[derive(Clone, Debug, PartialEq)]
pub enum IntRes {
    Value(i64),
    NotInteger,
    Invalid,
}

fn digit(c: char, radix: u32) -> Option<u32> {
    let d = match c {
        '0'..='9' => c as u32 - '0' as u32,
        'a'..='f' => c as u32 - 'a' as u32 + 10,
        'A'..='F' => c as u32 - 'A' as u32 + 10,
        _ => return None,
    };
    if d < radix {
        Some(d)
    } else {
        None
    }
}

/// INTEGER = SIGN? ( '0'? [xXoObB] | '#' )? SIGN? DIGITS, at most one sign, no prefix = decimal.
pub fn integer(s: &str) -> IntRes {
    if s.is_empty() {
        return IntRes::NotInteger;
    }
    let mut rest = s;
    let mut signs = 0;
    let mut negative = false;
    if let Some(r) = rest.strip_prefix(['+', '-']) {
        negative = rest.starts_with('-');
        signs += 1;
        rest = r;
    }
    // prefix
    let mut lead0 = false;
    let radix: u32;
    let explicit: bool;
    let b: Vec<char> = rest.chars().collect();
    let radix_of = |c: char| match c {
        'x' | 'X' => Some(16),
        'o' | 'O' => Some(8),
        'b' | 'B' => Some(2),
        _ => None,
    };
    if b.len() >= 2 && b[0] == '0' && radix_of(b[1]).is_some() {
        lead0 = true;
        radix = radix_of(b[1]).unwrap();
        explicit = true;
        rest = &rest[2..];
    } else if !b.is_empty() && radix_of(b[0]).is_some() {
        radix = radix_of(b[0]).unwrap();
        explicit = true;
        rest = &rest[1..];
    } else if !b.is_empty() && b[0] == '#' {
        radix = 10;
        explicit = true;
        rest = &rest[1..];
    } else if !b.is_empty() && b[0].is_ascii_digit() {
        radix = 10;
        explicit = false;
    } else {
        // no integer shape at all
        return if signs > 0 { IntRes::Invalid } else { IntRes::NotInteger };
    }
    if explicit {
        if let Some(r) = rest.strip_prefix(['+', '-']) {
            if rest.starts_with('-') {
                negative = true;
            }
            signs += 1;
            rest = r;
        }
    }
    if signs > 1 {
        return IntRes::Invalid;
    }
    let definitely_integer = signs > 0 || lead0 || radix == 10;
    let bad = if definitely_integer { IntRes::Invalid } else { IntRes::NotInteger };
    if rest.is_empty() {
        return bad;
    }
    let mut v: i64 = 0;
    let mut too_large = false;
    for c in rest.chars() {
        let Some(d) = digit(c, radix) else {
            return bad;
        };
        v = v * radix as i64 + d as i64;
        if v > i32::MAX as i64 {
            too_large = true;
            v = i32::MAX as i64 + 1; // keep bounded
        }
    }
    if too_large {
        return IntRes::Invalid;
    }
    IntRes::Value(if negative { -v } else { v })
}

fn is_label_start(c: char) -> bool {
    c.is_ascii_alphabetic() || c == '_'
}
fn is_label_char(c: char) -> bool {
    c.is_ascii_alphanumeric() || c == '_'
}

fn register(s: &str) -> Option<u8> {
    let b: Vec<char> = s.chars().collect();
    if b.len() == 2 && (b[0] == 'r' || b[0] == 'R') && ('0'..='7').contains(&b[1]) {
        Some(b[1] as u8 - b'0')
    } else {
        None
    }
}

/// Looks like a register followed by something that cannot continue a label: malformed.
fn register_then_junk(s: &str) -> bool {
    let b: Vec<char> = s.chars().collect();
    b.len() > 2 && (b[0] == 'r' || b[0] == 'R') && ('0'..='7').contains(&b[1]) && !is_label_char(b[2])
}

/// Address+ : `^`INTEGER? | INTEGER (0..=65535) | LABEL ([+-]INTEGER)?
pub fn memory_location(s: &str) -> Result<RLoc, String> {
    if register(s).is_some() || register_then_junk(s) {
        return Err("a register is not an address".into());
    }
    if let Some(off) = s.strip_prefix('^') {
        if off.is_empty() {
            return Ok(RLoc::Pc(0));
        }
        return match integer(off) {
            IntRes::Value(v) if (-32768..=32767).contains(&v) => Ok(RLoc::Pc(v as i16)),
            _ => Err("bad PC offset".into()),
        };
    }
    match integer(s) {
        IntRes::Value(v) if (0..=65535).contains(&v) => return Ok(RLoc::Addr(v as u16)),
        IntRes::Value(_) | IntRes::Invalid => return Err("bad address".into()),
        IntRes::NotInteger => {}
    }
    let mut chars = s.chars();
    match chars.next() {
        Some(c) if is_label_start(c) => {}
        _ => return Err("not a location".into()),
    }
    let name_len = s.chars().take_while(|c| is_label_char(*c)).map(|c| c.len_utf8()).sum::<usize>();
    let (name, off) = s.split_at(name_len);
    if off.is_empty() {
        return Ok(RLoc::Label(name.to_string(), 0));
    }
    if !off.starts_with(['+', '-']) {
        return Err("junk after label".into());
    }
    match integer(off) {
        IntRes::Value(v) if (-32768..=32767).contains(&v) => Ok(RLoc::Label(name.to_string(), v as i16)),
        _ => Err("bad label offset".into()),
    }
}

pub fn location(s: &str) -> Result<RLoc, String> {
    if let Some(r) = register(s) {
        return Ok(RLoc::Reg(r));
    }
    if register_then_junk(s) {
        return Err("malformed register".into());
    }
    memory_location(s)
}

/// VALUE: integer; negatives must fit i16 and are cast, non-negatives must fit u16.
pub fn value(s: &str) -> Result<u16, String> {
    match integer(s) {
        IntRes::Value(v) if (0..=65535).contains(&v) => Ok(v as u16),
        IntRes::Value(v) if (-32768..0).contains(&v) => Ok(v as i16 as u16),
        _ => Err("bad integer".into()),
    }
}

const TABLE: &[(&str, &[&str])] = &[
    ("help", &["h", "help", "--help", "-h", ":h", "man", "info", "wtf"]),
    ("continue", &["c", "continue", "cont"]),
    ("print", &["p", "print"]),
    ("move", &["m", "move"]),
    ("registers", &["r", "registers", "reg"]),
    ("goto", &["g", "goto"]),
    ("assembly", &["a", "assembly", "asm"]),
    ("eval", &["e", "eval", "evil", "evaluate"]),
    ("reset", &["z", "reset"]),
    ("echo", &["echo"]),
    ("quit", &["q", "quit"]),
    ("exit", &["x", "exit", ":q", ":wq", "^C"]),
    ("stepinto", &["si", "stepinto"]),
    ("stepout", &["so", "stepout"]),
    ("breaklist", &["bl", "breaklist"]),
    ("breakadd", &["ba", "breakadd"]),
    ("breakremove", &["br", "breakremove"]),
];

/// Names which only produce a suggestion: always rejected.
pub const MISSPELLINGS: &[&str] = &[
    "con", "proceed", "get", "show", "display", "put", "puts", "out", "set", "mov", "mv", "assign", "dump",
    "register", "regs", "jump", "call", "go", "go-to", "jsr", "jsrr", "brn", "brz", "brp", "brnz", "brnp",
    "brzp", "brnzp", "source", "src", "ass", "inspect", "run", "exec", "execute", "sim", "simulate",
    "instruction", "instr", "restart", "refresh", "reboot", "halt", "end", "stop", "next", "step-over",
    "stepover", "into", "in", "stepin", "step-into", "step-in", "stepi", "step-i", "sin", "finish", "fin",
    "step-out", "stepo", "step-o", "sout", "break-list", "break-ls", "blist", "bls", "bp", "breakpoint",
    "breakpointlist", "breakpoint-list", "break-add", "badd", "breakpointadd", "breakpoint-add",
    "break-remove", "break-rm", "bremove", "brm", "breakpointremove", "breakpoint-remove",
];

pub fn all_names() -> Vec<&'static str> {
    let mut v = vec!["step", "s", "b", "break"];
    for (_, names) in TABLE {
        v.extend_from_slice(names);
    }
    v
}

fn eqi(a: &str, b: &str) -> bool {
    a.eq_ignore_ascii_case(b)
}

/// Parse one command line (non-empty after trimming, no `;` or newline inside).
pub fn parse(line: &str) -> Result<Parsed, String> {
    // tokens are separated by spaces only
    let mut rest = line;
    let mut next_token = |rest: &mut &str| -> Option<String> {
        let t = rest.trim_start_matches(' ');
        if t.is_empty() {
            *rest = t;
            return None;
        }
        let end = t.find(' ').unwrap_or(t.len());
        let tok = t[..end].to_string();
        *rest = &t[end..];
        Some(tok)
    };
    let name = next_token(&mut rest).ok_or("empty")?;
    let kind: &str = if eqi(&name, "step") || eqi(&name, "s") {
        match next_token(&mut rest) {
            None => "stepover",
            Some(sub) if eqi(&sub, "i") || eqi(&sub, "into") => "stepinto",
            Some(sub) if eqi(&sub, "o") || eqi(&sub, "out") => "stepout",
            Some(_) => return Err("invalid step subcommand".into()),
        }
    } else if eqi(&name, "b") || eqi(&name, "break") {
        match next_token(&mut rest) {
            None => return Err("missing break subcommand".into()),
            Some(sub) if eqi(&sub, "l") || eqi(&sub, "list") => "breaklist",
            Some(sub) if eqi(&sub, "a") || eqi(&sub, "add") => "breakadd",
            Some(sub) if eqi(&sub, "r") || eqi(&sub, "remove") => "breakremove",
            Some(_) => return Err("invalid break subcommand".into()),
        }
    } else {
        match TABLE.iter().find(|(_, names)| names.iter().any(|n| eqi(n, &name))) {
            Some((k, _)) => k,
            None => return Err("unknown command".into()),
        }
    };
    let mut args: Vec<String> = Vec::new();
    let raw_rest = rest.trim().to_string();
    if !matches!(kind, "eval" | "echo" | "help") {
        while let Some(t) = next_token(&mut rest) {
            args.push(t);
        }
    }
    let argc = |n: std::ops::RangeInclusive<usize>| -> Result<(), String> {
        if n.contains(&args.len()) {
            Ok(())
        } else {
            Err(format!("wrong number of arguments ({})", args.len()))
        }
    };
    Ok(match kind {
        "help" => Parsed::Help,
        "stepover" => {
            argc(0..=0)?;
            Parsed::StepOver
        }
        "continue" => {
            argc(0..=0)?;
            Parsed::Continue
        }
        "stepout" => {
            argc(0..=0)?;
            Parsed::StepOut
        }
        "registers" => {
            argc(0..=0)?;
            Parsed::Registers
        }
        "reset" => {
            argc(0..=0)?;
            Parsed::Reset
        }
        "quit" => {
            argc(0..=0)?;
            Parsed::Quit
        }
        "exit" => {
            argc(0..=0)?;
            Parsed::Exit
        }
        "breaklist" => {
            argc(0..=0)?;
            Parsed::BreakList
        }
        "stepinto" => {
            argc(0..=1)?;
            match args.first() {
                None => Parsed::StepInto(1),
                Some(a) => Parsed::StepInto(value(a)?.max(1)),
            }
        }
        "print" => {
            // first argument decides before the count is looked at
            let a = args.first().ok_or("missing location")?;
            let l = location(a)?;
            argc(1..=1)?;
            Parsed::Print(l)
        }
        "move" => {
            let a = args.first().ok_or("missing location")?;
            let l = location(a)?;
            let v = value(args.get(1).ok_or("missing value")?)?;
            argc(2..=2)?;
            Parsed::Move(l, v)
        }
        "goto" | "breakadd" | "breakremove" => {
            let a = args.first().ok_or("missing location")?;
            let l = memory_location(a)?;
            argc(1..=1)?;
            match kind {
                "goto" => Parsed::Goto(l),
                "breakadd" => Parsed::BreakAdd(l),
                _ => Parsed::BreakRemove(l),
            }
        }
        "assembly" => {
            let l = match args.first() {
                None => RLoc::Pc(0),
                Some(a) => memory_location(a)?,
            };
            argc(0..=1)?;
            Parsed::Assembly(l)
        }
        "eval" => {
            if raw_rest.is_empty() {
                return Err("missing instruction".into());
            }
            Parsed::Eval(raw_rest)
        }
        "echo" => {
            if raw_rest.is_empty() {
                return Err("missing text".into());
            }
            Parsed::Echo(raw_rest)
        }
        _ => unreachable!(),
    })
}

/// Canonical atoms of a parsed command: kind, then location kinds and leaf values.
pub fn atoms(p: &Parsed) -> Vec<String> {
    let loc = |l: &RLoc| -> Vec<String> {
        match l {
            RLoc::Reg(r) => vec!["Register".into(), format!("R{}", r)],
            RLoc::Addr(a) => vec!["Address".into(), format!("{}", a)],
            RLoc::Pc(o) => vec!["PCOffset".into(), format!("{}", o)],
            RLoc::Label(n, o) => vec!["Label".into(), format!("\"{}\"", n), format!("{}", o)],
        }
    };
    let mut v = Vec::new();
    match p {
        Parsed::Help => v.push("Help".into()),
        Parsed::StepOver => v.push("StepOver".into()),
        Parsed::StepInto(k) => {
            v.push("StepInto".into());
            v.push(format!("{}", k));
        }
        Parsed::StepOut => v.push("StepOut".into()),
        Parsed::Continue => v.push("Continue".into()),
        Parsed::Registers => v.push("Registers".into()),
        Parsed::Print(l) => {
            v.push("Print".into());
            v.extend(loc(l));
        }
        Parsed::Move(l, val) => {
            v.push("Move".into());
            v.extend(loc(l));
            v.push(format!("{}", val));
        }
        Parsed::Goto(l) => {
            v.push("Goto".into());
            v.extend(loc(l));
        }
        Parsed::Assembly(l) => {
            v.push("Assembly".into());
            v.extend(loc(l));
        }
        Parsed::Eval(s) => {
            v.push("Eval".into());
            v.push(format!("{:?}", s));
        }
        Parsed::Echo(s) => {
            v.push("Echo".into());
            v.push(format!("{:?}", s));
        }
        Parsed::Reset => v.push("Reset".into()),
        Parsed::Quit => v.push("Quit".into()),
        Parsed::Exit => v.push("Exit".into()),
        Parsed::BreakList => v.push("BreakList".into()),
        Parsed::BreakAdd(l) => {
            v.push("BreakAdd".into());
            v.extend(loc(l));
        }
        Parsed::BreakRemove(l) => {
            v.push("BreakRemove".into());
            v.extend(loc(l));
        }
    }
    v
}

/// Atoms of the implementation's `Debug` rendering: identifiers that are not field names (not
/// followed by ':'), numbers and string literals; wrapper names `Memory` / `Label`-struct
/// duplicates are normalised away.
pub fn atoms_of_debug(s: &str) -> Vec<String> {
    let b: Vec<char> = s.chars().collect();
    let mut v: Vec<String> = Vec::new();
    let mut i = 0;
    while i < b.len() {
        let c = b[i];
        if c == '"' {
            let mut j = i + 1;
            while j < b.len() && b[j] != '"' {
                if b[j] == '\\' {
                    j += 1;
                }
                j += 1;
            }
            v.push(b[i..=j.min(b.len() - 1)].iter().collect());
            i = j + 1;
        } else if c.is_ascii_alphabetic() || c == '_' {
            let mut j = i;
            while j < b.len() && (b[j].is_ascii_alphanumeric() || b[j] == '_') {
                j += 1;
            }
            let word: String = b[i..j].iter().collect();
            let is_field = j < b.len() && b[j] == ':';
            if !is_field && word != "Memory" {
                v.push(word);
            }
            i = j;
        } else if c.is_ascii_digit() || (c == '-' && i + 1 < b.len() && b[i + 1].is_ascii_digit()) {
            let mut j = i + 1;
            while j < b.len() && b[j].is_ascii_digit() {
                j += 1;
            }
            v.push(b[i..j].iter().collect());
            i = j;
        } else {
            i += 1;
        }
    }
    // `Label(Label { name: "x", offset: 1 })` renders the word twice
    v.dedup_by(|a, b| a == "Label" && b == "Label");
    v
}
