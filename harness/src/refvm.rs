//! Reference LC-3 + stack extension, written from the ISA (Patt & Patel appendix A), the lace
//! README (extension, PUTN/REG traps) and the property texts. Shares no code with lace.

use std::collections::VecDeque;

pub const USER_END: u16 = 0xFE00;

/// Points on which the ISA editions / documents disagree or are silent. Each bit selects one of two
/// admissible behaviours; the oracle accepts an implementation which matches under *some* setting
/// of the bits an execution actually depended on (`touched`).
pub mod variant {
    /// JSRR with BaseR = R7: 0 = R7 written first, PC = incremented PC (2nd ed.);
    /// 1 = PC = old R7 (3rd ed. TEMP).
    pub const JSRR_TEMP: u32 = 1 << 0;
    /// TRAP: 0 = R7 unchanged (3rd ed. / lace); 1 = R7 = incremented PC (2nd ed.).
    pub const TRAP_R7: u32 = 1 << 1;
    /// (retired) PUSH R7 / POP R7 were once accepted in two orders; the README's wording
    /// ("push the contents of a register", "pop the top value ... into a register") decides:
    /// PUSH R7 stores the value R7 held before the instruction, POP R7 leaves the popped value.
    pub const PUSH_R7_AFTER: u32 = 1 << 2;
    pub const POP_R7_PLUS: u32 = 1 << 3;
    /// Non-ASCII input byte: 0 = R0 = U+FFFD marker (lace's documented replacement);
    /// 1 = R0 = the raw byte.
    pub const NONASCII_RAW: u32 = 1 << 4;
    /// PC after HALT: 0 = 0xFFFF; 1 = incremented PC left as is.
    pub const HALT_PC_KEEP: u32 = 1 << 5;
    pub const ALL: u32 = 0x3F;
}

#[derive(Clone, Copy, Debug, PartialEq, Eq)]
pub enum Step {
    Next,
    Halt,
    Exit(i32),
    /// RTI: outside every claim.
    Rti,
    /// Behaviour the documents leave open in a way not covered by a variant bit
    /// (e.g. PUTS over a word with a non-zero high byte): the case is discarded.
    Unspecified(&'static str),
}

#[derive(Clone)]
pub struct RefVm {
    pub reg: [u16; 8],
    pub pc: u16,
    /// 3 bits nzp; 0 = none.
    pub cc: u8,
    pub mem: Box<[u16; 0x10000]>,
    pub orig: u16,
    pub stack_on: bool,
    pub out: String,
    pub input: VecDeque<u8>,
    pub input_taken: u64,
    pub variant: u32,
    /// Variant bits this execution depended on.
    pub touched: u32,
}

pub fn zero_mem() -> Box<[u16; 0x10000]> {
    vec![0u16; 0x10000].into_boxed_slice().try_into().unwrap()
}

pub fn sext(v: u16, bits: u32) -> u16 {
    let m = 1u16 << (bits - 1);
    let v = v & ((1u32 << bits) - 1) as u16;
    if v & m != 0 {
        v | !(((1u32 << bits) - 1) as u16)
    } else {
        v
    }
}

impl RefVm {
    /// Machine right after loading `raw` = origin word + image words. `None` if the loader must
    /// reject it (empty, or image + sentinel does not fit below 0x10000).
    pub fn load(raw: &[u16], stack_on: bool) -> Option<RefVm> {
        if raw.is_empty() {
            return None;
        }
        let orig = raw[0] as usize;
        let n = raw.len() - 1;
        if orig + n > 0xFFFF {
            return None;
        }
        let mut mem = zero_mem();
        mem[orig..orig + n].copy_from_slice(&raw[1..]);
        mem[orig + n] = 0xF025;
        Some(RefVm {
            reg: [0, 0, 0, 0, 0, 0, 0, 0xFDFF],
            pc: orig as u16,
            cc: 0,
            mem,
            orig: orig as u16,
            stack_on,
            out: String::new(),
            input: VecDeque::new(),
            input_taken: 0,
            variant: 0,
            touched: 0,
        })
    }

    fn setcc(&mut self, v: u16) {
        self.cc = if v == 0 {
            0b010
        } else if v & 0x8000 != 0 {
            0b100
        } else {
            0b001
        };
    }

    fn var(&mut self, bit: u32) -> bool {
        self.touched |= bit;
        self.variant & bit != 0
    }

    fn push(&mut self, v: u16) {
        self.reg[7] = self.reg[7].wrapping_sub(1);
        self.mem[self.reg[7] as usize] = v;
    }
    fn pop(&mut self) -> u16 {
        let v = self.mem[self.reg[7] as usize];
        self.reg[7] = self.reg[7].wrapping_add(1);
        v
    }

    /// Execute instruction word `w`; `self.pc` is already the incremented PC.
    pub fn exec(&mut self, w: u16) -> Step {
        let op = w >> 12;
        let dr = ((w >> 9) & 7) as usize;
        let sr1 = ((w >> 6) & 7) as usize;
        let pc = self.pc;
        match op {
            0x1 | 0x5 => {
                let a = self.reg[sr1];
                let b = if w & 0x20 != 0 {
                    sext(w, 5)
                } else {
                    self.reg[(w & 7) as usize]
                };
                let r = if op == 1 { a.wrapping_add(b) } else { a & b };
                self.reg[dr] = r;
                self.setcc(r);
            }
            0x9 => {
                let r = !self.reg[sr1];
                self.reg[dr] = r;
                self.setcc(r);
            }
            0x0 => {
                let nzp = ((w >> 9) & 7) as u8;
                if nzp & self.cc != 0 {
                    self.pc = pc.wrapping_add(sext(w, 9));
                }
            }
            0xC => {
                self.pc = self.reg[sr1];
            }
            0x4 => {
                if w & 0x0800 != 0 {
                    self.reg[7] = pc;
                    self.pc = pc.wrapping_add(sext(w, 11));
                } else {
                    let base = self.reg[sr1];
                    self.reg[7] = pc;
                    if sr1 == 7 && !self.var(variant::JSRR_TEMP) {
                        // R7 written before BaseR is read
                        self.pc = pc;
                    } else {
                        self.pc = base;
                    }
                }
            }
            0x2 => {
                let v = self.mem[pc.wrapping_add(sext(w, 9)) as usize];
                self.reg[dr] = v;
                self.setcc(v);
            }
            0xA => {
                let p = self.mem[pc.wrapping_add(sext(w, 9)) as usize];
                let v = self.mem[p as usize];
                self.reg[dr] = v;
                self.setcc(v);
            }
            0x6 => {
                let v = self.mem[self.reg[sr1].wrapping_add(sext(w, 6)) as usize];
                self.reg[dr] = v;
                self.setcc(v);
            }
            0xE => {
                // LEA sets the condition codes (2nd-edition ISA; pinned by the repository's own
                // expected debugger output: "CC 001" after `lea`).
                let v = pc.wrapping_add(sext(w, 9));
                self.reg[dr] = v;
                self.setcc(v);
            }
            0x3 => {
                self.mem[pc.wrapping_add(sext(w, 9)) as usize] = self.reg[dr];
            }
            0xB => {
                let p = self.mem[pc.wrapping_add(sext(w, 9)) as usize];
                self.mem[p as usize] = self.reg[dr];
            }
            0x7 => {
                let a = self.reg[sr1].wrapping_add(sext(w, 6));
                self.mem[a as usize] = self.reg[dr];
            }
            0x8 => return Step::Rti,
            0xD => {
                if !self.stack_on {
                    return Step::Exit(1);
                }
                if w & 0x0800 != 0 {
                    if w & 0x0400 != 0 {
                        // CALL
                        self.push(pc);
                        self.pc = pc.wrapping_add(sext(w, 10));
                    } else {
                        // RETS
                        self.pc = self.pop();
                    }
                } else if w & 0x0400 != 0 {
                    // PUSH
                    // "push the contents of a register": the value the register holds when the
                    // instruction starts, also for R7 (the stack pointer itself)
                    let v = self.reg[sr1];
                    self.push(v);
                } else {
                    // POP
                    // "pop the top value of the stack off into a register": the named register
                    // ends up holding the popped value, also when it is R7
                    let v = self.pop();
                    self.reg[sr1] = v;
                }
            }
            0xF => return self.trap(w),
            _ => unreachable!(),
        }
        Step::Next
    }

    fn read_input(&mut self) -> Option<u16> {
        let b = self.input.pop_front()?;
        self.input_taken += 1;
        Some(if b < 0x80 {
            b as u16
        } else if self.var(variant::NONASCII_RAW) {
            b as u16
        } else {
            0xFFFD
        })
    }

    fn trap(&mut self, w: u16) -> Step {
        let vect = w & 0xFF;
        if !(0x20..=0x27).contains(&vect) {
            return Step::Exit(0xEE);
        }
        let pc = self.pc;
        if self.var(variant::TRAP_R7) {
            self.reg[7] = pc;
        }
        match vect {
            0x20 => match self.read_input() {
                Some(v) => self.reg[0] = v,
                None => return Step::Exit(1),
            },
            0x21 => {
                self.out.push((self.reg[0] & 0xFF) as u8 as char);
            }
            0x22 => {
                let mut a = self.reg[0];
                for _ in 0..0x10000u32 {
                    let word = self.mem[a as usize];
                    if word == 0 {
                        return Step::Next;
                    }
                    if word & 0xFF00 != 0 {
                        return Step::Unspecified("PUTS over a word with a non-zero high byte");
                    }
                    self.out.push(word as u8 as char);
                    a = a.wrapping_add(1);
                }
                return Step::Unspecified("PUTS without terminator");
            }
            0x23 => match self.read_input() {
                Some(v) => {
                    self.reg[0] = v;
                    // echo
                    match char::from_u32(v as u32) {
                        Some(c) => self.out.push(c),
                        None => return Step::Unspecified("IN echo of a surrogate"),
                    }
                }
                None => return Step::Exit(1),
            },
            0x24 => {
                let mut a = self.reg[0];
                for _ in 0..0x10000u32 {
                    let word = self.mem[a as usize];
                    if word == 0 {
                        return Step::Next;
                    }
                    let lo = (word & 0xFF) as u8;
                    let hi = (word >> 8) as u8;
                    if lo == 0 {
                        return Step::Unspecified("PUTSP word with an empty low byte");
                    }
                    self.out.push(lo as char);
                    if hi == 0 {
                        // Odd-length string: this must be the last word. Whether output stops
                        // here or at the following x0000 is the same thing iff the next word is 0.
                        let next = self.mem[a.wrapping_add(1) as usize];
                        if next != 0 {
                            return Step::Unspecified("PUTSP zero high byte not in last word");
                        }
                        return Step::Next;
                    }
                    self.out.push(hi as char);
                    a = a.wrapping_add(1);
                }
                return Step::Unspecified("PUTSP without terminator");
            }
            0x25 => {
                if !self.var(variant::HALT_PC_KEEP) {
                    self.pc = 0xFFFF;
                }
                return Step::Halt;
            }
            0x26 => {
                self.out.push_str(&format!("{}", self.reg[0] as i16));
            }
            0x27 => {
                // minimal-mode register dump
                for i in 0..8 {
                    self.out.push_str(&format!("R{} x{:04x}\n", i, self.reg[i]));
                }
                self.out.push_str(&format!("PC x{:04x}\n", self.pc));
                self.out.push_str(&format!("CC {:03b}\n", self.cc));
            }
            _ => unreachable!(),
        }
        Step::Next
    }
}

#[derive(Clone, Debug, PartialEq, Eq)]
pub enum Stop {
    /// HALT executed.
    Halt,
    /// PC became 0xFFFF other than by HALT.
    EndFfff,
    /// PC < origin.
    ExcLow,
    /// PC >= 0xFE00 (and != 0xFFFF).
    ExcHigh,
    Exit(i32),
    Fuel,
    Discard(&'static str),
}

impl Stop {
    pub fn name(&self) -> String {
        match self {
            Stop::Halt => "halt".into(),
            Stop::EndFfff => "end_ffff".into(),
            Stop::ExcLow => "exc_low".into(),
            Stop::ExcHigh => "exc_high".into(),
            Stop::Exit(c) => format!("exit_{}", c),
            Stop::Fuel => "fuel".into(),
            Stop::Discard(_) => "discard".into(),
        }
    }
}

impl RefVm {
    /// The run model: fetch/increment/execute until a stop; at most `fuel` fetches.
    /// Appends `(pc, word)` to `trace` for every fetch.
    pub fn run(&mut self, fuel: u64, trace: Option<&mut Vec<(u16, u16)>>) -> Stop {
        let mut trace = trace;
        let mut n = 0u64;
        loop {
            if self.pc == 0xFFFF {
                return Stop::EndFfff;
            }
            if self.pc < self.orig {
                return Stop::ExcLow;
            }
            if self.pc >= USER_END {
                return Stop::ExcHigh;
            }
            if n >= fuel {
                return Stop::Fuel;
            }
            n += 1;
            let w = self.mem[self.pc as usize];
            if let Some(t) = trace.as_deref_mut() {
                t.push((self.pc, w));
            }
            self.pc = self.pc.wrapping_add(1);
            match self.exec(w) {
                Step::Next => {}
                Step::Halt => return Stop::Halt,
                Step::Exit(c) => return Stop::Exit(c),
                Step::Rti => return Stop::Discard("RTI"),
                Step::Unspecified(why) => return Stop::Discard(why),
            }
        }
    }
}
