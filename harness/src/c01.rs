//! C01 — the assembled image is the ISA encoding of the source, whatever the layout.
//!
//! Monitor: abstract program -> reference encoder (expected image) and -> several randomised
//! renderings -> real assembler through the public API (fresh thread each) -> compare images.

use crate::exec::{assemble_after, assemble_fresh, AsmOutcome};
use crate::refasm::*;
use crate::util::{hash_bytes, CaseOut, Collector, Rng, J};
use crate::Cfg;

pub const FLOORS: &[&str] = &[
    "neg:ADDi", "pos:ADDi", "neg:ANDi", "pos:ANDi", "neg:LDR", "pos:LDR", "neg:STR", "pos:STR",
    "fwd:BR", "back:BR", "self:BR", "fwd:LD", "back:LD", "fwd:LDI", "back:LDI", "fwd:LEA", "back:LEA",
    "fwd:ST", "back:ST", "fwd:STI", "back:STI", "fwd:JSR", "back:JSR", "fwd:CALL", "back:CALL",
    "neglit:BR", "neglit:LD", "neglit:JSR", "form:TRAP", "form:ALIAS", "form:NOT", "form:JMP",
    "form:JSRR", "form:RET", "form:PUSH", "form:POP", "form:RETS", "form:FILL", "form:BLKW",
    "form:STRINGZ", "orig:none", "orig:lt3000", "orig:3000", "orig:mid", "orig:ge8000",
    "layout:wild", "layout:canonical", "accepted", "unencodable_rejected", "text_after_end:with_orig", "text_after_end:no_orig", "big_blkw_count", "second_assembly_on_its_thread",
];

pub fn sweep_stmts() -> Vec<Stmt> {
    let mut v = Vec::new();
    for d in 0..8u8 {
        for a in 0..8u8 {
            for b in 0..8u8 {
                v.push(Stmt::AddR(d, a, b));
                v.push(Stmt::AndR(d, a, b));
            }
            for i in -16..16 {
                v.push(Stmt::AddI(d, a, i));
                v.push(Stmt::AndI(d, a, i));
            }
            v.push(Stmt::Not(d, a));
            for o in -32..32 {
                v.push(Stmt::Ldr(d, a, o));
                v.push(Stmt::Str(d, a, o));
            }
        }
        v.push(Stmt::Jmp(d));
        v.push(Stmt::Jsrr(d));
        v.push(Stmt::Push(d));
        v.push(Stmt::Pop(d));
        for off in -256..256 {
            let t = Target::Lit(off);
            v.push(Stmt::Ld(d, t.clone()));
            v.push(Stmt::Ldi(d, t.clone()));
            v.push(Stmt::Lea(d, t.clone()));
            v.push(Stmt::St(d, t.clone()));
            v.push(Stmt::Sti(d, t.clone()));
        }
    }
    for nzp in 1..8u8 {
        for off in -256..256 {
            v.push(Stmt::Br(nzp, Target::Lit(off)));
        }
    }
    for off in -1024..1024 {
        v.push(Stmt::Jsr(Target::Lit(off)));
    }
    for t in 0..256 {
        v.push(Stmt::Trap(t));
    }
    for a in 0x20..0x28u8 {
        v.push(Stmt::Alias(a));
    }
    v.push(Stmt::Ret);
    v.push(Stmt::Rti);
    v.push(Stmt::Rets);
    v
}

/// Label geometry: `form` referencing a label at signed distance `d` (field value), padded with
/// `.blkw` / `.stringz` / `.fill`.
pub fn geometry_program(form: usize, d: i32, rng: &mut Rng) -> Program {
    let r = rng.below(8) as u8;
    let lab = "target".to_string();
    let t = Target::Label(lab.clone());
    let stmt = match form {
        0 => Stmt::Br(1 + rng.below(7) as u8, t),
        1 => Stmt::Ld(r, t),
        2 => Stmt::Ldi(r, t),
        3 => Stmt::Lea(r, t),
        4 => Stmt::St(r, t),
        5 => Stmt::Sti(r, t),
        6 => Stmt::Jsr(t),
        _ => Stmt::Call(lab.clone()),
    };
    let pad = |n: usize, rng: &mut Rng| -> Vec<Item> {
        // n words of padding from a mix of directives
        let mut items = Vec::new();
        let mut left = n;
        while left > 0 {
            let s = match rng.below(4) {
                0 => Stmt::Fill(rng.below(0x10000) as i32),
                1 if left >= 2 => {
                    let k = 1 + rng.below((left - 1).min(6) as u64) as usize;
                    Stmt::Stringz("abcdefgh"[..k].to_string())
                }
                _ => Stmt::Blkw(left.min(1 + rng.below(300) as usize) as i32),
            };
            left -= s.words();
            items.push(Item::Stmt { label: None, stmt: s });
        }
        items
    };
    let mut items = Vec::new();
    if rng.bool() {
        items.push(Item::Orig(gen_origin(rng)));
    }
    // optional prefix so the referencing statement is not always first
    for _ in 0..rng.below(3) {
        items.push(Item::Stmt {
            label: None,
            stmt: Stmt::AddR(0, 0, 0),
        });
    }
    if d >= 0 {
        // target is d words after the next instruction
        items.push(Item::Stmt { label: None, stmt });
        items.extend(pad(d as usize, rng));
        items.push(Item::Stmt {
            label: Some(lab),
            stmt: Stmt::Alias(0x25),
        });
    } else if d == -1 {
        // self reference
        items.push(Item::Stmt {
            label: Some(lab),
            stmt,
        });
    } else {
        // target is |d| - 1 words before the referencing statement
        items.push(Item::Stmt {
            label: Some(lab),
            stmt: Stmt::Alias(0x25),
        });
        items.extend(pad((-d - 2) as usize, rng));
        items.push(Item::Stmt { label: None, stmt });
    }
    Program { items }
}

pub struct Plan {
    pub sweep: Vec<Stmt>,
    pub sweep_stride: u64,
    pub n_sweep: u64,
    pub n_geom: u64,
    pub geom_full: bool,
    pub n_random: u64,
    pub renderings: u64,
}

pub fn plan(cfg: &Cfg) -> Plan {
    let sweep = sweep_stmts();
    let stride = if cfg.miri {
        997
    } else if cfg.thorough() {
        1
    } else {
        4
    };
    let n_sweep = (sweep.len() as u64 + stride - 1) / stride;
    let geom_full = cfg.thorough();
    // forms 0..=5: 9 bits (512 distances), 6: 11 bits (2048), 7: 10 bits (1024)
    let n_geom = if cfg.miri {
        12
    } else if geom_full {
        // every in-range distance of every field, plus the sampled set (which includes
        // distances just beyond each field)
        6 * 512 + 2048 + 1024 + 1200
    } else {
        1200
    };
    Plan {
        sweep,
        sweep_stride: stride,
        n_sweep,
        n_geom,
        geom_full,
        n_random: cfg.n(3000, 60000, 12),
        renderings: if cfg.miri { 1 } else if cfg.thorough() { 4 } else { 2 },
    }
}

fn geom_case(i: u64, full: bool, rng: &mut Rng) -> (usize, i32) {
    let bits = |form: usize| match form {
        6 => 11,
        7 => 10,
        _ => 9,
    };
    const FULL: u64 = 6 * 512 + 2048 + 1024;
    if full && i < FULL {
        let mut i = i;
        for form in 0..8usize {
            let n = 1u64 << bits(form);
            if i < n {
                let half = (n / 2) as i32;
                return (form, i as i32 - half);
            }
            i -= n;
        }
        (0, 0)
    } else {
        let i = if full { i - FULL } else { i };
        let form = (i % 8) as usize;
        let half = 1i32 << (bits(form) - 1);
        let d = match (i / 8) % 8 {
            6 => half + rng.below(80) as i32,
            7 => -half - 1 - rng.below(80) as i32,
            0 => -half,
            1 => half - 1,
            2 => *rng.pick(&[-1, 0, -2, 1]),
            _ => rng.range(-half as i64, half as i64 - 1) as i32,
        };
        (form, d)
    }
}

const N_BIG_DIRECTIVES: u64 = 6;

pub fn run(cfg: &Cfg, col: &mut Collector) {
    let plan = plan(cfg);
    let total = plan.n_sweep + plan.n_geom + plan.n_random;
    let seed = cfg.seed;
    let plan_ref = &plan;
    crate::util::run_cases_plain(total, cfg.only_case, cfg.threads, col, move |i| {
        one_case(plan_ref, seed, i)
    });
    col.extra.push((
        "plan".into(),
        J::obj(vec![
            ("single_statement_sweep_cases", J::I(plan.n_sweep as i64)),
            ("single_statement_sweep_size", J::I(plan.sweep.len() as i64)),
            ("sweep_stride", J::I(plan.sweep_stride as i64)),
            ("label_geometry_cases", J::I(plan.n_geom as i64)),
            ("label_geometry_every_distance", J::B(plan.geom_full)),
            ("random_programs", J::I(plan.n_random as i64)),
            ("renderings_per_program", J::I(plan.renderings as i64)),
        ]),
    ));
}

fn one_case(plan: &Plan, seed: u64, i: u64) -> CaseOut {
    let mut out = CaseOut::new();
    let mut rng = Rng::for_case(seed, "C01", i);
    let (program, kind) = if i < plan.n_sweep {
        // rotate the stride offset with the seed so that different seeds cover different residues
        let k = (i * plan.sweep_stride + seed % plan.sweep_stride) as usize % plan.sweep.len();
        let stmt = plan.sweep[k].clone();
        let mut items = Vec::new();
        if rng.chance(1, 3) {
            items.push(Item::Orig(gen_origin(&mut rng)));
        }
        // literal offsets are relative to the statement, wherever it is
        for _ in 0..rng.below(3) {
            items.push(Item::Stmt {
                label: None,
                stmt: Stmt::Not(1, 2),
            });
        }
        items.push(Item::Stmt { label: None, stmt });
        (Program { items }, "sweep")
    } else if i < plan.n_sweep + plan.n_geom {
        let (form, d) = geom_case(i - plan.n_sweep, plan.geom_full, &mut rng);
        (geometry_program(form, d, &mut rng), "geometry")
    } else if i >= plan.n_sweep + plan.n_geom + plan.n_random - N_BIG_DIRECTIVES && !cfg!(miri) {
        // data directives whose count or length is at or beyond 2^15 (where a signed 16-bit view of
        // the operand turns negative), followed by statements whose position depends on them
        let k = i - (plan.n_sweep + plan.n_geom + plan.n_random - N_BIG_DIRECTIVES);
        let count = [32767, 32768, 40000, 32769, 50000, 65000][k as usize % 6];
        let st = |label: Option<&str>, stmt: Stmt| Item::Stmt { label: label.map(|s| s.to_string()), stmt };
        let mut items = Vec::new();
        if count > 50000 {
            items.push(Item::Orig(0x0010));
        } else if k % 2 == 1 {
            items.push(Item::Orig(0x0400));
        }
        items.push(st(None, Stmt::Ld(1, Target::Label("near".into()))));
        items.push(st(Some("near"), Stmt::AddI(1, 1, 1)));
        items.push(st(Some("buf"), Stmt::Blkw(count)));
        items.push(st(None, Stmt::Fill(0x1234)));
        items.push(st(Some("tail"), Stmt::Lea(2, Target::Label("tail".into()))));
        items.push(st(None, Stmt::Alias(0x25)));
        out.class("big_blkw_count");
        (Program { items }, "big_directive")
    } else {
        let stack = rng.bool();
        let o = GenOpts {
            stack,
            max_stmts: if rng.chance(1, 10) { 120 } else { 30 },
            ..Default::default()
        };
        (gen_program(&mut rng, &o), "random")
    };
    check_program(&mut out, &program, plan.renderings, &mut rng, i, kind);
    out
}

pub fn origin_class(o: Option<u16>) -> &'static str {
    match o {
        None => "orig:none",
        Some(0x3000) => "orig:3000",
        Some(v) if v < 0x3000 => "orig:lt3000",
        Some(v) if v < 0x8000 => "orig:mid",
        Some(_) => "orig:ge8000",
    }
}

fn classes_of(out: &mut CaseOut, p: &Program, img: &RefImage) {
    out.class(origin_class(img.orig));
    let mut idx = 0usize;
    for item in &p.items {
        let Item::Stmt { stmt, .. } = item else {
            if matches!(item, Item::End) {
                if !matches!(p.items.last(), Some(Item::End)) {
                    out.class(if img.orig.is_some() { "text_after_end:with_orig" } else { "text_after_end:no_orig" });
                }
                break;
            }
            continue;
        };
        let form = stmt.form();
        match stmt {
            Stmt::AddI(_, _, v) | Stmt::AndI(_, _, v) | Stmt::Ldr(_, _, v) | Stmt::Str(_, _, v) => {
                out.class(format!("{}:{}", if *v < 0 { "neg" } else { "pos" }, form));
            }
            _ => {}
        }
        let tgt = match stmt {
            Stmt::Call(l) => Some(Target::Label(l.clone())),
            s => s.target().cloned(),
        };
        match tgt {
            Some(Target::Label(l)) => {
                if let Some(li) = img.label_index(&l) {
                    let off = li as i64 - (idx as i64 + 1);
                    let dir = if off == -1 {
                        "self"
                    } else if off < 0 {
                        "back"
                    } else {
                        "fwd"
                    };
                    out.class(format!("{}:{}", dir, form));
                }
            }
            Some(Target::Lit(v)) => {
                if v < 0 {
                    out.class(format!("neglit:{}", form));
                }
            }
            None => {}
        }
        out.class(format!("form:{}", form));
        idx += stmt.words();
    }
}

fn on_thread<R: Send>(f: impl FnOnce() -> R + Send) -> Option<R> {
    std::thread::scope(|s| {
        std::thread::Builder::new()
            .stack_size(4 << 20)
            .spawn_scoped(s, f)
            .ok()?
            .join()
            .ok()
    })
}

pub fn check_program(
    out: &mut CaseOut,
    program: &Program,
    renderings: u64,
    rng: &mut Rng,
    case: u64,
    kind: &str,
) {
    let verdict = encode(program);
    let (img, open) = match &verdict {
        Verdict::Accept(img) => (img.clone(), false),
        Verdict::Either(img) => (img.clone(), true),
        Verdict::Reject(why) => {
            // A program with a label reference that no field value can express: if the assembler
            // nevertheless accepts it, the image cannot be "the ISA encoding of the source".
            let stack = uses_stack_ext(program);
            let rendered = render(program, &Layout::canonical(), rng);
            let text = rendered.text.clone();
            match on_thread(|| assemble_fresh(&text, stack)) {
                Some(AsmOutcome::Ok(got)) => out.violate(
                    "C01/accepted-source-has-no-encoding",
                    case,
                    format!("accepted although {}: the emitted field cannot equal target - (address + 1)", why),
                    J::obj(vec![
                        ("kind", J::s(kind)),
                        ("source", J::s(&rendered.text[..rendered.text.len().min(1500)])),
                        ("got_words", J::words(&got.words[..got.words.len().min(16)])),
                    ]),
                ),
                Some(_) => out.class("unencodable_rejected"),
                None => out.inconclusive = Some("assembler thread could not be joined".into()),
            }
            return;
        }
    };
    classes_of(out, program, &img);
    let stack = uses_stack_ext(program) || rng.chance(1, 4);
    let mut outcomes: Vec<(String, AsmOutcome)> = Vec::new();
    for ri in 0..renderings {
        let lay = if ri == 0 && rng.bool() {
            Layout::canonical()
        } else {
            Layout::random(rng)
        };
        out.class(if lay.wild { "layout:wild" } else { "layout:canonical" });
        let rendered = render(program, &lay, rng);
        let text = rendered.text.clone();
        let res = if rng.chance(1, 4) {
            // as the second assembly on its thread (what `lace watch` and any library user do), after an
            // earlier version of the same program: one more statement in front (every label one word
            // further on) or the last label's statement missing
            let mut earlier = program.clone();
            let at = earlier.items.iter().position(|it| matches!(it, Item::Stmt { .. })).unwrap_or(0);
            if rng.bool() {
                earlier.items.insert(at, Item::Stmt { label: None, stmt: Stmt::AddI(0, 0, 0) });
            } else if let Some(last) = earlier.items.iter().rposition(|it| matches!(it, Item::Stmt { label: Some(_), .. })) {
                earlier.items.remove(last);
            }
            let before = render(&earlier, &Layout::canonical(), rng).text;
            out.class("second_assembly_on_its_thread");
            on_thread(|| assemble_after(&before, &text, stack))
        } else {
            on_thread(|| assemble_fresh(&text, stack))
        };
        match res {
            Some(o) => outcomes.push((rendered.text, o)),
            None => {
                out.inconclusive = Some("assembler thread could not be joined".into());
                return;
            }
        }
    }
    out.evals = renderings;
    let nontrivial = program.items.iter().any(|i| match i {
        Item::Stmt { stmt, .. } => {
            stmt.pcrel_bits().is_some()
                || matches!(stmt, Stmt::AddI(_, _, v) | Stmt::AndI(_, _, v) | Stmt::Ldr(_, _, v) | Stmt::Str(_, _, v) if *v < 0)
        }
        _ => false,
    });
    if nontrivial {
        out.nontrivial = Some(hash_bytes(format!("{:?}", program).as_bytes()));
    }
    let mut accepted_any = false;
    for (text, o) in &outcomes {
        match o {
            AsmOutcome::Ok(got) => {
                accepted_any = true;
                out.class("accepted");
                if got.origin() != img.origin() || got.words != img.words {
                    // locate first difference
                    let (key, what) = diff_images(program, &img, got);
                    out.violate(
                        key,
                        case,
                        what,
                        J::obj(vec![
                            ("kind", J::s(kind)),
                            ("source", J::s(text)),
                            ("stack_feature", J::B(stack)),
                            ("expected_origin", J::s(format!("{:?}", img.orig))),
                            ("got_origin", J::s(format!("{:?}", got.orig))),
                            ("expected_words", J::words(&img.words[..img.words.len().min(64)])),
                            ("got_words", J::words(&got.words[..got.words.len().min(64)])),
                        ]),
                    );
                    return;
                }
            }
            AsmOutcome::Rejected(_) => out.class(if open { "rejected_open" } else { "rejected_valid" }),
            AsmOutcome::Crashed { .. } => out.class("crashed_valid"),
        }
    }
    // layout sensitivity: one rendering accepted, another of the same program not
    if accepted_any && !open {
        for (text, o) in &outcomes {
            let why = match o {
                AsmOutcome::Ok(_) => continue,
                AsmOutcome::Rejected(d) => format!("rejected: {}", d.message),
                AsmOutcome::Crashed { abort, .. } => format!("crashed: {}", abort.short()),
            };
            let other = outcomes
                .iter()
                .find(|(_, o)| matches!(o, AsmOutcome::Ok(_)))
                .map(|(t, _)| t.clone())
                .unwrap_or_default();
            out.violate(
                "C01/layout-changes-acceptance",
                case,
                format!("one layout of a program assembles, another is {}", why),
                J::obj(vec![
                    ("kind", J::s(kind)),
                    ("accepted_source", J::s(other)),
                    ("refused_source", J::s(text)),
                    ("stack_feature", J::B(stack)),
                ]),
            );
            return;
        }
    }
    if case % 997 == 0 {
        if let Some((text, _)) = outcomes.first() {
            out.sample = Some(J::obj(vec![
                ("kind", J::s(kind)),
                ("source", J::s(text)),
                ("expected_image", J::words(&img.raw()[..img.raw().len().min(24)])),
            ]));
        }
    }
}

fn diff_images(p: &Program, want: &RefImage, got: &crate::exec::Image) -> (String, String) {
    if want.origin() != got.origin() {
        return (
            "C01/origin".into(),
            format!("origin {:?}, expected {:?}", got.orig, want.orig),
        );
    }
    if want.words.len() != got.words.len() {
        return (
            "C01/length".into(),
            format!("{} words emitted, expected {}", got.words.len(), want.words.len()),
        );
    }
    for (i, (w, g)) in want.words.iter().zip(&got.words).enumerate() {
        if w != g {
            let form = match &p.items[want.item_of_word[i]] {
                Item::Stmt { stmt, .. } => stmt.form(),
                _ => "?",
            };
            let item = format!("{:?}", p.items[want.item_of_word[i]]);
            return (
                format!("C01/word/{}", form),
                format!("word {} is x{:04X}, ISA encoding x{:04X} for {}", i, g, w, item),
            );
        }
    }
    ("C01/?".into(), "images differ".into())
}
