//! Reference model of the debugger's control behaviour (over the reference VM), written from the
//! property texts and help.txt. Shares no code with lace.

use crate::refvm::{RefVm, Step, Stop, USER_END};

#[derive(Clone, Debug, PartialEq)]
pub enum Cmd {
    Step,
    StepInto(u32),
    StepOut,
    Continue,
    BreakAdd(u16),
    BreakRemove(u16),
    BreakList,
    /// print / registers / assembly / echo / help ... : no effect on the machine
    Inspect(String),
    MoveReg(u8, u16),
    MoveMem(u16, u16),
    Goto(u16),
    /// Location given as absolute address, label +/- offset or PC offset
    BreakAddLoc(Loc),
    BreakRemoveLoc(Loc),
    GotoLoc(Loc),
    MoveMemLoc(Loc, u16),
    /// A line the documented grammar rejects: reported as an error, no effect, no new prompt.
    Rejected(String),
    Reset,
    /// `eval jmp rK` (branches are not allowed in `eval`, JMP is): the PC becomes the register's value,
    /// nothing else changes.
    EvalJmp(u8),
    Quit,
    Exit,
}

/// A memory location as the user can spell it.
#[derive(Clone, Debug, PartialEq)]
pub enum Loc {
    Abs(u16),
    /// label name, absolute address the assembler gave the labelled statement, offset
    Label(String, u16, i32),
    /// `^offset` from the current PC
    Pc(i32),
}

/// One of the documented spellings of a non-negative integer (radix letters in either case, the
/// optional zero before them, `#`, a plus sign before or after the prefix); every candidate is
/// shown to the reference grammar first and only used if that reads it back as the same number.
pub fn spell(m: u64, pick: u64) -> String {
    let c = &match pick % 18 {
        0 => format!("{}", m),
        1 => format!("x{:x}", m),
        2 => format!("#{}", m),
        3 => format!("0x{:X}", m),
        4 => format!("X{:X}", m),
        5 => format!("0X{:x}", m),
        6 => format!("o{:o}", m),
        7 => format!("O{:o}", m),
        8 => format!("b{:b}", m),
        9 => format!("0b{:b}", m),
        10 => format!("0o{:o}", m),
        11 => format!("B{:b}", m),
        12 => format!("+{}", m),
        13 => format!("x+{:x}", m),
        14 => format!("+X{:X}", m),
        15 => format!("#+{}", m),
        16 => format!("0B{:b}", m),
        _ => format!("0O{:o}", m),
    };
    match crate::refcmd::integer(c) {
        crate::refcmd::IntRes::Value(v) if v == m as i64 => c.clone(),
        _ => format!("x{:x}", m),
    }
}

impl Loc {
    /// Address as a mathematical integer; valid only inside [origin, 0xFE00).
    pub fn resolve(&self, pc: u16, orig: u16) -> Option<u16> {
        let a: i64 = match self {
            Loc::Abs(a) => *a as i64,
            Loc::Label(_, base, off) => *base as i64 + *off as i64,
            Loc::Pc(off) => pc as i64 + *off as i64,
        };
        if a >= orig as i64 && a < USER_END as i64 {
            Some(a as u16)
        } else {
            None
        }
    }
    pub fn text(&self, pick: u64) -> String {
        let num = |v: i64, pick: u64| -> String {
            let (neg, m) = (v < 0, v.unsigned_abs());
            // (a sign of its own is added below: candidates that carry one are skipped)
            let mut body = spell(m, pick);
            if body.contains('+') {
                body = format!("x{:x}", m);
            }
            if neg {
                format!("-{}", body)
            } else {
                body
            }
        };
        match self {
            Loc::Abs(a) => match pick % 5 {
                0 => format!("x{:04x}", a),
                1 => format!("0x{:04X}", a),
                2 => format!("{}", a),
                _ => spell(*a as u64, pick / 5),
            },
            // (bare only if the reference grammar reads the bare name as a label: `b10` alone is a number)
            Loc::Label(name, _, 0)
                if pick % 2 == 0 && matches!(crate::refcmd::memory_location(name), Ok(crate::refcmd::RLoc::Label(n, 0)) if n == *name) =>
            {
                name.clone()
            }
            Loc::Label(name, _, off) => {
                if *off < 0 {
                    format!("{}{}", name, num(*off as i64, pick / 2))
                } else {
                    format!("{}+{}", name, num(*off as i64, pick / 2))
                }
            }
            Loc::Pc(0) if pick % 2 == 0 => "^".to_string(),
            Loc::Pc(off) => format!("^{}", num(*off as i64, pick / 2)),
        }
    }
}

impl Cmd {
    pub fn is_resuming(&self) -> bool {
        matches!(self, Cmd::Step | Cmd::StepInto(_) | Cmd::StepOut | Cmd::Continue)
    }
    /// One of the documented spellings (picked by `pick`).
    pub fn text(&self, pick: u64) -> String {
        let p = |opts: &[&str]| opts[(pick as usize) % opts.len()].to_string();
        // a 16-bit number: mostly the plain x0000 form, one time in three any documented spelling
        let addr = |a: u16| -> String {
            if (pick / 7) % 3 == 0 {
                spell(a as u64, pick / 21)
            } else {
                format!("x{:04x}", a)
            }
        };
        match self {
            Cmd::Step => p(&["step", "s", "STEP", "Step"]),
            Cmd::StepInto(k) => {
                let name = p(&["step into", "si", "s i", "stepinto", "step i", "s into", "SI"]);
                if *k == 1 && pick % 3 == 0 {
                    name
                } else {
                    match pick % 6 {
                        0 => format!("{} {}", name, k),
                        1 => format!("{} #{}", name, k),
                        2 => format!("{} x{:x}", name, k),
                        3 => format!("{}  {}", name, k),
                        _ => format!("{} {}", name, spell(*k as u64, pick / 6)),
                    }
                }
            }
            Cmd::StepOut => p(&["step out", "so", "s o", "stepout", "step o", "s out"]),
            Cmd::Continue => p(&["continue", "c", "cont", "CONTINUE"]),
            Cmd::BreakAdd(a) => format!("{} {}", p(&["break add", "ba", "b a", "breakadd", "break a", "b add"]), addr(*a)),
            Cmd::BreakRemove(a) => {
                format!("{} {}", p(&["break remove", "br", "b r", "breakremove", "break r", "b remove"]), addr(*a))
            }
            Cmd::BreakList => p(&["break list", "bl", "b l", "breaklist", "break l"]),
            Cmd::Inspect(s) => s.clone(),
            Cmd::MoveReg(r, v) => format!("{} r{} {}", p(&["move", "m"]), r, addr(*v)),
            Cmd::MoveMem(a, v) => format!("{} {} x{:04x}", p(&["move", "m"]), addr(*a), v),
            Cmd::Goto(a) => format!("{} {}", p(&["goto", "g"]), addr(*a)),
            Cmd::BreakAddLoc(l) => format!("{} {}", p(&["break add", "ba", "b a"]), l.text(pick / 8)),
            Cmd::BreakRemoveLoc(l) => format!("{} {}", p(&["break remove", "br", "b r"]), l.text(pick / 8)),
            Cmd::GotoLoc(l) => format!("{} {}", p(&["goto", "g"]), l.text(pick / 8)),
            Cmd::MoveMemLoc(l, v) => format!("{} {} x{:04x}", p(&["move", "m"]), l.text(pick / 8), v),
            Cmd::Rejected(s) => s.clone(),
            Cmd::Reset => p(&["reset", "z"]),
            Cmd::EvalJmp(r) => format!("{} {} {}{}", p(&["eval", "e"]), p(&["jmp", "JMP", "Jmp"]), p(&["r", "R"]), r),
            Cmd::Quit => p(&["quit", "q"]),
            Cmd::Exit => p(&["exit", "x", ":q"]),
        }
    }
}

/// How a command left the session.
#[derive(Clone, Debug, PartialEq)]
pub enum After {
    /// Paused again; the debugger reads the next command.
    Prompt,
    /// The process exits while executing under the debugger (unknown trap, stack opcode without
    /// the feature, end of input): exit status.
    ProcessExit(i32),
    /// `exit`: run() returns, nothing more executes.
    ExitCommand,
    /// `quit` / end of script: debugger detached, the machine ran on to this stop.
    Detached(Stop),
    /// Instruction budget of the model exhausted.
    Fuel,
    /// Reference met RTI or a documented-unspecified situation.
    Discard(&'static str),
}

#[derive(Clone)]
pub struct RefDbg {
    pub vm: RefVm,
    pub initial: RefVm,
    /// sorted, no duplicates
    pub bps: Vec<u16>,
    pub executed: u64,
    pub fuel: u64,
    /// number of `step` commands that fell into the ambiguous class, by reading followed
    pub ambiguous_steps: (u64, u64),
}

#[derive(Clone, Copy, Debug, PartialEq)]
pub enum Reading {
    Only,
    A,
    B,
}

pub struct Branch {
    pub dbg: RefDbg,
    pub after: After,
    pub executed: u64,
    pub reading: Reading,
}

fn is_halt(w: u16) -> bool {
    w >> 12 == 0xF && w & 0xFF == 0x25
}
fn is_return(w: u16) -> bool {
    (w >> 12 == 0xC && (w >> 6) & 7 == 7) || (w >> 12 == 0xD && (w >> 10) & 3 == 0b10)
}
fn is_call(w: u16) -> bool {
    w >> 12 == 0x4 || (w >> 12 == 0xD && (w >> 10) & 3 == 0b11)
}

impl RefDbg {
    pub fn new(vm: RefVm, breaks: &[u16], fuel: u64) -> Self {
        let mut bps: Vec<u16> = breaks.to_vec();
        bps.sort_unstable();
        bps.dedup();
        RefDbg {
            initial: vm.clone(),
            vm,
            bps,
            executed: 0,
            fuel,
            ambiguous_steps: (0, 0),
        }
    }

    pub fn in_user_space(&self, a: u16) -> bool {
        a >= self.vm.orig && a < USER_END
    }

    fn word_at_pc(&self) -> u16 {
        self.vm.mem[self.vm.pc as usize]
    }

    /// Conditions which pause execution before the instruction at PC.
    fn must_pause(&self) -> bool {
        !self.in_user_space(self.vm.pc) || self.bps.contains(&self.vm.pc) || is_halt(self.word_at_pc())
    }

    /// Execute one instruction (PC in user space, not HALT).
    fn exec_one(&mut self) -> Result<u16, After> {
        if self.executed >= self.fuel {
            return Err(After::Fuel);
        }
        let w = self.word_at_pc();
        self.vm.pc = self.vm.pc.wrapping_add(1);
        self.executed += 1;
        match self.vm.exec(w) {
            Step::Next => Ok(w),
            Step::Halt => unreachable!("HALT is never executed while attached"),
            Step::Exit(c) => Err(After::ProcessExit(c)),
            Step::Rti => Err(After::Discard("RTI")),
            Step::Unspecified(why) => Err(After::Discard(why)),
        }
    }

    /// Run after a resuming command; `stop_after(self, word_just_executed, count)` is the
    /// command-specific pause condition.
    fn run_until(&mut self, mut stop_after: impl FnMut(&RefDbg, u16, u64) -> bool) -> (After, u64) {
        let start = self.executed;
        // refused: parked on HALT, or outside user space (nothing executes, pauses again)
        if is_halt(self.word_at_pc()) || !self.in_user_space(self.vm.pc) {
            return (After::Prompt, 0);
        }
        loop {
            match self.exec_one() {
                Ok(w) => {
                    let n = self.executed - start;
                    if self.must_pause() || stop_after(self, w, n) {
                        return (After::Prompt, n);
                    }
                }
                Err(after) => return (after, self.executed - start),
            }
        }
    }

    /// Apply one command. Usually one branch; `step` on an instruction which changes PC yields the
    /// two admissible readings when they differ.
    pub fn apply(&self, cmd: &Cmd, stack_on: bool) -> Vec<Branch> {
        let mut d = self.clone();
        let one = |d: RefDbg, after: After, executed: u64| {
            vec![Branch {
                dbg: d,
                after,
                executed,
                reading: Reading::Only,
            }]
        };
        match cmd {
            Cmd::Inspect(_) | Cmd::BreakList | Cmd::Rejected(_) => one(d, After::Prompt, 0),
            Cmd::BreakAddLoc(l) => match l.resolve(d.vm.pc, d.vm.orig) {
                Some(a) => self.apply(&Cmd::BreakAdd(a), stack_on),
                None => one(d, After::Prompt, 0),
            },
            Cmd::BreakRemoveLoc(l) => match l.resolve(d.vm.pc, d.vm.orig) {
                Some(a) => self.apply(&Cmd::BreakRemove(a), stack_on),
                None => one(d, After::Prompt, 0),
            },
            Cmd::GotoLoc(l) => match l.resolve(d.vm.pc, d.vm.orig) {
                Some(a) => self.apply(&Cmd::Goto(a), stack_on),
                None => one(d, After::Prompt, 0),
            },
            Cmd::MoveMemLoc(l, v) => match l.resolve(d.vm.pc, d.vm.orig) {
                Some(a) => self.apply(&Cmd::MoveMem(a, *v), stack_on),
                None => one(d, After::Prompt, 0),
            },
            Cmd::BreakAdd(a) => {
                if d.in_user_space(*a) && !d.bps.contains(a) {
                    d.bps.push(*a);
                    d.bps.sort_unstable();
                }
                one(d, After::Prompt, 0)
            }
            Cmd::BreakRemove(a) => {
                if d.in_user_space(*a) {
                    d.bps.retain(|b| b != a);
                }
                one(d, After::Prompt, 0)
            }
            Cmd::MoveReg(r, v) => {
                d.vm.reg[*r as usize & 7] = *v;
                one(d, After::Prompt, 0)
            }
            Cmd::MoveMem(a, v) => {
                if d.in_user_space(*a) {
                    d.vm.mem[*a as usize] = *v;
                }
                one(d, After::Prompt, 0)
            }
            Cmd::Goto(a) => {
                if d.in_user_space(*a) {
                    d.vm.pc = *a;
                }
                one(d, After::Prompt, 0)
            }
            Cmd::EvalJmp(r) => {
                d.vm.pc = d.vm.reg[*r as usize];
                one(d, After::Prompt, 0)
            }
            Cmd::Reset => {
                let out = std::mem::take(&mut d.vm.out);
                let input = std::mem::take(&mut d.vm.input);
                let taken = d.vm.input_taken;
                let (variant, touched) = (d.vm.variant, d.vm.touched);
                d.vm = d.initial.clone();
                d.vm.out = out;
                d.vm.input = input;
                d.vm.input_taken = taken;
                d.vm.variant = variant;
                d.vm.touched = touched;
                one(d, After::Prompt, 0)
            }
            Cmd::Exit => one(d, After::ExitCommand, 0),
            Cmd::Quit => {
                let before = d.executed;
                let budget = d.fuel.saturating_sub(d.executed);
                let stop = d.vm.run(budget, None);
                // fetch count of the detached run is not tracked by the model's counter
                let _ = before;
                one(d, After::Detached(stop), 0)
            }
            Cmd::Continue => {
                let (after, n) = d.run_until(|_, _, _| false);
                one(d, after, n)
            }
            Cmd::StepInto(k) => {
                let k = (*k).max(1) as u64;
                let (after, n) = d.run_until(|_, _, n| n >= k);
                one(d, after, n)
            }
            Cmd::StepOut => {
                if !stack_on {
                    // refused without the stack feature (pinned by tests/expected/check_every_command)
                    return one(d, After::Prompt, 0);
                }
                let (after, n) = d.run_until(|_, w, _| is_return(w));
                one(d, after, n)
            }
            Cmd::Step => {
                // Reading B: until PC equals the address following the stepped instruction.
                let ret = d.vm.pc.wrapping_add(1);
                let mut b = d.clone();
                let (after_b, n_b) = b.run_until(|s, _, _| s.vm.pc == ret);
                // Reading A: one instruction, or the whole subroutine (matching return) for a call.
                let mut a = d;
                let w0 = a.word_at_pc();
                let (after_a, n_a) = if is_call(w0) {
                    let mut depth: i64 = 0;
                    a.run_until(|_, w, _| {
                        if is_call(w) {
                            depth += 1;
                        } else if is_return(w) {
                            depth -= 1;
                        }
                        depth <= 0
                    })
                } else {
                    a.run_until(|_, _, n| n >= 1)
                };
                let same = after_a == after_b
                    && n_a == n_b
                    && a.vm.pc == b.vm.pc
                    && a.vm.reg == b.vm.reg
                    && a.vm.cc == b.vm.cc
                    && a.vm.mem[..] == b.vm.mem[..]
                    && a.vm.out == b.vm.out;
                if same {
                    vec![Branch {
                        dbg: a,
                        after: after_a,
                        executed: n_a,
                        reading: Reading::Only,
                    }]
                } else {
                    a.ambiguous_steps.0 += 1;
                    b.ambiguous_steps.1 += 1;
                    vec![
                        Branch {
                            dbg: b,
                            after: after_b,
                            executed: n_b,
                            reading: Reading::B,
                        },
                        Branch {
                            dbg: a,
                            after: after_a,
                            executed: n_a,
                            reading: Reading::A,
                        },
                    ]
                }
            }
        }
    }
}
