//! C09 — the debugger is transparent to the program.
//!
//! Differential monitor: the same image run (a) plainly and (b) under the debugger with a script
//! made only of execution-control and inspection commands, then quit / end of input. Program
//! output, consumed input, final registers/PC/CC/memory and exit status must be identical.

use crate::dbgmon::run_session;
use crate::exec::{build_env, final_state, run_env, Abort, RunCfg};
use crate::progs::{gen_structured, ProgOpts};
use crate::refasm::*;
use crate::util::{hash_bytes, CaseOut, Collector, Rng, J};
use crate::Cfg;

pub const FLOORS: &[&str] = &[
    "paused_on_directive_break", "paused_on_runtime_break", "paused_at_halt", "paused_outside_user_space",
    "paused_at_ffff", "ended_by_quit", "ended_by_eof", "end:returned", "end:exit_238", "end:exit_1",
    "malformed_command_in_script", "blank_command_in_script", "feature:loop", "feature:self_modify", "feature:nested_call",
    "output:minimal", "output:decorated", "long_label", "break_table_with_long_label", "halt_written_at_run_time", "program_without_words",
];

const FUEL: u64 = 15_000;

fn arg(rng: &mut Rng, img: &RefImage) -> String {
    let orig = img.origin();
    let n = img.words.len() as u64;
    match rng.below(14) {
        0 => format!("x{:04x}", orig.wrapping_add(rng.below(n + 2) as u16)),
        1 => format!("{}", orig.wrapping_add(rng.below(n + 2) as u16)),
        2 if !img.labels.is_empty() => rng.pick(&img.labels).0.clone(),
        3 if !img.labels.is_empty() => format!("{}+{}", rng.pick(&img.labels).0, rng.below(5)),
        4 => "^".into(),
        5 => format!("^{}", rng.range(-4, 6)),
        6 => format!("r{}", rng.below(8)),
        7 => rng.s(&["x0", "xFFFF", "xFE00", "xFDFF", "0", "65535", "-1", "x8000", "#-32768"]).to_string(),
        8 => rng.s(&["r8", "xyz", "12ab", "^^", "+", "--1", "0#1", "\u{e9}", "nolabel", "x", "#", "R", "^x",
            // an `r` followed by something that is no register digit: a label with an offset, or nothing at all
            "r+1", "r-1", "R-", "r.", "r/", "r#1", "r,", "r!", "R+0", "r-x2", "r:", "r9", "r\u{e9}"]).to_string(),
        9 => format!("{}", rng.below(100000)),
        10 => "".into(),
        11 if !img.labels.is_empty() => {
            // an existing label in the wrong case (labels are case-sensitive: an error plus a hint)
            let name = rng.pick(&img.labels).0.clone();
            let flipped: String =
                name.chars().map(|c| if c.is_ascii_lowercase() { c.to_ascii_uppercase() } else { c.to_ascii_lowercase() }).collect();
            if rng.bool() { flipped } else { format!("{}+{}", flipped, rng.below(3)) }
        }
        _ => format!("x{:x}", rng.u16()),
    }
}

/// One script line made only of non-mutating commands (valid, boundary or malformed arguments).
fn line(rng: &mut Rng, img: &RefImage) -> (String, bool) {
    let a = arg(rng, img);
    let b = arg(rng, img);
    let (name, takes): (&str, u8) = match rng.below(16) {
        0 => (rng.s(&["step", "s", "STEP"]), 0),
        1 => (rng.s(&["step into", "si", "s i", "stepinto"]), 1),
        2 => (rng.s(&["step out", "so", "s o"]), 0),
        3 | 4 => (rng.s(&["continue", "c", "cont"]), 0),
        5 => (rng.s(&["break add", "ba", "b a"]), 1),
        6 => (rng.s(&["break remove", "br", "b r"]), 1),
        7 => (rng.s(&["break list", "bl", "b l"]), 0),
        8 => (rng.s(&["print", "p"]), 1),
        9 => (rng.s(&["registers", "r", "reg"]), 0),
        10 => (rng.s(&["assembly", "a", "asm"]), 1),
        11 => ("echo", 9),
        12 => (rng.s(&["help", "h", "--help"]), 0),
        13 => (rng.s(&["step", "break", "b", "s"]), 1), // sub-command slot filled with an argument
        14 => (rng.s(&["next", "stepover", "finish", "show", "dump", "bp", "blist"]), 0), // misspellings: rejected
        _ => (rng.s(&["si", "c", "s", "p", "a"]), 2), // too many arguments
    };
    let text = match takes {
        0 => {
            if rng.chance(1, 8) {
                format!("{} {}", name, a)
            } else {
                name.to_string()
            }
        }
        1 => format!("{} {}", name, a),
        2 => format!("{} {} {}", name, a, b),
        // (free text: quotes, backslashes and brackets in it are characters like any other)
        _ => format!("echo {}", rng.s(&["hello", "two words", "x3000 r1", "step", "-", "caf\u{e9}", "\"", "'", "\"\"", "''", "\"quoted\"", "' a '", "\"open", "it's", "a \" b", "\\", "\\n", "[", "]", "[x]", "{}", "%s %d", "$HOME", "`", "\u{e9}\"", "\"\u{e9}"])),
    };
    let mut malformed = text.contains("r8") || text.contains("xyz") || text.contains("^^") || takes == 2;
    let mut text = text.trim().to_string();
    if rng.chance(1, 10) {
        // white space that is not a blank between the words: tab, no-break space, em space,
        // ideographic space (whatever the command language makes of them, the program must not notice)
        let sep = *rng.pick(&["\t", "\u{a0}", "\u{2003}", "\u{3000}", " \u{a0}", "\u{a0} "]);
        text = text.replacen(' ', sep, 1 + rng.below(2) as usize);
        malformed = true;
    }
    (text, malformed)
}

pub fn run(cfg: &Cfg, col: &mut Collector) {
    let n = cfg.n(3000, 150_000, 8);
    let seed = cfg.seed;
    crate::util::run_cases(n, cfg.only_case, cfg.threads, col, move |i| one_case(seed, i));
    col.extra.push(("sessions".into(), J::I(n as i64)));
}

struct Plain {
    end: Result<(), Abort>,
    out: String,
    taken: u64,
    fs: crate::exec::FinalState,
}

fn plain_run(text: &str, stack: bool, input: &[u8], minimal: bool) -> Option<Plain> {
    let t = text.to_string();
    let inp = input.to_vec();
    std::thread::scope(|s| {
        std::thread::Builder::new()
            .stack_size(8 << 20)
            .spawn_scoped(s, move || {
                crate::exec::case_minimal(minimal);
                let (mut env, _) = build_env(&t, stack, None).ok()?;
                let obs = run_env(
                    &mut env,
                    RunCfg {
                        fuel: Some(FUEL),
                        input: inp,
                        keep_trace: false,
                        on_prompt: None,
                    },
                );
                Some(Plain {
                    end: obs.end,
                    out: obs.out_normal,
                    taken: obs.input_taken,
                    fs: final_state(&env),
                })
            })
            .ok()?
            .join()
            .ok()?
    })
}

fn one_case(seed: u64, i: u64) -> CaseOut {
    let mut out = CaseOut::new();
    let mut rng = Rng::for_case(seed, "C09", i);
    let stack = rng.bool();
    let origin = match rng.below(6) {
        0 => Some(0x7FF6 + rng.below(10) as i32), // image and PC-relative arguments straddle 0x8000
        1 | 2 => None,
        _ => Some(gen_origin(&mut rng).clamp(1, 0xF000)),
    };
    let o = ProgOpts {
        stack,
        origin,
        breaks: rng.chance(1, 3),
        tame_endings: rng.chance(1, 2),
        ..Default::default()
    };
    let mut built = gen_structured(&mut rng, &o);
    if i % 11 == 4 {
        // programs which write a HALT into their own code at run time and then reach it (a patched
        // placeholder, a routine copied into a buffer, a HALT planted inside a subroutine): where the
        // run ends is decided by the word that is in memory when it is fetched
        let st = |label: Option<&str>, stmt: Stmt| Item::Stmt { label: label.map(|l| l.to_string()), stmt };
        let t = |l: &str| Target::Label(l.to_string());
        // (every other time a TRAP x25 with bits [11:8] set: the vector is the low byte, it halts all the same)
        let hw: i32 = if (i / 33) % 2 == 0 { 0xF025 } else { 0xF025 | ((1 + (i / 66) % 15) as i32) << 8 };
        let mut items: Vec<Item> = match o.origin { Some(v) => vec![Item::Orig(v)], None => vec![] };
        items.extend(match (i / 11) % 3 {
            0 => vec![
                st(None, Stmt::Ld(0, t("hw"))),
                st(None, Stmt::St(0, t("slot"))),
                st(None, Stmt::AddI(1, 1, 1)),
                st(Some("slot"), Stmt::AddI(2, 2, 0)),
                st(None, Stmt::AddI(3, 3, 1)),
                st(None, Stmt::Alias(0x25)),
                st(Some("hw"), Stmt::Fill(hw)),
            ],
            1 => vec![
                st(None, Stmt::Lea(1, t("buf"))),
                st(None, Stmt::Ld(0, t("wadd"))),
                st(None, Stmt::Str(0, 1, 0)),
                st(None, Stmt::Ld(0, t("hw"))),
                st(None, Stmt::Str(0, 1, 1)),
                st(None, Stmt::Jsrr(1)),
                st(None, Stmt::AddI(3, 3, 1)),
                st(None, Stmt::Alias(0x25)),
                st(Some("wadd"), Stmt::Fill(0x14A1)),
                st(Some("hw"), Stmt::Fill(hw)),
                st(Some("buf"), Stmt::Blkw(2)),
            ],
            _ => vec![
                st(None, Stmt::Ld(0, t("hw"))),
                st(None, Stmt::St(0, t("inside"))),
                st(None, Stmt::Jsr(t("sub"))),
                st(None, Stmt::AddI(3, 3, 1)),
                st(None, Stmt::Alias(0x25)),
                st(Some("sub"), Stmt::AddI(1, 1, 1)),
                st(Some("inside"), Stmt::AddI(2, 2, 0)),
                st(None, Stmt::Ret),
                st(Some("hw"), Stmt::Fill(hw)),
            ],
        });
        items.push(Item::End);
        built.program = Program { items };
        built.input.clear();
        out.class("halt_written_at_run_time");
        if hw != 0xF025 {
            out.class("halt_written_at_run_time:with_bits_11_8_set");
        }
    }
    if i % 37 == 9 {
        // a source that assembles to no word at all (comments, `.orig`, `.break`, `.end` only): running it is
        // the loader's HALT and nothing else, with or without the debugger
        let mut items: Vec<Item> = match o.origin { Some(v) => vec![Item::Orig(v)], None => vec![] };
        if (i / 37) % 3 == 1 {
            items.push(Item::Break);
        }
        if (i / 37) % 2 == 0 {
            items.push(Item::End);
        }
        built.program = Program { items };
        built.input.clear();
        out.class("program_without_words");
    }
    // the comparison is about program output and machine state, not debugger text: a third of the
    // sessions use the decorated output mode, whose tables and listings are separate code paths
    let minimal = !rng.chance(1, 3);
    crate::exec::case_minimal(minimal);
    out.class(if minimal { "output:minimal" } else { "output:decorated" });
    // a label longer than any column of the debugger's tables
    let mut long_label: Option<&str> = None;
    if rng.chance(1, 4) {
        let names: Vec<String> = built.program.items.iter().filter_map(|it| match it { Item::Stmt { label: Some(l), .. } => Some(l.clone()), _ => None }).collect();
        if let Some(old) = names.first() {
            let new = "a_rather_long_label_name_for_a_statement";
            rename_label(&mut built.program, old, new);
            long_label = Some(new);
            out.class("long_label");
        }
    }
    let img = match encode(&built.program) {
        Verdict::Accept(img) => img,
        _ => {
            out.evals = 0;
            return out;
        }
    };
    let lay = if rng.bool() { Layout::canonical() } else { Layout::random(&mut rng) };
    let text = render(&built.program, &lay, &mut rng).text;
    let mut lines = Vec::new();
    let mut any_malformed = false;
    for _ in 0..rng.below(13) {
        if rng.chance(1, 12) {
            // a command consisting of blanks only (between two separators): ignored like an empty one
            lines.push(rng.s(&[" ", "   ", "", "\t", " \t "]).to_string());
            out.class("blank_command_in_script");
            continue;
        }
        let (l, m) = line(&mut rng, &img);
        any_malformed |= m;
        lines.push(l);
    }
    if let Some(l) = long_label {
        let at = rng.below(lines.len() as u64 + 1) as usize;
        lines.insert(at, format!("break add {}", l));
        lines.insert((at + 1 + rng.below(2) as usize).min(lines.len()), "break list".to_string());
        if !minimal {
            out.class("break_table_with_long_label");
        }
    }
    let by_quit = rng.bool();
    if by_quit {
        lines.push(rng.s(&["quit", "q", "QUIT"]).to_string());
        // anything after quit is never read by the debugger
    }
    let sep = *rng.pick(&[";", "\n", "\n", "mix"]);
    let script = if sep == "mix" {
        let mut s = String::new();
        for (k, l) in lines.iter().enumerate() {
            if k > 0 {
                s.push(if rng.chance(1, 3) { ';' } else { '\n' });
            }
            s.push_str(l);
        }
        s
    } else {
        lines.join(sep)
    };

    let Some(plain) = plain_run(&text, stack, &built.input, minimal) else {
        out.inconclusive = Some("plain run could not be set up".into());
        return out;
    };
    if plain.end == Err(Abort::Fuel) {
        out.class("discarded_nonterminating");
        return out;
    }
    let sess = match run_session(&text, stack, &script, &built.input, 6 * FUEL, false) {
        Ok(s) => s,
        Err(crate::exec::AsmOutcome::Rejected(d)) => {
            // the plain run of the same text was set up a moment ago: a program that runs can be debugged
            out.violate(
                "C09/refused-under-the-debugger",
                i,
                format!("the program runs plainly, but no session could be started on it: {}", d.message),
                J::obj(vec![("source", J::s(&text)), ("stack_feature", J::B(stack))]),
            );
            return out;
        }
        Err(o) => {
            out.inconclusive = Some(format!("not assembled ({})", o.class()));
            return out;
        }
    };
    let detail = || {
        J::obj(vec![
            ("source", J::s(&text)),
            ("script", J::A(lines.iter().map(J::s).collect())),
            ("separator", J::s(sep)),
            ("stack_feature", J::B(stack)),
            ("input", J::A(built.input.iter().map(|b| J::I(*b as i64)).collect())),
            ("plain_end", J::s(match &plain.end { Ok(()) => "returned".to_string(), Err(a) => a.short() })),
            ("debugged_end", J::s(match &sess.obs.end { Ok(()) => "returned".to_string(), Err(a) => a.short() })),
        ])
    };
    let mut diff: Option<(String, String)> = None;
    if matches!(&sess.obs.end, Err(a) if a.is_rti_todo()) || matches!(&plain.end, Err(a) if a.is_rti_todo()) {
        // the program executed RTI (documented as unimplemented): outside every claim
        out.class("discarded_rti");
        return out;
    }
    if let Err(a @ Abort::Panic { .. }) = &sess.obs.end {
        diff = Some((format!("panic/{}", a.panic_file()), a.short()));
    } else if sess.obs.end != plain.end {
        let aspect = if sess.obs.end == Err(Abort::Fuel) { "no-termination" } else { "exit-status" };
        diff = Some((aspect.into(), "the debugged run ended differently from the plain run".into()));
    } else if sess.obs.out_normal != plain.out {
        diff = Some((
            "output".into(),
            format!("program output {:?} under the debugger, {:?} without", sess.obs.out_normal, plain.out),
        ));
    } else if sess.obs.input_taken != plain.taken {
        diff = Some((
            "input".into(),
            format!("{} input bytes consumed under the debugger, {} without", sess.obs.input_taken, plain.taken),
        ));
    } else {
        let f = &sess.fin;
        if f.reg != plain.fs.reg {
            diff = Some(("registers".into(), format!("final registers {:04X?} vs {:04X?}", f.reg, plain.fs.reg)));
        } else if f.pc != plain.fs.pc {
            diff = Some(("pc".into(), format!("final PC x{:04X} vs x{:04X}", f.pc, plain.fs.pc)));
        } else if f.cc != plain.fs.cc {
            diff = Some(("cc".into(), format!("final CC {:03b} vs {:03b}", f.cc, plain.fs.cc)));
        } else {
            // memory: rebuild the debugged run's final hash from the diff against load-time memory
            let mut mem = sess.init_mem.clone();
            for (a, w) in &f.mem_diff {
                mem[*a as usize] = *w;
            }
            if crate::util::hash_words(&mem[..]) != plain.fs.mem_hash {
                diff = Some(("memory".into(), "final memory differs from the plain run".into()));
            }
        }
    }
    if let Some((aspect, what)) = diff {
        out.violate(format!("C09/{}", aspect), i, what, detail());
        return out;
    }
    // ---- what was observed
    let orig = sess.image.origin();
    for (j, s) in sess.snaps.iter().enumerate() {
        if j == 0 || s.fetches == sess.snaps[j - 1].fetches {
            continue;
        }
        if let Some((_, pre)) = s.bps.iter().find(|b| b.0 == s.pc) {
            out.class(if *pre { "paused_on_directive_break" } else { "paused_on_runtime_break" });
        }
        if s.pc == 0xFFFF {
            out.class("paused_at_ffff");
        } else if s.pc < orig || s.pc >= 0xFE00 {
            out.class("paused_outside_user_space");
        } else if sess.init_mem[s.pc as usize] == 0xF025 {
            out.class("paused_at_halt");
        }
    }
    out.class(if by_quit { "ended_by_quit" } else { "ended_by_eof" });
    out.class(match &plain.end {
        Ok(()) => "end:returned".to_string(),
        Err(a) => format!("end:{}", a.short().replace(['(', ')'], "_").replace("exit_", "exit_").trim_end_matches('_').to_string()),
    });
    if any_malformed {
        out.class("malformed_command_in_script");
    }
    for f in &built.features {
        out.class(format!("feature:{}", f));
    }
    if sess.obs.fetches > 1 && sess.snaps.len() > 1 {
        out.nontrivial = Some(hash_bytes(format!("{}|{}", text, script).as_bytes()));
    }
    if i % 701 == 0 {
        out.sample = Some(detail());
    }
    out
}
