//! Reference assembler model: abstract programs, the ISA encoder with its acceptance predicate,
//! a layout-randomising renderer and program generators. Written from the ISA, the README
//! (extension encodings) and the property texts; shares no code with lace.

use crate::util::Rng;

#[derive(Clone, Debug, PartialEq, Eq, Hash)]
pub enum Target {
    Label(String),
    /// Literal PC offset as written (mathematical integer).
    Lit(i32),
}

#[derive(Clone, Debug, PartialEq, Eq, Hash)]
pub enum Stmt {
    AddR(u8, u8, u8),
    AddI(u8, u8, i32),
    AndR(u8, u8, u8),
    AndI(u8, u8, i32),
    Not(u8, u8),
    /// nzp bits (1..=7)
    Br(u8, Target),
    Jmp(u8),
    Ret,
    Jsr(Target),
    Jsrr(u8),
    Ld(u8, Target),
    Ldi(u8, Target),
    Lea(u8, Target),
    St(u8, Target),
    Sti(u8, Target),
    Ldr(u8, u8, i32),
    Str(u8, u8, i32),
    Rti,
    Trap(i32),
    /// 0x20..=0x27 written with its alias mnemonic
    Alias(u8),
    Push(u8),
    Pop(u8),
    Call(String),
    Rets,
    Fill(i32),
    Blkw(i32),
    Stringz(String),
}

#[derive(Clone, Debug, PartialEq, Eq, Hash)]
pub enum Item {
    Orig(i32),
    Break,
    /// A label followed by `.break` instead of a statement: both mark the next statement (or the
    /// word after the last one, where the loader puts the final HALT).
    LabelBreak(String),
    Stmt { label: Option<String>, stmt: Stmt },
    End,
}

#[derive(Clone, Debug, PartialEq, Eq, Hash, Default)]
pub struct Program {
    pub items: Vec<Item>,
}

impl Stmt {
    pub fn uses_stack_ext(&self) -> bool {
        matches!(self, Stmt::Push(_) | Stmt::Pop(_) | Stmt::Call(_) | Stmt::Rets)
    }
    /// Number of words this statement occupies.
    pub fn words(&self) -> usize {
        match self {
            Stmt::Blkw(n) => (*n).max(0) as usize,
            Stmt::Stringz(s) => unescaped(s).len() + 1,
            _ => 1,
        }
    }
    pub fn form(&self) -> &'static str {
        match self {
            Stmt::AddR(..) => "ADDr",
            Stmt::AddI(..) => "ADDi",
            Stmt::AndR(..) => "ANDr",
            Stmt::AndI(..) => "ANDi",
            Stmt::Not(..) => "NOT",
            Stmt::Br(..) => "BR",
            Stmt::Jmp(..) => "JMP",
            Stmt::Ret => "RET",
            Stmt::Jsr(..) => "JSR",
            Stmt::Jsrr(..) => "JSRR",
            Stmt::Ld(..) => "LD",
            Stmt::Ldi(..) => "LDI",
            Stmt::Lea(..) => "LEA",
            Stmt::St(..) => "ST",
            Stmt::Sti(..) => "STI",
            Stmt::Ldr(..) => "LDR",
            Stmt::Str(..) => "STR",
            Stmt::Rti => "RTI",
            Stmt::Trap(..) => "TRAP",
            Stmt::Alias(..) => "ALIAS",
            Stmt::Push(..) => "PUSH",
            Stmt::Pop(..) => "POP",
            Stmt::Call(..) => "CALL",
            Stmt::Rets => "RETS",
            Stmt::Fill(..) => "FILL",
            Stmt::Blkw(..) => "BLKW",
            Stmt::Stringz(..) => "STRINGZ",
        }
    }
    pub fn target(&self) -> Option<&Target> {
        match self {
            Stmt::Br(_, t) | Stmt::Jsr(t) => Some(t),
            Stmt::Ld(_, t) | Stmt::Ldi(_, t) | Stmt::Lea(_, t) | Stmt::St(_, t) | Stmt::Sti(_, t) => {
                Some(t)
            }
            _ => None,
        }
    }
    /// Width of the PC-relative field, if the statement has one.
    pub fn pcrel_bits(&self) -> Option<u32> {
        match self {
            Stmt::Br(..) | Stmt::Ld(..) | Stmt::Ldi(..) | Stmt::Lea(..) | Stmt::St(..) | Stmt::Sti(..) => {
                Some(9)
            }
            Stmt::Jsr(..) => Some(11),
            Stmt::Call(..) => Some(10),
            _ => None,
        }
    }
}

/// Characters of a `.stringz` body after unescaping `\n \t \r \\ \"` (as documented in the lexer
/// tests / error help: `"hello\n"`). The model only stores bodies whose escapes are among these.
pub fn unescaped(body: &str) -> Vec<char> {
    let mut out = Vec::new();
    let mut it = body.chars();
    while let Some(c) = it.next() {
        if c == '\\' {
            match it.next() {
                Some('n') => out.push('\n'),
                Some('t') => out.push('\t'),
                Some('r') => out.push('\r'),
                Some('\\') => out.push('\\'),
                Some('"') => out.push('"'),
                Some(o) => {
                    out.push('\\');
                    out.push(o);
                }
                None => out.push('\\'),
            }
        } else {
            out.push(c);
        }
    }
    out
}

#[derive(Clone, Debug, PartialEq, Eq)]
pub struct RefImage {
    pub orig: Option<u16>,
    pub words: Vec<u16>,
    /// `.break` positions as word indices.
    pub breaks: Vec<u16>,
    /// For each word, the index (into `Program::items`) of the statement that produced it.
    pub item_of_word: Vec<usize>,
    /// label -> word index
    pub labels: Vec<(String, usize)>,
}

impl RefImage {
    pub fn origin(&self) -> u16 {
        self.orig.unwrap_or(0x3000)
    }
    pub fn raw(&self) -> Vec<u16> {
        let mut v = vec![self.origin()];
        v.extend_from_slice(&self.words);
        v
    }
    pub fn label_index(&self, name: &str) -> Option<usize> {
        self.labels.iter().find(|(n, _)| n == name).map(|(_, i)| *i)
    }
}

#[derive(Clone, Debug, PartialEq, Eq)]
pub enum Verdict {
    Accept(RefImage),
    /// The documents do not decide (e.g. `xFFFF` given to a signed field): either rejection, or
    /// acceptance with exactly this image.
    Either(RefImage),
    Reject(String),
}

fn fits_signed(v: i32, bits: u32) -> bool {
    let half = 1i32 << (bits - 1);
    (-half..half).contains(&v)
}

/// Literal as the lexer documents it: -32768..=32767 or 0..=65535.
fn lexable(v: i32) -> bool {
    (-32768..=65535).contains(&v)
}

enum FieldFit {
    Yes(u16),
    /// positive spelling >= 32768 whose two's-complement value fits: accept-or-reject
    Open(u16),
    No,
}

fn signed_field(v: i32, bits: u32) -> FieldFit {
    if !lexable(v) {
        return FieldFit::No;
    }
    let mask = ((1u32 << bits) - 1) as u16;
    if fits_signed(v, bits) {
        FieldFit::Yes((v as u16) & mask)
    } else if v >= 32768 && fits_signed(v - 65536, bits) {
        FieldFit::Open(((v - 65536) as u16) & mask)
    } else {
        FieldFit::No
    }
}

/// Encode a program per the ISA + README, deciding acceptance on the way.
pub fn encode(p: &Program) -> Verdict {
    // pass 1: layout
    let mut labels: Vec<(String, usize)> = Vec::new();
    let mut idx = 0usize;
    let mut orig: Option<u16> = None;
    let mut orig_open = false;
    let mut breaks = Vec::new();
    for item in &p.items {
        match item {
            Item::End => break,
            Item::Orig(v) => {
                if orig.is_some() {
                    return Verdict::Reject(".orig given twice".into());
                }
                if !lexable(*v) {
                    return Verdict::Reject(".orig value does not fit 16 bits".into());
                }
                if *v < 0 {
                    orig_open = true; // negative origin: not specified
                }
                orig = Some(*v as u16);
            }
            Item::Break => breaks.push(idx as u16),
            Item::LabelBreak(l) => {
                if labels.iter().any(|(n, _)| n == l) {
                    return Verdict::Reject(format!("label {} defined twice", l));
                }
                labels.push((l.clone(), idx));
                breaks.push(idx as u16);
            }
            Item::Stmt { label, stmt } => {
                if let Some(l) = label {
                    if labels.iter().any(|(n, _)| n == l) {
                        return Verdict::Reject(format!("label {} defined twice", l));
                    }
                    labels.push((l.clone(), idx));
                }
                if let Stmt::Blkw(n) = stmt {
                    if *n < 0 || !lexable(*n) {
                        return Verdict::Reject(".blkw with a negative or oversized count".into());
                    }
                }
                idx += stmt.words();
            }
        }
    }
    if idx > 0xFFFF {
        return Verdict::Reject("program longer than the address space".into());
    }
    // pass 2: words
    let mut words = Vec::with_capacity(idx);
    let mut item_of_word = Vec::with_capacity(idx);
    let mut open = orig_open;
    for (ii, item) in p.items.iter().enumerate() {
        let stmt = match item {
            Item::End => break,
            Item::Stmt { stmt, .. } => stmt,
            _ => continue,
        };
        let here = words.len();
        let lookup = |name: &str| labels.iter().find(|(n, _)| n == name).map(|(_, i)| *i);
        // PC-relative field
        let mut pcrel = |t: &Target, bits: u32, open: &mut bool| -> Result<u16, String> {
            match t {
                Target::Label(name) => {
                    let Some(li) = lookup(name) else {
                        return Err(format!("label {} is not defined", name));
                    };
                    let off = li as i64 - (here as i64 + 1);
                    let half = 1i64 << (bits - 1);
                    if off < -half || off >= half {
                        return Err(format!(
                            "label {} is {} words away, beyond the {}-bit field",
                            name, off, bits
                        ));
                    }
                    Ok((off as u16) & (((1u32 << bits) - 1) as u16))
                }
                Target::Lit(v) => match signed_field(*v, bits) {
                    FieldFit::Yes(f) => Ok(f),
                    FieldFit::Open(f) => {
                        *open = true;
                        Ok(f)
                    }
                    FieldFit::No => Err(format!("literal offset {} beyond the {}-bit field", v, bits)),
                },
            }
        };
        let mut sfield = |v: i32, bits: u32, open: &mut bool| -> Result<u16, String> {
            match signed_field(v, bits) {
                FieldFit::Yes(f) => Ok(f),
                FieldFit::Open(f) => {
                    *open = true;
                    Ok(f)
                }
                FieldFit::No => Err(format!("immediate {} beyond the {}-bit field", v, bits)),
            }
        };
        let r = |x: u8| (x & 7) as u16;
        let res: Result<Vec<u16>, String> = (|| {
            Ok(match stmt {
                Stmt::AddR(d, a, b) => vec![0x1000 | r(*d) << 9 | r(*a) << 6 | r(*b)],
                Stmt::AndR(d, a, b) => vec![0x5000 | r(*d) << 9 | r(*a) << 6 | r(*b)],
                Stmt::AddI(d, a, i) => {
                    vec![0x1000 | r(*d) << 9 | r(*a) << 6 | 0x20 | sfield(*i, 5, &mut open)?]
                }
                Stmt::AndI(d, a, i) => {
                    vec![0x5000 | r(*d) << 9 | r(*a) << 6 | 0x20 | sfield(*i, 5, &mut open)?]
                }
                Stmt::Not(d, a) => vec![0x9000 | r(*d) << 9 | r(*a) << 6 | 0x3F],
                Stmt::Br(nzp, t) => vec![((*nzp as u16) & 7) << 9 | pcrel(t, 9, &mut open)?],
                Stmt::Jmp(b) => vec![0xC000 | r(*b) << 6],
                Stmt::Ret => vec![0xC1C0],
                Stmt::Jsr(t) => vec![0x4800 | pcrel(t, 11, &mut open)?],
                Stmt::Jsrr(b) => vec![0x4000 | r(*b) << 6],
                Stmt::Ld(d, t) => vec![0x2000 | r(*d) << 9 | pcrel(t, 9, &mut open)?],
                Stmt::Ldi(d, t) => vec![0xA000 | r(*d) << 9 | pcrel(t, 9, &mut open)?],
                Stmt::Lea(d, t) => vec![0xE000 | r(*d) << 9 | pcrel(t, 9, &mut open)?],
                Stmt::St(s, t) => vec![0x3000 | r(*s) << 9 | pcrel(t, 9, &mut open)?],
                Stmt::Sti(s, t) => vec![0xB000 | r(*s) << 9 | pcrel(t, 9, &mut open)?],
                Stmt::Ldr(d, b, o) => {
                    vec![0x6000 | r(*d) << 9 | r(*b) << 6 | sfield(*o, 6, &mut open)?]
                }
                Stmt::Str(s, b, o) => {
                    vec![0x7000 | r(*s) << 9 | r(*b) << 6 | sfield(*o, 6, &mut open)?]
                }
                Stmt::Rti => vec![0x8000],
                Stmt::Trap(v) => {
                    if !(0..=255).contains(v) {
                        return Err(format!("trap vector {} outside [0,255]", v));
                    }
                    vec![0xF000 | *v as u16]
                }
                Stmt::Alias(v) => vec![0xF000 | *v as u16],
                // README / air.rs: [1101][call|rets=1][call|push=1][0][reg][000000] / 10-bit offset
                Stmt::Push(s) => vec![0xD400 | r(*s) << 6],
                Stmt::Pop(d) => vec![0xD000 | r(*d) << 6],
                Stmt::Call(l) => vec![0xDC00 | pcrel(&Target::Label(l.clone()), 10, &mut open)?],
                Stmt::Rets => vec![0xD800],
                Stmt::Fill(v) => {
                    if !lexable(*v) {
                        return Err(format!(".fill value {} does not fit 16 bits", v));
                    }
                    vec![*v as u16]
                }
                Stmt::Blkw(n) => vec![0; *n as usize],
                Stmt::Stringz(s) => {
                    let mut v: Vec<u16> = unescaped(s).into_iter().map(|c| c as u32 as u16).collect();
                    v.push(0);
                    v
                }
            })
        })();
        match res {
            Ok(ws) => {
                for w in ws {
                    words.push(w);
                    item_of_word.push(ii);
                }
            }
            Err(why) => return Verdict::Reject(why),
        }
    }
    let img = RefImage {
        orig,
        words,
        breaks,
        item_of_word,
        labels,
    };
    if open {
        Verdict::Either(img)
    } else {
        Verdict::Accept(img)
    }
}

// ---------------------------------------------------------------- renderer

#[derive(Clone, Debug)]
pub struct Rendered {
    pub text: String,
    /// For each `Item::Stmt` (by item index): byte span "mnemonic/directive through last operand".
    pub stmt_spans: Vec<Option<(usize, usize)>>,
}

#[derive(Clone, Copy, Debug, PartialEq)]
pub enum LitStyle {
    Dec,
    HexLower,
    HexUpper,
    Hex0x,
    Any,
}

#[derive(Clone, Debug)]
pub struct Layout {
    /// 0 = canonical (lower case, single spaces, no comments); 1 = randomised
    pub wild: bool,
    pub lit: LitStyle,
    pub crlf: bool,
    pub multibyte_comments: bool,
}

impl Layout {
    pub fn canonical() -> Self {
        Layout {
            wild: false,
            lit: LitStyle::Dec,
            crlf: false,
            multibyte_comments: false,
        }
    }
    pub fn random(rng: &mut Rng) -> Self {
        Layout {
            wild: true,
            lit: *rng.pick(&[
                LitStyle::Dec,
                LitStyle::HexLower,
                LitStyle::HexUpper,
                LitStyle::Hex0x,
                LitStyle::Any,
                LitStyle::Any,
            ]),
            crlf: rng.chance(1, 6),
            multibyte_comments: rng.chance(1, 3),
        }
    }
}

pub fn lit(v: i32, style: LitStyle, rng: &mut Rng) -> String {
    let style = if style == LitStyle::Any {
        *rng.pick(&[
            LitStyle::Dec,
            LitStyle::HexLower,
            LitStyle::HexUpper,
            LitStyle::Hex0x,
        ])
    } else {
        style
    };
    // the same number written differently: leading zeros (one, a few, more than any digit count),
    // an explicit plus sign, a negative zero, prefixes and hex digits in either case
    let zeros: &str = match rng.below(12) {
        0 | 1 => "0",
        2 => "000",
        3 => "0000000000000000000000",
        _ => "",
    };
    let sign = if v < 0 || (v == 0 && rng.chance(1, 6)) {
        "-"
    } else if rng.chance(1, 6) {
        "+"
    } else {
        ""
    };
    let mag = (v as i64).abs();
    let hex_digits = |upper: bool, rng: &mut Rng| -> String {
        let h = format!("{:x}", mag);
        if rng.chance(1, 4) {
            h.chars().map(|c| if rng.bool() { c.to_ascii_uppercase() } else { c }).collect()
        } else if upper {
            h.to_uppercase()
        } else {
            h
        }
    };
    match style {
        LitStyle::Dec | LitStyle::Any => format!("#{}{}{}", sign, zeros, mag),
        LitStyle::HexLower => format!("x{}{}{}", sign, zeros, hex_digits(false, rng)),
        LitStyle::HexUpper => format!("X{}{}{}", sign, zeros, hex_digits(true, rng)),
        LitStyle::Hex0x => format!("{}{}{}{}", if rng.chance(1, 4) { "0X" } else { "0x" }, sign, zeros, hex_digits(rng.bool(), rng)),
    }
}

fn kw(word: &str, wild: bool, rng: &mut Rng) -> String {
    if !wild {
        return word.to_string();
    }
    match rng.below(4) {
        0 => word.to_string(),
        1 => word.to_uppercase(),
        _ => word
            .chars()
            .map(|c| if rng.bool() { c.to_ascii_uppercase() } else { c })
            .collect(),
    }
}

fn reg(n: u8, wild: bool, rng: &mut Rng) -> String {
    if wild && rng.bool() {
        format!("R{}", n & 7)
    } else {
        format!("r{}", n & 7)
    }
}

const SEPS: &[&str] = &[" ", ", ", ",", " , ", "\t", ",\t", "  ", ": ", " ,, "];
const COMMENTS: &[&str] = &[
    "; comment",
    ";",
    ";; add r0 r0 r0",
    "; .fill x0 \"quoted\" label:",
    ";halt",
    "; trailing   ",
    "; it's \"quoted\"; and again; 'single'",
    ";\t\ttabs\tin\ta\tcomment",
    "; x3000 #5 r0 .orig .end .break",
    // commented-out code in a tab-indented file, other control characters, a lone CR in the middle
    ";\tAND\tR0, R0, #0", "; was:\tadd r1, r1, #-2", ";\thalt", "; form\x0cfeed .fill x1", "; vt\x0b.fill x2", "; bell\x07 add r0 r0 r0", "; esc\x1b[0m halt",
    // longer than any fixed-size line buffer
    "; ---------------------------------------------------------------------------------------------------------------------------------------------------------------------------------------------------------------------------------------------------------------------------------------------------------------------------- long line",
];
const MB_COMMENTS: &[&str] = &["; caf\u{e9} \u{2713}", "; \u{1F34B} lemon", "; \u{e9}",
    // case mapping changes the UTF-8 length of these (Kelvin, Ohm, dotted capital I, capital sharp s)
    "; 300 \u{212a}, 50 \u{2126}", "; \u{130}stanbul \u{1e9e}", "; \u{212b}\u{212a}\u{212a}\u{212a} \u{df}"];

pub fn br_name(nzp: u8, rng: &mut Rng, wild: bool) -> &'static str {
    match nzp & 7 {
        7 => {
            if wild && rng.bool() {
                "brnzp"
            } else {
                "br"
            }
        }
        4 => "brn",
        2 => "brz",
        1 => "brp",
        6 => "brnz",
        5 => "brnp",
        3 => "brzp",
        _ => "br",
    }
}

pub fn alias_name(v: u8) -> &'static str {
    match v {
        0x20 => "getc",
        0x21 => "out",
        0x22 => "puts",
        0x23 => "in",
        0x24 => "putsp",
        0x25 => "halt",
        0x26 => "putn",
        _ => "reg",
    }
}

/// Tokens of a statement: mnemonic/directive first, then operands.
pub fn stmt_tokens(stmt: &Stmt, lay: &Layout, rng: &mut Rng) -> Vec<String> {
    let w = lay.wild;
    let tgt = |t: &Target, rng: &mut Rng| match t {
        Target::Label(l) => l.clone(),
        Target::Lit(v) => lit(*v, lay.lit, rng),
    };
    match stmt {
        Stmt::AddR(d, a, b) => vec![kw("add", w, rng), reg(*d, w, rng), reg(*a, w, rng), reg(*b, w, rng)],
        Stmt::AndR(d, a, b) => vec![kw("and", w, rng), reg(*d, w, rng), reg(*a, w, rng), reg(*b, w, rng)],
        Stmt::AddI(d, a, i) => {
            vec![kw("add", w, rng), reg(*d, w, rng), reg(*a, w, rng), lit(*i, lay.lit, rng)]
        }
        Stmt::AndI(d, a, i) => {
            vec![kw("and", w, rng), reg(*d, w, rng), reg(*a, w, rng), lit(*i, lay.lit, rng)]
        }
        Stmt::Not(d, a) => vec![kw("not", w, rng), reg(*d, w, rng), reg(*a, w, rng)],
        Stmt::Br(nzp, t) => {
            let name = br_name(*nzp, rng, w);
            vec![kw(name, w, rng), tgt(t, rng)]
        }
        Stmt::Jmp(b) => vec![kw("jmp", w, rng), reg(*b, w, rng)],
        Stmt::Ret => vec![kw("ret", w, rng)],
        Stmt::Jsr(t) => vec![kw("jsr", w, rng), tgt(t, rng)],
        Stmt::Jsrr(b) => vec![kw("jsrr", w, rng), reg(*b, w, rng)],
        Stmt::Ld(d, t) => vec![kw("ld", w, rng), reg(*d, w, rng), tgt(t, rng)],
        Stmt::Ldi(d, t) => vec![kw("ldi", w, rng), reg(*d, w, rng), tgt(t, rng)],
        Stmt::Lea(d, t) => vec![kw("lea", w, rng), reg(*d, w, rng), tgt(t, rng)],
        Stmt::St(s, t) => vec![kw("st", w, rng), reg(*s, w, rng), tgt(t, rng)],
        Stmt::Sti(s, t) => vec![kw("sti", w, rng), reg(*s, w, rng), tgt(t, rng)],
        Stmt::Ldr(d, b, o) => {
            vec![kw("ldr", w, rng), reg(*d, w, rng), reg(*b, w, rng), lit(*o, lay.lit, rng)]
        }
        Stmt::Str(s, b, o) => {
            vec![kw("str", w, rng), reg(*s, w, rng), reg(*b, w, rng), lit(*o, lay.lit, rng)]
        }
        Stmt::Rti => vec![kw("rti", w, rng)],
        Stmt::Trap(v) => vec![kw("trap", w, rng), lit(*v, lay.lit, rng)],
        Stmt::Alias(v) => vec![kw(alias_name(*v), w, rng)],
        Stmt::Push(s) => vec![kw("push", w, rng), reg(*s, w, rng)],
        Stmt::Pop(d) => vec![kw("pop", w, rng), reg(*d, w, rng)],
        Stmt::Call(l) => vec![kw("call", w, rng), l.clone()],
        Stmt::Rets => vec![kw("rets", w, rng)],
        Stmt::Fill(v) => vec![kw(".fill", w, rng), lit(*v, lay.lit, rng)],
        Stmt::Blkw(n) => vec![kw(".blkw", w, rng), lit(*n, lay.lit, rng)],
        Stmt::Stringz(s) => vec![kw(".stringz", w, rng), format!("\"{}\"", s)],
    }
}

pub fn render(p: &Program, lay: &Layout, rng: &mut Rng) -> Rendered {
    let nl = if lay.crlf { "\r\n" } else { "\n" };
    let mut text = String::new();
    let mut spans: Vec<Option<(usize, usize)>> = vec![None; p.items.len()];
    let w = lay.wild;
    let comment = |rng: &mut Rng| -> &'static str {
        if lay.multibyte_comments && rng.bool() {
            rng.s(MB_COMMENTS)
        } else {
            rng.s(COMMENTS)
        }
    };
    if w && rng.chance(1, 3) {
        text.push_str(comment(rng));
        text.push_str(nl);
    }
    for (ii, item) in p.items.iter().enumerate() {
        if w {
            // blank / comment lines between items
            for _ in 0..rng.below(3) {
                if rng.chance(1, 3) {
                    text.push_str(if rng.bool() { "  " } else { "\t" });
                    text.push_str(comment(rng));
                }
                text.push_str(nl);
            }
            if rng.chance(1, 2) {
                text.push_str(rng.s(&["  ", "\t", "    ", " "]));
            }
        }
        match item {
            Item::Orig(v) => {
                text.push_str(&kw(".orig", w, rng));
                text.push_str(if w { rng.s(&[" ", "\t", "  "]) } else { " " });
                text.push_str(&lit(*v, lay.lit, rng));
            }
            Item::Break => text.push_str(&kw(".break", w, rng)),
            Item::LabelBreak(l) => {
                text.push_str(l);
                if w {
                    text.push_str(rng.s(&[" ", ": ", ":", "\t", ":\n", "\n", " \n\t"]));
                } else {
                    text.push(' ');
                }
                text.push_str(&kw(".break", w, rng));
            }
            Item::End => text.push_str(&kw(".end", w, rng)),
            Item::Stmt { label, stmt } => {
                if let Some(l) = label {
                    text.push_str(l);
                    if w {
                        match rng.below(6) {
                            0 => text.push_str(": "),
                            1 => text.push(':'),
                            2 => {
                                // label alone on its line (possibly with a comment after it)
                                if rng.bool() {
                                    text.push(':');
                                }
                                if rng.chance(1, 3) {
                                    text.push(' ');
                                    text.push_str(comment(rng));
                                }
                                text.push_str(nl);
                                if rng.chance(1, 3) {
                                    text.push_str(nl);
                                }
                                text.push_str(rng.s(&["", "  ", "\t"]));
                            }
                            3 => text.push('\t'),
                            _ => text.push(' '),
                        }
                        if text.ends_with(':') {
                            text.push_str(rng.s(&["", " ", "\t"]));
                        }
                    } else {
                        text.push(' ');
                    }
                }
                let toks = stmt_tokens(stmt, lay, rng);
                let start = text.len();
                for (ti, t) in toks.iter().enumerate() {
                    if ti > 0 {
                        if !w {
                            text.push(' ');
                        } else if ti == 1 {
                            // after the mnemonic
                            // (a colon is white space in lace's grammar wherever it stands, also glued to a mnemonic)
                            text.push_str(rng.s(&[" ", "\t", "  ", " ", ", ", " ", ": ", ":"]));
                        } else if rng.chance(1, 14) {
                            // a line break is white space like any other: the statement goes on on the next line
                            text.push_str(rng.s(&["", ",", " ", ", "]));
                            text.push_str(nl);
                            text.push_str(rng.s(&["", "  ", "\t", "        "]));
                        } else {
                            text.push_str(rng.s(SEPS));
                        }
                    }
                    text.push_str(t);
                }
                spans[ii] = Some((start, text.len() - start));
            }
        }
        if let Item::Stmt { stmt: Stmt::Stringz(body), .. } = item {
            if w && body.ends_with("\\\\") && rng.bool() {
                // the string ends in an escaped backslash; the comment behind it has a quote of its own
                text.push_str(rng.s(&[" ; root of the 3.5\" disk", "\t; say \"hi\"", " ;\""]));
            }
        }
        let ends_in_a_word = match item {
            Item::Break | Item::End | Item::LabelBreak(_) => true,
            Item::Stmt { stmt, .. } => matches!(stmt, Stmt::Ret | Stmt::Rets | Stmt::Rti | Stmt::Alias(_)),
            _ => false,
        };
        if w && ends_in_a_word && rng.chance(1, 6) {
            // a comment may follow a directive or mnemonic without a blank in between
            text.push_str(comment(rng));
        } else if w && rng.chance(1, 3) {
            // trailing comment, preceded by whitespace
            text.push_str(rng.s(&[" ", "\t", "  "]));
            text.push_str(comment(rng));
        } else if w && rng.chance(1, 5) {
            text.push_str(rng.s(&[" ", "\t", ",", " :", ":"]));
        }
        text.push_str(nl);
    }
    if w && rng.chance(1, 4) {
        // no final newline
        while text.ends_with('\n') || text.ends_with('\r') {
            text.pop();
        }
    }
    Rendered {
        text,
        stmt_spans: spans,
    }
}

// ---------------------------------------------------------------- generators

const KEYWORDS: &[&str] = &[
    "add", "and", "br", "brnzp", "brnz", "brzp", "brnp", "brn", "brz", "brp", "jmp", "jsr", "jsrr",
    "ld", "ldi", "ldr", "lea", "not", "ret", "rti", "st", "sti", "str", "pop", "push", "call",
    "rets", "trap", "getc", "out", "puts", "in", "putsp", "halt", "putn", "reg",
];

pub fn is_plain_label(name: &str) -> bool {
    let lower = name.to_ascii_lowercase();
    if KEYWORDS.contains(&lower.as_str()) {
        return false;
    }
    let mut chars = name.chars();
    let Some(first) = chars.next() else {
        return false;
    };
    // "non-prefixed numerical literals are considered identifiers": `10`, `7`, `007`, `7up` are labels;
    // `0x..` is a hex literal
    if !(first.is_ascii_alphanumeric() || first == '_') {
        return false;
    }
    if !name.chars().all(|c| c.is_ascii_alphanumeric() || c == '_') {
        return false;
    }
    if lower.starts_with("0x") {
        let rest = &lower[2..];
        return !rest.is_empty() && rest.chars().any(|c| !c.is_ascii_hexdigit()) && rest.chars().take_while(|c| c.is_ascii_hexdigit()).count() <= 4;
    }
    // register spellings and anything the lexer could read as a hex literal
    let b = lower.as_bytes();
    if b[0] == b'r' && b.len() >= 2 && b[1].is_ascii_digit() {
        return false;
    }
    // `x...` / `0x...` is a hex literal when what follows are hex digits (with an optional sign); with any
    // other identifier character in it the token falls back to an identifier
    if b[0] == b'x' {
        let rest = &lower[1..];
        // (a run of more than four hex digits overflows before the odd character is seen: an error, not a label)
        return !rest.is_empty() && rest.chars().any(|c| !c.is_ascii_hexdigit()) && rest.chars().take_while(|c| c.is_ascii_hexdigit()).count() <= 4;
    }
    true
}

const LABEL_PARTS: &[&str] = &[
    "loop", "Loop", "LOOP", "done", "a", "b", "Z", "_t", "data", "msg", "Msg", "fn_1", "ptr", "top",
    "Halt_", "adder", "br1", "st0re", "in_", "outp", "k", "L", "end_", "Ret0", "go", "table", "q9",
    "_", "__x", "yx", "tmp", "val", "cnt", "sub", "Sub", "string", "p", "w1", "again", "skip",
    // names other assemblers give to registers or reserve: plain labels here, with or without any feature flag
    "sp", "SP", "Sp", "fp", "lr", "pc", "PC", "psr", "cc", "ra", "zero", "at", "gp", "stack", "Stack", "main", "start", "org", "equ", "byte", "word", "include", "macro",
    // mnemonics of other instruction sets and of possible extensions: plain labels here
    "nop", "NOP", "Nop", "mov", "xor", "or", "mul", "div", "cmp", "inc", "dec", "neg", "clr", "load", "store", "print", "db", "dw",
    "dup", "proc", "endp", "_start", "_main", "exit", "syscall", "int", "iret", "jz", "jnz", "bra", "beq",
    // labels to the assembler, numbers or registers to a grammar that knows b/o prefixes and r0-r7
    "b1", "b10", "B0", "o7", "o17", "b_1", "o_7", "b2", "r10", "R07x", "r8", "R77", "100", "7", "007", "12294", "10", "2", "0", "1", "20", "255", "256", "7up", "0b1", "00",
    // x-prefixed names that are no hex literals, among them the extension's mnemonics behind the prefix
    "xpush", "Xpop", "xcall", "xrets", "xval", "x_1", "0xcall", "xhalt", "xyz", "0Xrets",
    // names that begin like a register or like an extension mnemonic and go on: plain labels, with or without the flag
    "r2d2", "R1_loop", "R0_SAVE", "r7_", "r0x", "popcount", "caller", "callback", "pusher", "retsub", "pops", "Pushd", "CALLS",
    // directive names without their dot: plain labels
    "end", "END", "End", "orig", "ORIG", "fill", "blkw", "stringz", "break", "endm", "align", "text", "data", "global", "ds",
];

pub fn gen_label(rng: &mut Rng, taken: &[String]) -> String {
    for _ in 0..100 {
        let mut name = rng.s(LABEL_PARTS).to_string();
        if rng.chance(1, 2) {
            name.push_str(&format!("{}", rng.below(100)));
        }
        if rng.chance(1, 6) {
            name.push('_');
            name.push_str(rng.s(LABEL_PARTS));
        }
        if is_plain_label(&name) && !taken.iter().any(|t| t == &name) {
            return name;
        }
    }
    format!("lbl_{}", taken.len())
}

const STR_BODIES: &[&str] = &[
    "", "a", "Hello, world!", "two words", "tab\\tnl\\n", "q\\\"uote", "back\\\\slash", "; not a comment",
    "x3000 #5 r0", "caf\u{e9}", "caf\u{e9}\\n", "\u{65e5}\u{672c}\\t!", "\u{e9}\\\\\u{e9}", "a\u{2713}\\\"b", "\u{2713} ok", "CR\\r", "  spaced  ", ".fill", "a:b,c", "0", "%!@#$^&*()",
    // more bytes than characters, and statements longer than a table cell of the debugger
    "\u{e4}\u{f6}\u{fc}\u{e4}\u{f6}\u{fc}\u{e4}\u{f6}\u{fc}\u{e4}\u{f6}\u{fc}", "\u{65e5}\u{672c}\u{8a9e}\u{65e5}\u{672c}\u{8a9e}\u{65e5}\u{672c}",
    "a string literal that is longer than the cell", "sixteen chars ok",
    // control characters written raw inside the quotes (not as escapes)
    "a\tb", "\ttab first", "bell\u{7}!", "form\u{c}feed",
    // a literal ending in an escaped backslash (the quote behind it closes the string)
    "C:\\\\", "\\\\", "a\\\\b\\\\",
    // escapes nobody defined: the backslash stays, followed by the character
    "a\\eb", "nul\\0", "q\\'x", "\\q\\q\\q", "\\x41",
    // characters whose case mapping changes their UTF-8 length
    "273 \u{212a}", "\u{130}\u{130}\u{130}", "10 k\u{2126} \u{1e9e}",
];

#[derive(Clone, Debug)]
pub struct GenOpts {
    pub stack: bool,
    pub max_stmts: usize,
    pub min_stmts: usize,
    /// Generate literal PC offsets as well as labels.
    pub literal_targets: bool,
    pub origin: Option<i32>,
    pub breaks: bool,
    pub data: bool,
}

impl Default for GenOpts {
    fn default() -> Self {
        GenOpts {
            stack: false,
            max_stmts: 40,
            min_stmts: 1,
            literal_targets: true,
            origin: None,
            breaks: true,
            data: true,
        }
    }
}

pub fn gen_origin(rng: &mut Rng) -> i32 {
    match rng.below(8) {
        0 => 0x3000,
        1 => rng.below(0x3000) as i32,
        2 => 0x3001 + rng.below(0x4FFE) as i32,
        3 => 0x8000 + rng.below(0x7000) as i32,
        4 => *rng.pick(&[0, 1, 0x7FFF, 0x8000, 0xFDFF, 0x2FFF]),
        _ => 0x3000 + rng.below(0x1000) as i32,
    }
}

fn gen_stmt_shape(rng: &mut Rng, o: &GenOpts) -> Stmt {
    let r = |rng: &mut Rng| rng.below(8) as u8;
    let ph = Target::Lit(0); // placeholder, patched later
    let n_forms = if o.stack { 27 } else { 23 };
    loop {
        let s = match rng.below(n_forms) {
            0 => Stmt::AddR(r(rng), r(rng), r(rng)),
            1 => Stmt::AddI(r(rng), r(rng), rng.range(-16, 15) as i32),
            2 => Stmt::AndR(r(rng), r(rng), r(rng)),
            3 => Stmt::AndI(r(rng), r(rng), rng.range(-16, 15) as i32),
            4 => Stmt::Not(r(rng), r(rng)),
            5 => Stmt::Br(1 + rng.below(7) as u8, ph.clone()),
            6 => Stmt::Jmp(r(rng)),
            7 => Stmt::Ret,
            8 => Stmt::Jsr(ph.clone()),
            9 => Stmt::Jsrr(r(rng)),
            10 => Stmt::Ld(r(rng), ph.clone()),
            11 => Stmt::Ldi(r(rng), ph.clone()),
            12 => Stmt::Lea(r(rng), ph.clone()),
            13 => Stmt::St(r(rng), ph.clone()),
            14 => Stmt::Sti(r(rng), ph.clone()),
            15 => Stmt::Ldr(r(rng), r(rng), rng.range(-32, 31) as i32),
            16 => Stmt::Str(r(rng), r(rng), rng.range(-32, 31) as i32),
            17 => Stmt::Rti,
            18 => Stmt::Trap(rng.below(256) as i32),
            19 => Stmt::Alias(0x20 + rng.below(8) as u8),
            20 if o.data => Stmt::Fill(match rng.below(4) {
                0 => rng.range(-32768, -1) as i32,
                1 => *rng.pick(&[0, 1, 0x7FFF, 0x8000, 0xFFFF, 0xF025]),
                _ => rng.below(0x10000) as i32,
            }),
            21 if o.data => Stmt::Blkw(match rng.below(6) {
                0 => 0,
                1 => 1,
                _ => 1 + rng.below(12) as i32,
            }),
            22 if o.data => Stmt::Stringz(rng.s(STR_BODIES).to_string()),
            23 => Stmt::Push(r(rng)),
            24 => Stmt::Pop(r(rng)),
            25 => Stmt::Call(String::new()),
            26 => Stmt::Rets,
            _ => continue,
        };
        return s;
    }
}

/// Random valid program: every label reference is within range of its field.
pub fn gen_program(rng: &mut Rng, o: &GenOpts) -> Program {
    let n = o.min_stmts + rng.below((o.max_stmts - o.min_stmts + 1) as u64) as usize;
    let mut stmts: Vec<(Option<String>, Stmt)> = Vec::new();
    let mut names: Vec<String> = Vec::new();
    for _ in 0..n {
        let stmt = gen_stmt_shape(rng, o);
        // `.blkw 0` produces no word, so a label before it would attach elsewhere: no label there
        let labelled = rng.chance(2, 5) && stmt.words() > 0;
        let label = if labelled {
            let l = gen_label(rng, &names);
            names.push(l.clone());
            Some(l)
        } else {
            None
        };
        stmts.push((label, stmt));
    }
    // word index of each statement
    let mut pos = Vec::with_capacity(stmts.len());
    let mut idx = 0usize;
    for (_, s) in &stmts {
        pos.push(idx);
        idx += s.words();
    }
    let label_pos: Vec<(String, usize)> = stmts
        .iter()
        .zip(&pos)
        .filter_map(|((l, _), p)| l.clone().map(|l| (l, *p)))
        .collect();
    // patch targets
    for (si, (_, stmt)) in stmts.iter_mut().enumerate() {
        let here = pos[si];
        let Some(bits) = stmt.pcrel_bits() else {
            continue;
        };
        let half = 1i64 << (bits - 1);
        let in_range: Vec<&(String, usize)> = label_pos
            .iter()
            .filter(|(_, lp)| {
                let off = *lp as i64 - (here as i64 + 1);
                off >= -half && off < half
            })
            .collect();
        let is_call = matches!(stmt, Stmt::Call(_));
        let use_label = !in_range.is_empty() && (is_call || !o.literal_targets || rng.chance(3, 4));
        let t = if use_label {
            Target::Label(rng.pick(&in_range).0.clone())
        } else {
            let v = match rng.below(5) {
                0 => -(half as i32),
                1 => half as i32 - 1,
                2 => *rng.pick(&[-1, 0, 1, -2]),
                _ => rng.range(-half, half - 1) as i32,
            };
            Target::Lit(v)
        };
        match stmt {
            Stmt::Br(_, x) | Stmt::Jsr(x) => *x = t,
            Stmt::Ld(_, x) | Stmt::Ldi(_, x) | Stmt::Lea(_, x) | Stmt::St(_, x) | Stmt::Sti(_, x) => {
                *x = t
            }
            Stmt::Call(l) => match t {
                Target::Label(name) => *l = name,
                Target::Lit(_) => *stmt = Stmt::Rets, // no label in reach: CALL needs one
            },
            _ => {}
        }
    }
    // assemble items
    let mut items = Vec::new();
    let origin = o.origin.or_else(|| if rng.chance(2, 3) { Some(gen_origin(rng)) } else { None });
    let orig_at = if rng.chance(3, 4) { 0 } else { rng.below(stmts.len() as u64 + 1) as usize };
    for (si, (label, stmt)) in stmts.into_iter().enumerate() {
        if let Some(v) = origin {
            if si == orig_at {
                items.push(Item::Orig(v));
            }
        }
        if o.breaks && rng.chance(1, 12) {
            items.push(Item::Break);
        }
        items.push(Item::Stmt { label, stmt });
    }
    if let Some(v) = origin {
        if orig_at >= items.iter().filter(|i| matches!(i, Item::Stmt { .. })).count() {
            items.push(Item::Orig(v));
        }
    }
    if o.breaks && rng.chance(1, 15) {
        items.push(Item::Break);
    }
    if rng.chance(1, 2) {
        items.push(Item::End);
        // `.end` ends the program text: well-formed statements parked behind it are not assembled
        if rng.chance(1, 3) {
            for k in 0..1 + rng.below(3) {
                let stmt = match rng.below(4) {
                    0 => Stmt::AddI(1, 1, 1),
                    1 => Stmt::Fill(0x1234),
                    2 => Stmt::Stringz("bye".into()),
                    _ => Stmt::Alias(0x25),
                };
                let label = if k == 0 && rng.bool() { Some("zz_after_end".to_string()) } else { None };
                items.push(Item::Stmt { label, stmt });
            }
        }
    }
    Program { items }
}

pub fn uses_stack_ext(p: &Program) -> bool {
    p.items.iter().any(|i| matches!(i, Item::Stmt { stmt, .. } if stmt.uses_stack_ext()))
}


/// Rename a label everywhere (definition and references).
pub fn rename_label(p: &mut Program, old: &str, new: &str) {
    let fix = |t: &mut Target| {
        if let Target::Label(l) = t {
            if l == old {
                *l = new.to_string();
            }
        }
    };
    for it in p.items.iter_mut() {
        if let Item::Stmt { label, stmt } = it {
            if label.as_deref() == Some(old) {
                *label = Some(new.to_string());
            }
            match stmt {
                Stmt::Br(_, t) | Stmt::Jsr(t) => fix(t),
                Stmt::Ld(_, t) | Stmt::Ldi(_, t) | Stmt::Lea(_, t) | Stmt::St(_, t) | Stmt::Sti(_, t) => fix(t),
                Stmt::Call(l) => {
                    if l == old {
                        *l = new.to_string();
                    }
                }
                _ => {}
            }
        }
    }
}
