//! C16 — a debugger session always makes progress.
//!
//! Bounded-progress monitor: run-loop iterations (tick hook) against instructions executed (fetch
//! hook) and commands consumed (command hook): ticks <= 2*(E + C) + 8; and a session whose
//! reference terminates must terminate (fuel = logical iterations, never wall clock).

use crate::dbgmon::{run_and_verify, script_lines, TICK_FUEL};
use crate::progs::{gen_structured, Ending, ProgOpts};
use crate::refasm::*;
use crate::refdbg::Cmd;
use crate::util::{hash_bytes, CaseOut, Collector, Rng, J};
use crate::Cfg;

pub const FLOORS: &[&str] = &[
    "at_ffff:continue", "at_ffff:step", "at_ffff:si", "at_ffff:so", "below_origin:resume",
    "above_fe00:resume", "parked_on_halt:resume", "ended_by_eof", "bound_checked", "executed_at_fdff",
    "halt_planted_at_breakpoint", "breakpoints_removed_after_several_hits", "halt_or_ret_written_as_a_data_word", "word_under_the_parked_pc_replaced", "rti_reached_under_the_debugger",
];

pub fn run(cfg: &Cfg, col: &mut Collector) {
    let n = cfg.n(3000, 100_000, 6);
    let seed = cfg.seed;
    crate::util::run_cases(n, cfg.only_case, cfg.threads, col, move |i| one_case(seed, i));
    col.extra.push(("sessions".into(), J::I(n as i64)));
    col.extra.push(("bound".into(), J::s("run-loop iterations <= 2*(instructions executed + commands read + 1) + 8")));
}

fn one_case(seed: u64, i: u64) -> CaseOut {
    let mut out = CaseOut::new();
    let mut rng = Rng::for_case(seed, "C16", i);
    let stack = rng.chance(2, 3);
    let origin = if rng.bool() { Some(gen_origin(&mut rng).clamp(1, 0xF000)) } else { None };
    let o = ProgOpts {
        stack,
        origin,
        breaks: rng.chance(1, 4),
        tame_endings: false,
        io: rng.chance(1, 4),
        max_sections: 3,
    };
    let mut built = gen_structured(&mut rng, &o);
    // bias towards the endings this property is about
    for _ in 0..4 {
        if matches!(built.ending, Ending::JumpFfff | Ending::JumpLow | Ending::JumpHigh | Ending::Halt) {
            break;
        }
        built = gen_structured(&mut rng, &o);
    }
    if rng.chance(1, 4) {
        // the same image, its HALTs (and RETs) written as data words: what a word does when the PC reaches it is
        // decided by the word, not by the directive that produced it
        let mut n = 0;
        for it in built.program.items.iter_mut() {
            if let Item::Stmt { stmt, .. } = it {
                match stmt {
                    Stmt::Alias(0x25) => {
                        // (in half of them a TRAP x25 with bits [11:8] set, xF125 ... xFF25: the vector is the low
                        // byte, so these halt as well, and every place that asks "is this a HALT" has to agree)
                        *stmt = Stmt::Fill(if rng.bool() { 0xF025 } else { 0xF025 | ((1 + rng.below(15) as i32) << 8) });
                        n += 1;
                    }
                    Stmt::Ret if rng.bool() => {
                        *stmt = Stmt::Fill(0xC1C0);
                        n += 1;
                    }
                    _ => {}
                }
            }
        }
        if n > 0 {
            out.class("halt_or_ret_written_as_a_data_word");
        }
    }
    if rng.chance(1, 12) {
        // an RTI where a HALT stood: lace has no interrupts to return from and gives up there - under the debugger too
        if let Some(Item::Stmt { stmt, .. }) = built.program.items.iter_mut().find(|it| matches!(it, Item::Stmt { stmt: Stmt::Alias(0x25) | Stmt::Fill(0xF025..=0xFFFF), .. } if !matches!(it, Item::Stmt { stmt: Stmt::Fill(w), .. } if *w & 0xFF != 0x25))) {
            *stmt = if rng.bool() { Stmt::Rti } else { Stmt::Fill(0x8000) };
            out.class("rti_reached_under_the_debugger");
        }
    }
    let img = match encode(&built.program) {
        Verdict::Accept(img) => img,
        _ => {
            out.evals = 0;
            return out;
        }
    };
    let text = render(&built.program, &Layout::canonical(), &mut rng).text;
    // scripts: get to the end quickly, then issue resuming commands there
    let mut cmds = Vec::new();
    for _ in 0..rng.below(3) {
        cmds.push(match rng.below(5) {
            4 => Cmd::Reset,
            0 => Cmd::Step,
            1 => Cmd::StepInto(1 + rng.below(5) as u32),
            2 => Cmd::BreakAdd(img.origin().wrapping_add(rng.below(img.words.len() as u64 + 1) as u16)),
            _ => Cmd::Continue,
        });
    }
    if rng.chance(1, 5) {
        // several breakpoints hit one after the other, then most of them removed in one go, then on: whatever
        // the list looked like when the last one fired, resuming ends
        let n = img.words.len().max(2) as u64;
        let k = 3 + rng.below(4);
        let mut addrs: Vec<u16> = (0..k).map(|_| img.origin().wrapping_add(rng.below(n.min(12)) as u16)).collect();
        addrs.sort_unstable();
        addrs.dedup();
        for a in &addrs {
            cmds.push(Cmd::BreakAdd(*a));
        }
        for _ in 0..addrs.len() {
            cmds.push(Cmd::Continue);
        }
        let mut gone = addrs.clone();
        while gone.len() > 1 && rng.chance(3, 4) {
            let a = gone.remove(rng.below(gone.len() as u64 - 1) as usize);
            cmds.push(Cmd::BreakRemove(a));
        }
        cmds.push(if rng.bool() { Cmd::Continue } else { Cmd::Step });
    }
    if rng.chance(1, 4) {
        // pause at a run-time breakpoint, plant a HALT under the PC, then try to resume
        cmds.push(Cmd::BreakAdd(img.origin().wrapping_add(1 + rng.below(img.words.len().max(2) as u64 - 1) as u16)));
        cmds.push(Cmd::Continue);
        cmds.push(Cmd::MoveMemLoc(crate::refdbg::Loc::Pc(0), if rng.chance(2, 3) { 0xF025 } else { 0xF025 | ((1 + rng.below(15) as u16) << 8) }));
        cmds.push(match rng.below(4) {
            0 => Cmd::Continue,
            1 => Cmd::Step,
            2 => Cmd::StepOut,
            _ => Cmd::StepInto(3),
        });
    }
    cmds.push(Cmd::Continue);
    if rng.chance(1, 5) {
        // parked where the program stopped (on its HALT, as a rule): the word under the PC is replaced by an
        // ordinary instruction, and on it goes
        cmds.push(Cmd::MoveMemLoc(crate::refdbg::Loc::Pc(0), *rng.pick(&[0x1021u16, 0x5020, 0x0000, 0x1DA1])));
        cmds.push(if rng.bool() { Cmd::Continue } else { Cmd::Step });
        out.class("word_under_the_parked_pc_replaced");
    }
    if rng.chance(1, 5) {
        // back to the start and once more through the whole program
        cmds.push(Cmd::Reset);
    }
    cmds.push(Cmd::Continue);
    for _ in 0..1 + rng.below(6) {
        cmds.push(match rng.below(5) {
            0 => Cmd::Continue,
            1 => Cmd::Step,
            2 => Cmd::StepInto(*rng.pick(&[0u32, 1, 3, 1000])),
            3 => Cmd::StepOut,
            // a command that neither resumes nor changes anything must come back too, whatever it is asked about
            // numbers far wider than a register are refused where the command is parsed, like any other bad argument
            _ if rng.chance(1, 8) => Cmd::Rejected(
                rng.s(&["print 99999999999", "goto 0x3000000000", "p ^+123456789012", "assembly x123456789abc", "step into 18446744073709551616",
                    "break add 340282366920938463463374607431768211456", "move r0 99999999999"]).to_string(),
            ),
            // an `eval` whose text ends in something the assembler's lexer does not know: refused, and the session goes on
            _ if rng.chance(1, 6) => Cmd::Inspect(
                rng.s(&["eval add r0 r0 @", "eval $", "eval add r0 r0 #1 ~", "eval @", "eval not r1 r1 `", "eval add r0 r0 \u{e9}", "eval ld r0 %", "eval \\"]).to_string(),
            ),
            _ => Cmd::Inspect(match rng.below(8) {
                0 => "registers".to_string(),
                1 => format!("assembly x{:04x}", img.origin().wrapping_sub(1 + rng.below(3) as u16)),
                2 => rng.s(&["assembly x0000", "assembly 0", "assembly xFFFF", "assembly xFE00", "print x0000", "print xFFFF"]).to_string(),
                3 => format!("assembly x{:04x}", img.origin().wrapping_add(img.words.len() as u16 + rng.below(3) as u16)),
                4 => "break list".to_string(),
                5 => "assembly".to_string(),
                6 => format!("print x{:04x}", rng.u16()),
                _ => format!("assembly x{:04x}", rng.u16()),
            }),
        });
    }
    let lines = script_lines(&cmds, seed ^ i);
    let sep = *rng.pick(&[";", "\n", "mix"]);
    let checked = run_and_verify(&mut out, "C16", i, &text, stack, &cmds, &lines, sep, &built.input, false, &img.breaks);
    let (Some(sess), Some(stats)) = (&checked.sess, &checked.stats) else {
        return out;
    };
    if stats.discarded.is_some() {
        // (a run the reference machine says nothing about - an RTI, a loop without end: what it does is not
        // compared, but the bound of the property is about the session's own counters and holds all the same)
        out.class("discarded");
        let (e, c) = (sess.obs.fetches, sess.obs.commands.len() as u64 + 1);
        if sess.obs.ticks > 2 * (e + c) + 8 {
            out.violate(
                "C16/iterations-exceed-bound",
                i,
                format!("{} run-loop iterations for {} instructions executed and {} commands read (bound {})", sess.obs.ticks, e, c, 2 * (e + c) + 8),
                crate::dbgmon::session_json(&text, &lines, stack, &built.input),
            );
        }
        return out;
    }
    // where resuming commands were issued
    for (ci, c) in cmds.iter().enumerate() {
        let Some(s) = sess.snaps.get(ci) else { break };
        if !c.is_resuming() {
            continue;
        }
        let name = match c {
            Cmd::Continue => "continue",
            Cmd::Step => "step",
            Cmd::StepInto(_) => "si",
            _ => "so",
        };
        if s.pc == 0xFFFF {
            out.class(format!("at_ffff:{}", name));
        } else if s.pc < sess.image.origin() {
            out.class("below_origin:resume");
        } else if s.pc >= 0xFE00 {
            out.class("above_fe00:resume");
        } else {
            let w = s
                .mem_diff
                .iter()
                .find(|(a, _)| *a == s.pc)
                .map(|(_, w)| *w)
                .unwrap_or(sess.init_mem[s.pc as usize]);
            if w == 0xF025 {
                out.class("parked_on_halt:resume");
            } else if w >> 12 == 0xF && w & 0xFF == 0x25 {
                out.class("parked_on_halt_with_bits_11_8_set:resume");
            }
        }
    }
    if cmds.iter().filter(|c| matches!(c, Cmd::BreakRemove(_))).count() >= 2 {
        let hits = sess.snaps.iter().filter(|s| s.bps.iter().any(|b| b.0 == s.pc)).count();
        if hits >= 3 {
            out.class("breakpoints_removed_after_several_hits");
        }
    }
    if cmds.iter().any(|c| matches!(c, Cmd::MoveMemLoc(_, w) if w >> 12 == 0xF && w & 0xFF == 0x25)) {
        out.class("halt_planted_at_breakpoint");
    }
    if sess.snaps.iter().any(|s| s.pc == 0xFE00 && s.fetches > 0) && matches!(built.ending, Ending::JumpHigh) {
        out.class("executed_at_fdff");
    }
    if sess.snaps.len() == cmds.len() + 1 {
        out.class("ended_by_eof");
    }
    // ---- the bound
    let e = sess.obs.fetches;
    let c = sess.obs.commands.len() as u64 + 1;
    let bound = 2 * (e + c) + 8;
    out.class("bound_checked");
    if sess.obs.ticks > bound {
        out.violate(
            "C16/iterations-exceed-bound",
            i,
            format!(
                "{} run-loop iterations for {} instructions executed and {} commands read (bound {})",
                sess.obs.ticks, e, c, bound
            ),
            crate::dbgmon::session_json(&text, &lines, stack, &built.input),
        );
    }
    let _ = TICK_FUEL;
    out.nontrivial = Some(hash_bytes(format!("{}|{:?}", text, lines).as_bytes()));
    if i % 499 == 0 {
        out.sample = Some(J::obj(vec![
            ("source", J::s(&text)),
            ("script", J::A(lines.iter().map(J::s).collect())),
            ("iterations", J::I(sess.obs.ticks as i64)),
            ("instructions", J::I(e as i64)),
            ("commands", J::I(c as i64)),
        ]));
    }
    out
}
