//! Structured LC-3 programs which terminate by construction (counted loops, leaf / nested /
//! recursive subroutines in both calling conventions, self-modifying stores, every trap, every
//! kind of ending), plus arbitrary word images.

use crate::refasm::*;
use crate::util::Rng;

#[derive(Clone, Debug)]
pub struct ProgOpts {
    pub stack: bool,
    pub io: bool,
    pub breaks: bool,
    /// only HALT / fall-off endings (for debugger sessions that must be able to finish normally)
    pub tame_endings: bool,
    pub origin: Option<i32>,
    pub max_sections: u64,
}

impl Default for ProgOpts {
    fn default() -> Self {
        ProgOpts {
            stack: false,
            io: true,
            breaks: false,
            tame_endings: false,
            origin: None,
            max_sections: 4,
        }
    }
}

#[derive(Clone, Debug, PartialEq, Eq)]
pub enum Ending {
    Halt,
    FallOff,
    JumpFfff,
    JumpLow,
    JumpHigh,
    UnknownTrap,
    StackOpcodeRaw,
}

pub struct Built {
    pub program: Program,
    pub ending: Ending,
    pub features: Vec<&'static str>,
    /// Suggested input bytes.
    pub input: Vec<u8>,
}

struct B {
    main: Vec<Item>,
    subs: Vec<Item>,
    data: Vec<Item>,
    names: Vec<String>,
    features: Vec<&'static str>,
    stack: bool,
}

fn st(label: Option<String>, stmt: Stmt) -> Item {
    Item::Stmt { label, stmt }
}

impl B {
    fn fresh(&mut self, rng: &mut Rng, hint: &str) -> String {
        let mut n = format!("{}{}", hint, self.names.len());
        if rng.chance(1, 3) {
            n = format!("{}_{}", hint.to_uppercase(), self.names.len());
        }
        if !is_plain_label(&n) || self.names.contains(&n) {
            n = format!("L{}_{}", self.names.len(), hint);
        }
        self.names.push(n.clone());
        n
    }
    fn m(&mut self, stmt: Stmt) {
        self.main.push(st(None, stmt));
    }
    fn ml(&mut self, label: String, stmt: Stmt) {
        self.main.push(st(Some(label), stmt));
    }
    fn feat(&mut self, f: &'static str) {
        if !self.features.contains(&f) {
            self.features.push(f);
        }
    }
}

fn scratch(rng: &mut Rng) -> u8 {
    rng.below(4) as u8
}

fn alu(rng: &mut Rng) -> Stmt {
    let (d, a, b) = (scratch(rng), scratch(rng), scratch(rng));
    match rng.below(6) {
        0 => Stmt::AddR(d, a, b),
        1 => Stmt::AddI(d, a, rng.range(-16, 15) as i32),
        2 => Stmt::AndR(d, a, b),
        3 => Stmt::AndI(d, a, rng.range(-16, 15) as i32),
        4 => Stmt::Not(d, a),
        _ => Stmt::AddI(d, d, 1),
    }
}

fn straight(b: &mut B, rng: &mut Rng, into_sub: bool) {
    for _ in 0..1 + rng.below(4) {
        let s = alu(rng);
        if into_sub {
            b.subs.push(st(None, s));
        } else {
            b.m(s);
        }
    }
}

fn memory(b: &mut B, rng: &mut Rng) {
    b.feat("memory");
    let d = b.fresh(rng, "dat");
    let p = b.fresh(rng, "ptr");
    let n = 2 + rng.below(4) as i32;
    b.data.push(st(Some(d.clone()), Stmt::Fill(rng.below(0x10000) as i32)));
    for _ in 1..n {
        b.data.push(st(None, Stmt::Fill(rng.range(-5, 300) as i32)));
    }
    // pointer to the data block: its address is only known at run time, so build it with LEA+ST
    b.data.push(st(Some(p.clone()), Stmt::Fill(0)));
    let tl = |l: &str| Target::Label(l.to_string());
    b.m(Stmt::Lea(6, tl(&d)));
    b.m(Stmt::St(6, tl(&p)));
    for _ in 0..1 + rng.below(4) {
        let r = scratch(rng);
        let s = match rng.below(7) {
            0 => Stmt::Ld(r, tl(&d)),
            1 => Stmt::St(r, tl(&d)),
            2 => Stmt::Ldi(r, tl(&p)),
            3 => Stmt::Sti(r, tl(&p)),
            4 => Stmt::Ldr(r, 6, rng.below(n as u64) as i32),
            5 => Stmt::Str(r, 6, rng.below(n as u64) as i32),
            _ => Stmt::Ldr(r, 6, 0),
        };
        b.m(s);
    }
    if rng.chance(1, 3) {
        // negative offset from a pointer moved forward
        b.m(Stmt::AddI(6, 6, n - 1));
        b.m(Stmt::Ldr(scratch(rng), 6, -(n - 1)));
        b.m(Stmt::Str(scratch(rng), 6, -(rng.below(n as u64) as i32)));
    }
}

fn output(b: &mut B, rng: &mut Rng) {
    b.feat("output");
    let tl = |l: &str| Target::Label(l.to_string());
    match rng.below(6) {
        0 => {
            let s = b.fresh(rng, "msg");
            let body = rng.s(&["Hi", "Hello, world!", "a b", "x\\ty\\n", "caf\u{e9}", "", "0123456789", "tab\\there"]);
            b.data.push(st(Some(s.clone()), Stmt::Stringz(body.to_string())));
            b.m(Stmt::Lea(0, tl(&s)));
            b.m(Stmt::Alias(0x22));
        }
        1 => {
            // packed string for PUTSP: two characters per word, low byte first
            let s = b.fresh(rng, "pk");
            let text: Vec<u8> = rng.s(&["ABC", "ABCD", "x", "", "packed!", "hello world"]).bytes().collect();
            let mut first = true;
            for ch in text.chunks(2) {
                let w = ch[0] as i32 | ((*ch.get(1).unwrap_or(&0) as i32) << 8);
                b.data.push(st(if first { Some(s.clone()) } else { None }, Stmt::Fill(w)));
                first = false;
            }
            b.data.push(st(if first { Some(s.clone()) } else { None }, Stmt::Fill(0)));
            b.m(Stmt::Lea(0, tl(&s)));
            b.m(Stmt::Alias(0x24));
        }
        2 => {
            let c = b.fresh(rng, "ch");
            let v = match rng.below(4) {
                0 => 0x80 + rng.below(0x80) as i32, // Latin-1 range
                1 => 0x4100 + rng.below(0x5F) as i32 + 0x20, // garbage in the high byte: OUT uses [7:0]
                _ => 0x21 + rng.below(0x5E) as i32,
            };
            b.data.push(st(Some(c.clone()), Stmt::Fill(v)));
            b.m(Stmt::Ld(0, tl(&c)));
            b.m(Stmt::Alias(0x21));
        }
        3 => {
            b.m(alu(rng));
            b.m(Stmt::AddI(0, scratch(rng), rng.range(-16, 15) as i32));
            b.m(Stmt::Alias(0x26)); // PUTN
        }
        4 => {
            let c = b.fresh(rng, "num");
            b.data.push(st(Some(c.clone()), Stmt::Fill(*rng.pick(&[0x7FFF, 0x8000, 0xFFFF, 12345, 0, 40000]))));
            b.m(Stmt::Ld(0, tl(&c)));
            b.m(Stmt::Alias(0x26));
        }
        _ => {
            b.m(Stmt::Alias(0x27)); // REG
        }
    }
}

fn input(b: &mut B, rng: &mut Rng) {
    b.feat("input");
    if rng.bool() {
        b.m(Stmt::Alias(0x20));
        if rng.bool() {
            b.m(Stmt::Alias(0x21));
        }
    } else {
        b.m(Stmt::Alias(0x23));
    }
    if rng.bool() {
        b.m(Stmt::AddI(1, 0, 1));
    }
}

fn counted_loop(b: &mut B, rng: &mut Rng, depth: u32, o: &ProgOpts) {
    b.feat("loop");
    let ctr = 4 + depth as u8; // r4 outer, r5 inner
    let top = b.fresh(rng, "loop");
    let n = 1 + rng.below(5) as i32;
    b.m(Stmt::AndI(ctr, ctr, 0));
    b.m(Stmt::AddI(ctr, ctr, n));
    // body
    let before = b.main.len();
    match rng.below(6) {
        0 if depth == 0 => {
            b.feat("nested_loop");
            counted_loop(b, rng, 1, o)
        }
        1 => memory(b, rng),
        2 if o.io => output(b, rng),
        3 => leaf_call(b, rng),
        _ => straight(b, rng, false),
    }
    if b.main.len() == before {
        b.m(alu(rng));
    }
    // attach the loop label to the first body statement
    if let Item::Stmt { label, .. } = &mut b.main[before] {
        if label.is_none() {
            *label = Some(top.clone());
        } else {
            // already labelled (inner loop top): put a no-op in front
            b.main.insert(before, st(Some(top.clone()), Stmt::AddI(0, 0, 0)));
        }
    }
    b.m(Stmt::AddI(ctr, ctr, -1));
    // BRp and BRnp are equivalent here (counter goes n..0); also cover an untaken branch
    let flag = if rng.bool() { 0b001 } else { 0b101 };
    b.m(Stmt::Br(flag, Target::Label(top)));
    if rng.chance(1, 3) {
        let skip = b.fresh(rng, "skip");
        b.m(Stmt::Br(0b100, Target::Label(skip.clone()))); // counter is zero: never taken
        b.m(alu(rng));
        b.ml(skip, Stmt::AddI(0, 0, 0));
    }
}

fn leaf_call(b: &mut B, rng: &mut Rng) {
    let name = b.fresh(rng, "sub");
    // With the stack feature R7 is the stack pointer: JSR/JSRR may then only be used with R7
    // saved around the call, or later PUSH/CALL would write through a code address.
    let use_stack = b.stack && rng.chance(2, 3);
    let save_sp = b.stack && !use_stack;
    // subroutine body
    let start = b.subs.len();
    straight(b, rng, true);
    if let Item::Stmt { label, .. } = &mut b.subs[start] {
        *label = Some(name.clone());
    }
    if use_stack {
        b.feat("call_rets");
        if rng.bool() {
            let r = scratch(rng);
            b.subs.push(st(None, Stmt::Push(r)));
            b.subs.push(st(None, alu(rng)));
            b.subs.push(st(None, Stmt::Pop(r)));
        }
        b.subs.push(st(None, Stmt::Rets));
        b.m(Stmt::Call(name));
    } else {
        if save_sp {
            b.m(Stmt::AddI(6, 7, 0));
        }
        if rng.chance(1, 3) {
            b.feat("jsrr");
            b.subs.push(st(None, Stmt::Ret));
            b.m(Stmt::Lea(3, Target::Label(name)));
            b.m(Stmt::Jsrr(3));
        } else {
            b.feat("jsr_ret");
            b.subs.push(st(None, Stmt::Ret));
            b.m(Stmt::Jsr(Target::Label(name)));
        }
        if save_sp {
            b.m(Stmt::AddI(7, 6, 0));
        }
    }
}

fn nested_call(b: &mut B, rng: &mut Rng) {
    b.feat("nested_call");
    let outer = b.fresh(rng, "outer");
    let inner = b.fresh(rng, "inner");
    if b.stack {
        b.feat("call_rets");
        b.subs.push(st(Some(outer.clone()), alu(rng)));
        b.subs.push(st(None, Stmt::Call(inner.clone())));
        b.subs.push(st(None, alu(rng)));
        b.subs.push(st(None, Stmt::Rets));
        b.subs.push(st(Some(inner), alu(rng)));
        b.subs.push(st(None, Stmt::Rets));
        b.m(Stmt::Call(outer));
    } else {
        b.feat("jsr_ret");
        let save = b.fresh(rng, "save");
        b.data.push(st(Some(save.clone()), Stmt::Fill(0)));
        b.subs.push(st(Some(outer.clone()), Stmt::St(7, Target::Label(save.clone()))));
        b.subs.push(st(None, Stmt::Jsr(Target::Label(inner.clone()))));
        b.subs.push(st(None, alu(rng)));
        b.subs.push(st(None, Stmt::Ld(7, Target::Label(save))));
        b.subs.push(st(None, Stmt::Ret));
        b.subs.push(st(Some(inner), alu(rng)));
        b.subs.push(st(None, Stmt::Ret));
        b.m(Stmt::Jsr(Target::Label(outer)));
    }
}

fn recursion(b: &mut B, rng: &mut Rng) {
    b.feat("recursion");
    let rec = b.fresh(rng, "rec");
    let done = b.fresh(rng, "rdone");
    let depth = 2 + rng.below(3) as i32;
    b.m(Stmt::AndI(4, 4, 0));
    b.m(Stmt::AddI(4, 4, depth));
    if b.stack {
        b.feat("call_rets");
        b.m(Stmt::Call(rec.clone()));
        b.subs.push(st(Some(rec.clone()), Stmt::AddI(4, 4, -1)));
        b.subs.push(st(None, Stmt::Br(0b110, Target::Label(done.clone()))));
        b.subs.push(st(None, Stmt::Call(rec)));
        b.subs.push(st(None, Stmt::AddI(2, 2, 1)));
        b.subs.push(st(Some(done), Stmt::Rets));
    } else {
        b.feat("jsr_ret");
        // manual stack through R6
        let stk = b.fresh(rng, "stk");
        b.data.push(st(None, Stmt::Blkw(8)));
        b.data.push(st(Some(stk.clone()), Stmt::Fill(0)));
        b.m(Stmt::Lea(6, Target::Label(stk)));
        b.m(Stmt::Jsr(Target::Label(rec.clone())));
        b.subs.push(st(Some(rec.clone()), Stmt::AddI(6, 6, -1)));
        b.subs.push(st(None, Stmt::Str(7, 6, 0)));
        b.subs.push(st(None, Stmt::AddI(4, 4, -1)));
        b.subs.push(st(None, Stmt::Br(0b110, Target::Label(done.clone()))));
        b.subs.push(st(None, Stmt::Jsr(Target::Label(rec))));
        b.subs.push(st(None, Stmt::AddI(2, 2, 1)));
        b.subs.push(st(Some(done), Stmt::Ldr(7, 6, 0)));
        b.subs.push(st(None, Stmt::AddI(6, 6, 1)));
        b.subs.push(st(None, Stmt::Ret));
    }
}

fn self_modify(b: &mut B, rng: &mut Rng) {
    b.feat("self_modify");
    let slot = b.fresh(rng, "slot");
    let word = b.fresh(rng, "patch");
    // the word that will be stored over `slot`: an ALU instruction, encoded by the reference
    let patch_stmt = alu(rng);
    let enc = match encode(&Program {
        items: vec![st(None, patch_stmt)],
    }) {
        Verdict::Accept(img) => img.words[0],
        _ => 0x1021,
    };
    b.data.push(st(Some(word.clone()), Stmt::Fill(enc as i32)));
    b.m(Stmt::Ld(scratch(rng), Target::Label(word.clone())));
    let r = scratch(rng);
    b.m(Stmt::Ld(r, Target::Label(word)));
    b.m(Stmt::St(r, Target::Label(slot.clone())));
    b.ml(slot, Stmt::AndI(0, 0, 0)); // overwritten before it executes
}

fn stack_ops(b: &mut B, rng: &mut Rng) {
    b.feat("push_pop");
    let n = 1 + rng.below(3);
    let mut regs = Vec::new();
    for _ in 0..n {
        let r = scratch(rng);
        regs.push(r);
        b.m(Stmt::Push(r));
    }
    b.m(alu(rng));
    for _ in 0..n {
        b.m(Stmt::Pop(scratch(rng)));
    }
}

pub fn gen_structured(rng: &mut Rng, o: &ProgOpts) -> Built {
    let mut b = B {
        main: Vec::new(),
        subs: Vec::new(),
        data: Vec::new(),
        names: Vec::new(),
        features: Vec::new(),
        stack: o.stack,
    };
    let mut input_bytes = Vec::new();
    let sections = 1 + rng.below(o.max_sections);
    for _ in 0..sections {
        match rng.below(12) {
            0 | 1 => straight(&mut b, rng, false),
            2 | 3 => counted_loop(&mut b, rng, 0, o),
            4 => leaf_call(&mut b, rng),
            5 => memory(&mut b, rng),
            6 if o.io => output(&mut b, rng),
            7 if o.io => {
                input(&mut b, rng);
                for _ in 0..2 {
                    input_bytes.push(match rng.below(6) {
                        0 => 0x80 + rng.below(0x80) as u8,
                        1 => *rng.pick(&[b'\n', b'\n', b'\r', b'\t', 0x00, 0x07, 0x08, 0x0C, 0x7F]),
                        _ => 0x20 + rng.below(0x5F) as u8,
                    });
                }
            }
            8 => nested_call(&mut b, rng),
            9 => recursion(&mut b, rng),
            10 => self_modify(&mut b, rng),
            11 if o.stack => stack_ops(&mut b, rng),
            _ => straight(&mut b, rng, false),
        }
    }
    // starve the input sometimes
    if b.features.contains(&"input") && rng.chance(1, 4) {
        input_bytes.clear();
        b.feat("input_starved");
    }
    // ---- ending
    let ending = if o.tame_endings {
        if rng.chance(1, 4) {
            Ending::FallOff
        } else {
            Ending::Halt
        }
    } else {
        match rng.below(12) {
            0 | 1 => Ending::FallOff,
            2 => Ending::JumpFfff,
            3 => Ending::JumpLow,
            4 => Ending::JumpHigh,
            5 => Ending::UnknownTrap,
            6 if !o.stack => Ending::StackOpcodeRaw,
            _ => Ending::Halt,
        }
    };
    let tl = |l: &str| Target::Label(l.to_string());
    match ending {
        Ending::Halt => b.m(Stmt::Alias(0x25)),
        Ending::FallOff => {}
        Ending::JumpFfff | Ending::JumpLow | Ending::JumpHigh => {
            let k = b.fresh(rng, "far");
            let orig = o.origin.unwrap_or(0x3000);
            let v = match ending {
                Ending::JumpFfff => 0xFFFF,
                Ending::JumpLow => {
                    if orig == 0 {
                        0xFFFF
                    } else {
                        *rng.pick(&[0, orig - 1, (orig / 2).max(0)])
                    }
                }
                _ => *rng.pick(&[0xFE00, 0xFE01, 0xFFFE, 0xFF00, 0xFDFF, 0xFDFE, 0xFDFF]),
            };
            b.data.push(st(Some(k.clone()), Stmt::Fill(v)));
            b.m(Stmt::Ld(3, tl(&k)));
            b.m(Stmt::Jmp(3));
        }
        Ending::UnknownTrap => b.m(Stmt::Trap(*rng.pick(&[0x00, 0x1F, 0x28, 0x30, 0xFF, 0x80]))),
        Ending::StackOpcodeRaw => b.m(Stmt::Fill(*rng.pick(&[0xD000, 0xD400, 0xD800, 0xDC05, 0xDFFF]))),
    }
    let ending = if ending == Ending::JumpLow && o.origin.unwrap_or(0x3000) == 0 {
        Ending::JumpFfff
    } else {
        ending
    };
    // ---- layout
    let mut items = Vec::new();
    if let Some(orig) = o.origin {
        items.push(Item::Orig(orig));
    }
    let falls_off = ending == Ending::FallOff;
    if falls_off || rng.chance(1, 3) {
        // data and subroutines first, main last
        let start = "start_".to_string();
        // An unconditional BR is not taken while no condition code is set (initial state), so
        // get to `start_` with a branch that follows a CC-setting instruction, or with JMP.
        if rng.bool() {
            items.push(st(None, Stmt::AndI(3, 3, 0)));
            items.push(st(None, Stmt::Br(if rng.bool() { 0b010 } else { 0b111 }, Target::Label(start.clone()))));
        } else {
            items.push(st(None, Stmt::Lea(3, Target::Label(start.clone()))));
            items.push(st(None, Stmt::Jmp(3)));
        }
        items.extend(b.data);
        items.extend(b.subs);
        let mut main = b.main;
        if main.is_empty() {
            main.push(st(None, Stmt::AddI(0, 0, 0)));
        }
        match &mut main[0] {
            Item::Stmt { label: l @ None, .. } => *l = Some(start),
            _ => main.insert(0, st(Some(start), Stmt::AddI(0, 0, 0))),
        }
        items.extend(main);
    } else {
        items.extend(b.main);
        items.extend(b.subs);
        items.extend(b.data);
    }
    if o.breaks {
        // sprinkle .break before statements (never between a label-only line and its statement:
        // labels are part of the statement item)
        let mut with = Vec::new();
        for it in items {
            if matches!(it, Item::Stmt { .. }) && rng.chance(1, 8) {
                with.push(Item::Break);
            }
            with.push(it);
        }
        items = with;
    }
    if rng.bool() {
        items.push(Item::End);
    }
    Built {
        program: Program { items },
        ending,
        features: b.features,
        input: input_bytes,
    }
}

/// Small images aimed at what a run loop or a "compatibility" special case could get wrong:
/// instructions that jump to themselves (the reference just keeps running until the step budget),
/// HALT written with its reserved bits set, loads and stores through pointers to the addresses
/// other LC-3 systems map devices to (plain memory here), with bit 15 of the data both ways.
pub fn directed_raw_image(k: u64) -> Vec<u16> {
    const SPECIAL: [u16; 8] = [0xFE00, 0xFE02, 0xFE04, 0xFE06, 0xFFFC, 0xFFFE, 0xFDFF, 0xFFFF];
    let k = k as usize;
    let mut orig = [0x3000u16, 0x0200, 0x8000, 0xFD00][k % 4];
    if (12..=14).contains(&((k / 4) % 18)) && orig == 0xFD00 {
        orig = 0x4000; // (the long images do not fit above xFD00)
    }
    let orig = orig;
    if (k / 4) % 18 >= 16 {
        // addresses that wrap around the ends of the address space: PC-relative loads and stores from an image at
        // the very bottom of memory reach the top, and the other way round
        let low = (k / 4) % 18 == 16;
        let orig = if low { [0x0000u16, 0x0002, 0x0001, 0x0000][k % 4] } else { [0xFFF0u16, 0xFFF4, 0xFFF8, 0xFFF0][k % 4] };
        let body: Vec<u16> = if low {
            // LD R0,+5 ; ST R0,#-8 (wraps to the top) ; LD R1,#-9 (same word) ; ADD R2,R1,#1 ; LEA R3,#-16 ; HALT ; data
            vec![0x2005, 0x31F8, 0x23F7, 0x1461, 0xE7F0, 0xF025, 0x0041]
        } else {
            // from the top of memory forward past xFFFF: LD R0,+2 ; ST R0,+40 (wraps to the bottom) ; LD R1,+39 ; HALT ; data
            // (execution above xFE00 is outside the claim: the reference says so, or agrees)
            vec![0x2003, 0x3028, 0x2227, 0xF025, 0x0042]
        };
        let mut v = vec![orig];
        v.extend(body);
        return v;
    }
    let body: Vec<u16> = match (k / 4) % 18 {
        // both ends of every PC-relative and base+offset field, in images long enough to hold the target
        12 => {
            // JSR +1023 to a JSR -1024 which calls the routine right behind the first word
            let mut b = vec![0u16; 1026];
            b[0] = 0x4BFF;
            b[1] = 0x1021; // ADD R0,R0,#1
            b[2] = 0xC1C0; // RET
            b[1024] = 0x4C00;
            b[1025] = 0xF025;
            b
        }
        13 => {
            // BRnzp +255 to a BRnzp -256, back to word 1, on with BRnzp +254
            let mut b = vec![0u16; 258];
            b[0] = 0x0EFF;
            b[1] = 0x1021;
            b[2] = 0x0EFE;
            b[256] = 0x0F00;
            b[257] = 0xF025;
            b
        }
        14 => {
            // LD +255, then ST / LD / LEA / LDI / STI with offset -256
            let mut b = vec![0u16; 264];
            b[0] = 0x20FF; // LD R0,#255 -> word 256
            b[1] = 0x0EFF; // BRnzp +255 -> word 257
            b[3] = 0x4321;
            b[5] = orig.wrapping_add(256); // pointer for LDI
            b[6] = orig.wrapping_add(7); // pointer for STI
            b[256] = 0x1234;
            b[257] = 0x3100; // ST R0,#-256 -> word 2
            b[258] = 0x2500; // LD R2,#-256 -> word 3
            b[259] = 0xE700; // LEA R3,#-256 -> word 4
            b[260] = 0xA900; // LDI R4,#-256 -> through word 5
            b[261] = 0xB100; // STI R0,#-256 -> through word 6
            b[262] = 0xF025;
            b
        }
        15 => {
            // LDR / STR with offsets -32 and +31 around a base in the middle of the image
            let mut b = vec![0u16; 80];
            b[0] = 0xE427; // LEA R2,#39 -> word 40
            b[1] = 0x62A0; // LDR R1,R2,#-32 -> word 8
            b[2] = 0x669F; // LDR R3,R2,#31 -> word 71
            b[3] = 0x72BF; // STR R1,R2,#-1 -> word 39
            b[4] = 0x769F | 0x0000; // STR R3,R2,#31 -> word 71
            b[5] = 0x76A0; // STR R3,R2,#-32 -> word 8
            b[6] = 0xF025;
            b[8] = 0x1111;
            b[71] = 0x7777;
            b
        }
        0 => vec![0x5020, 0x0FFF, 0xF025],                         // AND R0,R0,#0 ; BRnzp self
        1 => vec![0xE200, 0xC040, 0xF025],                         // LEA R1,#0 ; JMP R1 (to itself)
        2 => vec![0x4FFF, 0xF025],                                 // JSR self
        3 => vec![0xE201, 0x4040, 0x1021, 0xF025],                 // LEA R1,#1 ; JSRR R1 -> falls through once (R1 = next)
        4 => vec![0x1021, 0xF125],                                 // HALT with reserved bits
        5 => vec![0x1021, 0xFF25, 0x1021],
        6 => vec![0xF325],
        _ => {
            // STI / LDI / ST+LD through a pointer to a special address, data with bit 15 clear or set
            let sp = SPECIAL[(k / 48) % 8];
            let data = [0x0000u16, 0x7FFF, 0x8000, 0x1234][(k / 4) % 4];
            // 0: LD R0,data  1: STI R0,ptr  2: LDI R1,ptr  3: ADD R2,R1,#1  4: OUT-less marker ADD  5: HALT  6: ptr 7: data
            vec![0x2006, 0xB004, 0xA203, 0x1461, 0x16E1, 0xF025, sp, data]
        }
    };
    let mut v = vec![orig];
    v.extend(body);
    v
}

/// Arbitrary word image (origin word first), biased towards decodable instructions.
pub fn gen_raw_image(rng: &mut Rng) -> Vec<u16> {
    let orig: u16 = match rng.below(8) {
        0 => 0x3000,
        1 => rng.below(0x100) as u16,
        2 => 0xFDFF - rng.below(0x40) as u16,
        3 => 0x8000u16.wrapping_sub(rng.below(0x20) as u16),
        _ => rng.below(0xFE00) as u16,
    };
    let n = match rng.below(7) {
        6 => 0, // empty image: only the implicit HALT
        0 => 1 + rng.below(4),
        1 => 100 + rng.below(300),
        _ => 5 + rng.below(40),
    } as usize;
    let n = n.min(0xFFFF - orig as usize);
    let mut v = vec![orig];
    for _ in 0..n {
        let w = match rng.below(16) {
            0 => 0xF020 + rng.below(8) as u16,                     // known traps
            1 => 0xF000 | rng.below(256) as u16,                   // any trap
            2 => 0xD000 | rng.below(0x1000) as u16,                // stack opcode
            3 => rng.below(0x0E00) as u16 | ((rng.below(8) as u16) << 9), // BR
            4 => 0x0000,
            5 => 0x1020 | ((rng.below(8) as u16) << 9) | ((rng.below(8) as u16) << 6) | rng.below(32) as u16,
            6 => 0xC000 | ((rng.below(8) as u16) << 6),
            7 => 0x4800 | rng.below(0x800) as u16,
            8 => 0x8000, // RTI: discarded by the oracle
            _ => rng.u16(),
        };
        v.push(w);
    }
    v
}
