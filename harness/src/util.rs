//! PRNG, JSON writer, result collection.

use std::collections::{BTreeMap, HashSet};
use std::fmt::Write as _;

// ---------------------------------------------------------------- PRNG

#[derive(Clone)]
pub struct Rng(pub u64);

impl Rng {
    pub fn new(seed: u64) -> Self {
        Rng(seed)
    }
    /// Independent stream for (seed, property tag, case index).
    pub fn for_case(seed: u64, tag: &str, idx: u64) -> Self {
        let mut h = seed ^ 0x9E37_79B9_7F4A_7C15;
        for b in tag.bytes() {
            h = mix64(h ^ b as u64);
        }
        Rng(mix64(h ^ mix64(idx.wrapping_add(0x1234_5678_9ABC_DEF1))))
    }
    pub fn next(&mut self) -> u64 {
        self.0 = self.0.wrapping_add(0x9E37_79B9_7F4A_7C15);
        mix64(self.0)
    }
    pub fn below(&mut self, n: u64) -> u64 {
        if n == 0 {
            0
        } else {
            self.next() % n
        }
    }
    pub fn range(&mut self, lo: i64, hi_incl: i64) -> i64 {
        lo + self.below((hi_incl - lo + 1) as u64) as i64
    }
    pub fn bool(&mut self) -> bool {
        self.next() & 1 == 1
    }
    pub fn chance(&mut self, num: u64, den: u64) -> bool {
        self.below(den) < num
    }
    pub fn u16(&mut self) -> u16 {
        self.next() as u16
    }
    pub fn s(&mut self, items: &[&'static str]) -> &'static str {
        items[self.below(items.len() as u64) as usize]
    }
    pub fn pick<'a, T>(&mut self, items: &'a [T]) -> &'a T {
        &items[self.below(items.len() as u64) as usize]
    }
}

pub fn mix64(mut z: u64) -> u64 {
    z = (z ^ (z >> 30)).wrapping_mul(0xBF58_476D_1CE4_E5B9);
    z = (z ^ (z >> 27)).wrapping_mul(0x94D0_49BB_1331_11EB);
    z ^ (z >> 31)
}

pub fn hash_bytes(bytes: &[u8]) -> u64 {
    let mut h: u64 = 0xcbf2_9ce4_8422_2325;
    for b in bytes {
        h ^= *b as u64;
        h = h.wrapping_mul(0x0000_0100_0000_01B3);
    }
    mix64(h)
}

pub fn hash_words(words: &[u16]) -> u64 {
    let mut h: u64 = 0xcbf2_9ce4_8422_2325;
    for w in words {
        h ^= *w as u64;
        h = h.wrapping_mul(0x0000_0100_0000_01B3);
    }
    mix64(h)
}

// ---------------------------------------------------------------- JSON

#[derive(Clone, Debug)]
pub enum J {
    Null,
    B(bool),
    I(i64),
    F(f64),
    S(String),
    A(Vec<J>),
    O(Vec<(String, J)>),
}

impl J {
    pub fn s(v: impl Into<String>) -> J {
        J::S(v.into())
    }
    pub fn obj(pairs: Vec<(&str, J)>) -> J {
        J::O(pairs.into_iter().map(|(k, v)| (k.to_string(), v)).collect())
    }
    pub fn words(ws: &[u16]) -> J {
        J::A(ws.iter().map(|w| J::S(format!("x{:04X}", w))).collect())
    }
    pub fn render(&self) -> String {
        let mut out = String::new();
        self.write(&mut out);
        out
    }
    fn write(&self, out: &mut String) {
        match self {
            J::Null => out.push_str("null"),
            J::B(b) => out.push_str(if *b { "true" } else { "false" }),
            J::I(i) => {
                let _ = write!(out, "{}", i);
            }
            J::F(f) => {
                if f.is_finite() {
                    let _ = write!(out, "{}", f);
                } else {
                    out.push_str("null");
                }
            }
            J::S(s) => write_str(out, s),
            J::A(items) => {
                out.push('[');
                for (i, item) in items.iter().enumerate() {
                    if i > 0 {
                        out.push(',');
                    }
                    item.write(out);
                }
                out.push(']');
            }
            J::O(pairs) => {
                out.push('{');
                for (i, (k, v)) in pairs.iter().enumerate() {
                    if i > 0 {
                        out.push(',');
                    }
                    write_str(out, k);
                    out.push(':');
                    v.write(out);
                }
                out.push('}');
            }
        }
    }
}

fn write_str(out: &mut String, s: &str) {
    out.push('"');
    for c in s.chars() {
        match c {
            '"' => out.push_str("\\\""),
            '\\' => out.push_str("\\\\"),
            '\n' => out.push_str("\\n"),
            '\r' => out.push_str("\\r"),
            '\t' => out.push_str("\\t"),
            c if (c as u32) < 0x20 || c == '\u{7f}' => {
                let _ = write!(out, "\\u{:04x}", c as u32);
            }
            c => out.push(c),
        }
    }
    out.push('"');
}

// ---------------------------------------------------------------- results

#[derive(Clone, Debug)]
pub struct Violation {
    /// Stable signature used for known-finding matching.
    pub key: String,
    pub case: u64,
    pub what: String,
    pub detail: J,
}

/// Per-case outcome produced by a worker.
#[derive(Default)]
pub struct CaseOut {
    /// Class counters bumped by this case (floors, histograms).
    pub classes: Vec<String>,
    /// Hash of the abstract case if it is non-trivial by the property's rule.
    pub nontrivial: Option<u64>,
    pub violations: Vec<Violation>,
    pub inconclusive: Option<String>,
    pub sample: Option<J>,
    /// Number of oracle evaluations in this case (default 1).
    pub evals: u64,
}

impl CaseOut {
    pub fn new() -> Self {
        CaseOut {
            evals: 1,
            ..Default::default()
        }
    }
    pub fn class(&mut self, name: impl Into<String>) {
        self.classes.push(name.into());
    }
    pub fn violate(&mut self, key: impl Into<String>, case: u64, what: impl Into<String>, detail: J) {
        self.violations.push(Violation {
            key: key.into(),
            case,
            what: what.into(),
            detail,
        });
    }
}

pub struct Collector {
    pub evaluations: u64,
    pub classes: BTreeMap<String, u64>,
    pub distinct: HashSet<u64>,
    pub samples: Vec<J>,
    pub max_samples: usize,
    pub violations: Vec<Violation>,
    pub violation_counts: BTreeMap<String, u64>,
    pub inconclusive: BTreeMap<String, u64>,
    pub extra: Vec<(String, J)>,
    pub exhaustive: bool,
    /// (seconds, case index) of the slowest case
    pub slowest: (f64, u64),
}

impl Collector {
    pub fn new() -> Self {
        Collector {
            evaluations: 0,
            classes: BTreeMap::new(),
            distinct: HashSet::new(),
            samples: Vec::new(),
            max_samples: 5,
            violations: Vec::new(),
            violation_counts: BTreeMap::new(),
            inconclusive: BTreeMap::new(),
            extra: Vec::new(),
            exhaustive: false,
            slowest: (0.0, 0),
        }
    }
    pub fn add(&mut self, out: CaseOut) {
        self.evaluations += out.evals;
        for c in out.classes {
            *self.classes.entry(c).or_insert(0) += 1;
        }
        if let Some(h) = out.nontrivial {
            self.distinct.insert(h);
        }
        if let Some(s) = out.sample {
            if self.samples.len() < self.max_samples {
                self.samples.push(s);
            }
        }
        for v in out.violations {
            let n = self.violation_counts.entry(v.key.clone()).or_insert(0);
            *n += 1;
            // keep at most 3 witnesses per key
            if *n <= 3 {
                self.violations.push(v);
            }
        }
        if let Some(r) = out.inconclusive {
            *self.inconclusive.entry(r).or_insert(0) += 1;
        }
    }
    pub fn bump(&mut self, class: &str, n: u64) {
        *self.classes.entry(class.to_string()).or_insert(0) += n;
    }
    pub fn count(&self, class: &str) -> u64 {
        self.classes.get(class).copied().unwrap_or(0)
    }
    /// Floors: classes which must have been observed at least once.
    pub fn missing_floors(&self, floors: &[&str]) -> Vec<String> {
        floors
            .iter()
            .filter(|f| self.count(f) == 0)
            .map(|f| f.to_string())
            .collect()
    }
    pub fn to_json(&self, floors: &[&str]) -> J {
        J::O(vec![
            ("evaluations".into(), J::I(self.evaluations as i64)),
            ("distinct_nontrivial".into(), J::I(self.distinct.len() as i64)),
            ("exhaustive".into(), J::B(self.exhaustive)),
            (
                "classes".into(),
                J::O(self
                    .classes
                    .iter()
                    .map(|(k, v)| (k.clone(), J::I(*v as i64)))
                    .collect()),
            ),
            (
                "floors".into(),
                J::A(floors.iter().map(|f| J::s(*f)).collect()),
            ),
            (
                "floors_missing".into(),
                J::A(self.missing_floors(floors).into_iter().map(J::S).collect()),
            ),
            ("samples".into(), J::A(self.samples.clone())),
            (
                "violations".into(),
                J::A(self
                    .violations
                    .iter()
                    .map(|v| {
                        J::obj(vec![
                            ("key", J::s(&v.key)),
                            ("case", J::I(v.case as i64)),
                            ("what", J::s(&v.what)),
                            ("detail", v.detail.clone()),
                        ])
                    })
                    .collect()),
            ),
            (
                "violation_counts".into(),
                J::O(self
                    .violation_counts
                    .iter()
                    .map(|(k, v)| (k.clone(), J::I(*v as i64)))
                    .collect()),
            ),
            (
                "inconclusive".into(),
                J::O(self
                    .inconclusive
                    .iter()
                    .map(|(k, v)| (k.clone(), J::I(*v as i64)))
                    .collect()),
            ),
            ("extra".into(), J::O(self.extra.clone())),
            (
                "slowest_case".into(),
                J::obj(vec![("seconds", J::F(self.slowest.0)), ("case", J::I(self.slowest.1 as i64))]),
            ),
        ])
    }
}

/// Where the result document goes; the watchdog writes `<path>.stuck` next to it.
pub static OUT_PATH: std::sync::OnceLock<String> = std::sync::OnceLock::new();

/// `<out>.inflight`: one 8-byte slot per worker holding (case index + 1) while the case runs. If the
/// process is ended from inside lace (a signal, stack overflow, abort, a direct `process::exit`) the
/// driver reads the slots and re-runs those cases alone to decide which one does it.
static INFLIGHT: std::sync::OnceLock<Option<std::fs::File>> = std::sync::OnceLock::new();

fn inflight_set(worker: usize, value: u64) {
    if cfg!(miri) {
        return;
    }
    let file = INFLIGHT.get_or_init(|| {
        let path = OUT_PATH.get()?;
        std::fs::OpenOptions::new().create(true).write(true).truncate(true).open(format!("{}.inflight", path)).ok()
    });
    if let Some(f) = file {
        use std::os::unix::fs::FileExt;
        let _ = f.write_at(&value.to_le_bytes(), worker as u64 * 8);
    }
}
/// Wall-clock seconds after which a single case is *nominated* as non-terminating. The verdict
/// is never taken from this: the driver re-runs the nominated case under a CPU-time limit.
pub const STUCK_AFTER_S: u64 = 45;
/// The nomination time in force: `LV_STUCK_AFTER_S` from the environment (the driver raises it when a
/// nominated case turned out to be merely slow on a loaded machine), else the default.
pub fn stuck_after_s() -> u64 {
    static V: std::sync::OnceLock<u64> = std::sync::OnceLock::new();
    *V.get_or_init(|| std::env::var("LV_STUCK_AFTER_S").ok().and_then(|v| v.parse().ok()).unwrap_or(STUCK_AFTER_S))
}
/// (shard, number of shards): a process only runs the cases with index % n == shard. Used to
/// spread slow (Miri) workloads over processes.
pub static SHARD: std::sync::OnceLock<(u64, u64)> = std::sync::OnceLock::new();

/// Run `n` cases over a worker pool; every case runs on its own fresh thread (lace keeps its
/// symbol table and feature flags in thread-locals).
pub fn run_cases<F>(n: u64, only: Option<u64>, threads: usize, col: &mut Collector, f: F)
where
    F: Fn(u64) -> CaseOut + Send + Sync,
{
    run_cases_impl(n, only, threads, col, f, true)
}

/// Same, but the case closure runs directly on the worker thread (for monitors which spawn
/// their own fresh threads around every call into lace).
pub fn run_cases_plain<F>(n: u64, only: Option<u64>, threads: usize, col: &mut Collector, f: F)
where
    F: Fn(u64) -> CaseOut + Send + Sync,
{
    run_cases_impl(n, only, threads, col, f, false)
}

fn run_cases_impl<F>(n: u64, only: Option<u64>, threads: usize, col: &mut Collector, f: F, fresh: bool)
where
    F: Fn(u64) -> CaseOut + Send + Sync,
{
    use std::sync::atomic::{AtomicBool, AtomicU64, Ordering};
    use std::sync::Mutex;
    let threads = threads.max(1);
    let next = AtomicU64::new(0);
    let done = AtomicBool::new(false);
    let t0 = std::time::Instant::now();
    // per worker: (case index + 1 or 0 when idle, start in ms since t0)
    let active: Vec<(AtomicU64, AtomicU64)> =
        (0..threads).map(|_| (AtomicU64::new(0), AtomicU64::new(0))).collect();
    let shared = Mutex::new(std::mem::replace(col, Collector::new()));
    std::thread::scope(|scope| {
        // watchdog
        scope.spawn(|| {
            while !done.load(Ordering::Relaxed) {
                std::thread::sleep(std::time::Duration::from_millis(200));
                if cfg!(miri) {
                    // no wall-clock nomination under the interpreter (4 orders of magnitude slower)
                    continue;
                }
                let now = t0.elapsed().as_millis() as u64;
                for (case, start) in &active {
                    let c = case.load(Ordering::Relaxed);
                    if c != 0 && now.saturating_sub(start.load(Ordering::Relaxed)) > stuck_after_s() * 1000 {
                        if let Some(path) = OUT_PATH.get() {
                            let _ = std::fs::write(format!("{}.stuck", path), format!("{}", c - 1));
                        }
                        std::process::exit(3);
                    }
                }
            }
        });
        let workers: Vec<_> = (0..threads)
            .map(|w| {
                let (next, active, shared, f) = (&next, &active, &shared, &f);
                scope.spawn(move || loop {
                    let i = match only {
                        Some(i) => {
                            if next.fetch_add(1, Ordering::Relaxed) != 0 {
                                break;
                            }
                            i
                        }
                        None => {
                            let i = next.fetch_add(1, Ordering::Relaxed);
                            if i >= n {
                                break;
                            }
                            if let Some((shard, nshards)) = SHARD.get() {
                                if i % nshards != *shard {
                                    continue;
                                }
                            }
                            i
                        }
                    };
                    let start = std::time::Instant::now();
                    active[w].1.store(t0.elapsed().as_millis() as u64, Ordering::Relaxed);
                    active[w].0.store(i + 1, Ordering::Relaxed);
                    inflight_set(w, i + 1);
                    let out = if fresh { run_on_fresh_thread(f, i) } else { f(i) };
                    inflight_set(w, 0);
                    active[w].0.store(0, Ordering::Relaxed);
                    let dt = start.elapsed().as_secs_f64();
                    let mut col = shared.lock().unwrap();
                    if dt > col.slowest.0 {
                        col.slowest = (dt, i);
                    }
                    col.add(out);
                })
            })
            .collect();
        for w in workers {
            let _ = w.join();
        }
        done.store(true, Ordering::Relaxed);
    });
    *col = shared.into_inner().unwrap();
}

fn run_on_fresh_thread<F>(f: &F, i: u64) -> CaseOut
where
    F: Fn(u64) -> CaseOut + Send + Sync,
{
    std::thread::scope(|scope| {
        let handle = std::thread::Builder::new()
            .stack_size(8 << 20)
            .spawn_scoped(scope, || f(i))
            .expect("spawn case thread");
        match handle.join() {
            Ok(out) => out,
            Err(_) => {
                let mut out = CaseOut::new();
                let at = crate::exec::LAST_PANIC_ANY_THREAD.lock().ok().and_then(|g| g.clone());
                let _ = i;
                out.inconclusive = Some(match at {
                    Some((loc, msg)) => format!("harness thread panicked at {}: {}", loc, msg.chars().take(120).collect::<String>()),
                    None => "harness thread panicked".to_string(),
                });
                out
            }
        }
    })
}
