//! C17 — the debugger's view of source and symbols matches the assembler's.
//!
//! Monitor: for generated programs in randomised layouts, `assembly <addr>` output (minimal mode,
//! captured through the debugger-output tee) for every address of the image and two beyond each
//! end is compared with the renderer's recorded statement text; `goto <label+-k>` and
//! `print <label>` with the reference assembler's label addresses.

use crate::dbgmon::run_session;
use crate::exec::Abort;
use crate::refasm::*;
use crate::util::{hash_bytes, CaseOut, Collector, Rng, J};
use crate::Cfg;

pub const FLOORS: &[&str] = &[
    "stmt:instruction_with_operands", "stmt:operandless_after_operandful", "stmt:stringz_inner_word",
    "stmt:blkw_inner_word", "stmt:fill", "addr:below_origin", "addr:beyond_image", "label:goto",
    "label:goto_offset", "label:print", "label_colon", "label_own_line", "multibyte_in_source",
    "origin:default", "origin:other", "origin:ge8000", "image_straddles_8000", "break_or_orig_interleaved",
    "assembly_after_memory_was_modified", "label_like_register_with_digits", "break_table_row", "break_table_row_truncated",
    "break_table_row_multibyte", "break_table_row_without_statement", "image_crosses_fe00", "label_shaped_like_number_or_register",
    "eval_of_a_line_with_its_label_in_front", "stmt:continued_on_the_next_line", "first_statement_at_byte_zero_without_operands", "label_in_front_of_break", "label_offset_beyond_16_bits_refused", "label_32768_words_behind_the_statement_asked_for", "label:move_signed_value",
];

pub fn run(cfg: &Cfg, col: &mut Collector) {
    let n = cfg.n(400, 20_000, 3);
    let seed = cfg.seed;
    crate::util::run_cases(n, cfg.only_case, cfg.threads, col, move |i| one_case(seed, i));
    col.extra.push(("programs".into(), J::I(n as i64)));
}

fn debugger_safe(name: &str) -> bool {
    // the command grammar reads b../o../x.. followed by digits of that radix as integers, r0-r7 as registers
    let first = name.chars().next().unwrap_or('x').to_ascii_lowercase();
    if first == 'r' {
        // r + digit + more label characters is a label (not a register, not an integer)
        let b = name.as_bytes();
        return b.len() >= 3 && b[1].is_ascii_digit() && b[2].is_ascii_digit();
    }
    !matches!(first, 'b' | 'o' | 'x') && name.len() >= 2
}

fn one_case(seed: u64, i: u64) -> CaseOut {
    let mut out = CaseOut::new();
    let mut rng = Rng::for_case(seed, "C17", i);
    let stack = rng.bool();
    let origin = match rng.below(7) {
        0 => None,
        // the image runs across xFE00: the assembler allows it, and those words have source text too
        6 => Some(0xFDE8 + rng.below(0x18) as i32),
        1 => Some(0x7FF0 + rng.below(0xF) as i32),
        2 => Some(0x8000 + rng.below(0x7000) as i32),
        _ => Some(gen_origin(&mut rng).clamp(2, 0xF800)),
    };
    let o = GenOpts {
        stack,
        max_stmts: 28,
        min_stmts: 3,
        origin,
        breaks: rng.bool(),
        ..Default::default()
    };
    let mut p = gen_program(&mut rng, &o);
    if origin.is_none() {
        p.items.retain(|it| !matches!(it, Item::Orig(_)));
    }
    // a label followed by `.break` (or standing in front of `.orig`) marks the next statement like any other label
    if rng.chance(1, 4) {
        let stmt_positions: Vec<usize> = p.items.iter().enumerate().filter(|(_, it)| matches!(it, Item::Stmt { .. })).map(|(k, _)| k).collect();
        if !stmt_positions.is_empty() {
            let at = *rng.pick(&stmt_positions);
            let name = format!("{}{}", rng.s(&["brk_at_", "Stop", "chk"]), at);
            p.items.insert(at, Item::LabelBreak(name));
            out.class("label_in_front_of_break");
        }
    }
    // (sources that will get a byte-order mark in front start with a labelled statement nobody refers to)
    if i % 31 == 17 {
        p.items.retain(|it| !matches!(it, Item::Orig(_)));
        if let Some(Item::Stmt { label, .. }) = p.items.iter_mut().find(|it| matches!(it, Item::Stmt { .. })) {
            if label.is_none() {
                *label = Some("start_of_it".to_string());
            }
        }
    }
    // the very first byte of the file starts a statement without operands (no `.orig`, label, comment or
    // blank in front): its text is as much its own as anybody's
    let starts_at_byte_zero = i % 29 == 11;
    if starts_at_byte_zero {
        p.items.retain(|it| !matches!(it, Item::Orig(_)));
        let first = match (i / 29) % 6 {
            0 => Stmt::Alias(0x25),
            1 => Stmt::Ret,
            2 => Stmt::Alias(0x22),
            3 => Stmt::Fill(7),
            4 => Stmt::Stringz("ab".into()),
            _ => Stmt::Blkw(3),
        };
        p.items.insert(0, Item::Stmt { label: None, stmt: first });
        out.class("first_statement_at_byte_zero_without_operands");
    }
    // a label that looks like a register followed by more digits is an ordinary label, for the
    // assembler and for the debugger's location grammar alike (registers are exactly r0..r7)
    if rng.chance(1, 3) {
        let names: Vec<String> = p.items.iter().filter_map(|it| match it { Item::Stmt { label: Some(l), .. } => Some(l.clone()), _ => None }).collect();
        if let Some(old) = names.first() {
            let new = rng.s(&["r10", "R25", "r18", "r77", "R00"]);
            if !names.iter().any(|n| n == new) {
                rename_label(&mut p, old, new);
                out.class("label_like_register_with_digits");
            }
        }
    }
    // a program of more than 32768 words with a label at its far end: `far_-32768` (the most negative offset
    // there is) names a statement near the start, like any other label and offset
    let wide = i % 37 == 19 && !cfg!(miri);
    if wide {
        if let Verdict::Accept(pre) = encode(&p) {
            let n0 = pre.words.len();
            if n0 > 0 && n0 < 0x4000 {
                p.items.retain(|it| !matches!(it, Item::Orig(_) | Item::End));
                p.items.insert(0, Item::Orig(*rng.pick(&[0x0200, 0x1000, 0x3000, 0x7000])));
                p.items.push(Item::Stmt { label: None, stmt: Stmt::Blkw((0x8000 - n0) as i32) });
                p.items.push(Item::Stmt { label: Some("far_".to_string()), stmt: Stmt::AddI(1, 1, 1) });
                p.items.push(Item::End);
                out.class("label_32768_words_behind_the_statement_asked_for");
            }
        }
    }
    let img = match encode(&p) {
        Verdict::Accept(img) => img,
        _ => {
            out.evals = 0;
            return out;
        }
    };
    if img.origin() as usize + img.words.len() > 0xFFF0 {
        out.evals = 0;
        return out;
    }
    if img.origin() as usize + img.words.len() > 0xFE00 {
        out.class("image_crosses_fe00");
    }
    let lay = if rng.chance(1, 4) || starts_at_byte_zero || i % 31 == 17 { Layout::canonical() } else { Layout::random(&mut rng) };
    let rendered = render(&p, &lay, &mut rng);
    let text = &rendered.text;
    // a byte-order mark in front (some editors write one): if the assembler takes the file at all, every
    // label and statement text is what it is without the mark
    let with_bom = i % 31 == 17;
    let session_text = if with_bom { format!("{}{}", '\u{feff}', text) } else { text.clone() };
    let orig = img.origin();
    let n = img.words.len() as i32;

    // ---- script
    enum Q {
        Asm(u16),
        Goto(String, u16, i32),
        Print(String, u16, i32),
        /// `move <label>[+-k] <value>`: token, label address, offset, value as written, value
        Move(String, u16, i32, String, u16),
    }
    // label + an offset beyond 16 bits: refused where the line is parsed (checked separately below, these lines
    // have no prompt of their own)
    let mut refused_lines: Vec<String> = Vec::new();
    for (name, _) in img.labels.iter().take(3) {
        if matches!(crate::refcmd::memory_location(name), Ok(crate::refcmd::RLoc::Label(n, 0)) if n == *name) {
            let off = *rng.pick(&[32768u32, 40000, 50000, 65535, 65536, 100000]);
            let line = format!("{} {}{}{}", rng.s(&["goto", "break add", "move"]), name, rng.s(&["+", "-"]), off);
            let line = if line.starts_with("move") { format!("{} x1234", line) } else { line };
            if crate::refcmd::parse(&line).is_err() {
                refused_lines.push(line);
            }
        }
    }
    let mut qs: Vec<Q> = Vec::new();
    for k in -2..n + 2 {
        if n > 4000 && k > 40 && k < n - 3 {
            continue;
        }
        let a = orig as i32 + k;
        if (0..0x10000).contains(&a) {
            qs.push(Q::Asm(a as u16));
        }
    }
    // the token is written first and shown to the reference grammar of the command language: names
    // like `b10`, `o7`, `r3`, `100` are labels to the assembler but integers or registers to the
    // debugger; a query is only made where the grammar says "label NAME plus offset K"
    let off_text0 = |k: i32, rng: &mut Rng| -> String {
        if k == 0 && rng.bool() {
            String::new()
        } else if k < 0 {
            format!("-{}", -k)
        } else {
            format!("+{}", k)
        }
    };
    for (name, idx) in &img.labels {
        let addr = orig + *idx as u16;
        for (is_print, k) in [(false, 0), (false, rng.range(-3, 3) as i32), (true, rng.range(-2, 2) as i32)] {
            let token = format!("{}{}", name, off_text0(k, &mut rng));
            match crate::refcmd::memory_location(&token) {
                Ok(crate::refcmd::RLoc::Label(n, o)) if n == *name && o as i32 == k => {
                    if !debugger_safe(name) {
                        out.class("label_shaped_like_number_or_register");
                    }
                    if is_print && rng.chance(1, 3) {
                        // a value with a sign of its own behind a label: the sign belongs to the value
                        let (vt, v) = *rng.pick(&[("-1", 0xFFFFu16), ("+7", 7), ("-4", 0xFFFC), ("#-2", 0xFFFE), ("x-1", 0xFFFF), ("-x10", 0xFFF0), ("+0", 0), ("12", 12)]);
                        if matches!(crate::refcmd::parse(&format!("move {} {}", token, vt)), Ok(crate::refcmd::Parsed::Move(_, pv)) if pv == v) {
                            qs.push(Q::Move(token.clone(), addr, k, vt.to_string(), v));
                        }
                    }
                    if is_print {
                        qs.push(Q::Print(token, addr, k));
                    } else {
                        qs.push(Q::Goto(token, addr, k));
                    }
                }
                _ => out.class("label_token_is_not_a_label_to_the_debugger"),
            }
        }
    }
    if let Some((_, idx)) = img.labels.iter().find(|(nm, idx)| nm == "far_" && *idx == 0x8000) {
        let addr = orig + *idx as u16;
        for (is_print, token) in [(false, "far_-32768"), (true, "far_-x8000"), (false, "far_-0x7FFF"), (true, "far_-32767")] {
            let k = if token.ends_with("7FFF") || token.ends_with("32767") { -0x7FFF } else { -0x8000 };
            if matches!(crate::refcmd::memory_location(token), Ok(crate::refcmd::RLoc::Label(nm, o)) if nm == "far_" && o as i32 == k) {
                if is_print {
                    qs.push(Q::Print(token.to_string(), addr, k));
                } else {
                    qs.push(Q::Goto(token.to_string(), addr, k));
                }
            }
        }
    }
    // shuffle so that `assembly` is not only asked in address order
    for k in (1..qs.len()).rev() {
        let j = rng.below(k as u64 + 1) as usize;
        qs.swap(k, j);
    }
    // some words are overwritten first: `assembly` shows the *source* of the statement which
    // produced the word at that address, whatever the word holds now. (These lines come first so
    // that the queries keep their positions: query k is line k + n_moves.)
    let mut lines = Vec::new();
    let n_moves = if rng.bool() { 1 + rng.below(3) as usize } else { 0 };
    for _ in 0..n_moves {
        let a = orig as i32 + rng.below(n.max(1) as u64) as i32;
        if a >= orig as i32 && a < 0xFE00 {
            lines.push(format!("move x{:04x} x{:04x}", a, rng.u16()));
        } else {
            lines.push("registers".to_string());
        }
    }
    if n_moves > 0 {
        out.class("assembly_after_memory_was_modified");
    }
    // a source line pasted into `eval` with its label in front is refused ("expected an instruction");
    // the label keeps marking its own statement afterwards
    let mut n_moves = n_moves;
    if !img.labels.is_empty() && rng.chance(1, 3) {
        for _ in 0..1 + rng.below(2) {
            let (name, _) = &img.labels[rng.below(img.labels.len() as u64) as usize];
            lines.push(format!("{} {}{} {}", rng.s(&["eval", "e"]), name, rng.s(&["", ":"]), rng.s(&["add r0, r0, #0", "not r1 r1", "and r2 r2 r2"])));
            n_moves += 1;
        }
        out.class("eval_of_a_line_with_its_label_in_front");
    }
    for q in &qs {
        lines.push(match q {
            Q::Asm(a) => format!("{} {}", rng.s(&["assembly", "a", "asm"]), match rng.below(3) { 0 => format!("x{:04x}", a), 1 => format!("{}", a), _ => format!("0x{:X}", a) }),
            Q::Goto(token, _, _) => format!("{} {}", rng.s(&["goto", "g"]), token),
            Q::Print(token, _, _) => format!("{} {}", rng.s(&["print", "p"]), token),
            Q::Move(token, _, _, vt, _) => format!("{} {} {}", rng.s(&["move", "m"]), token, vt),
        });
    }
    let n_regular = lines.len();
    for l in &refused_lines {
        lines.push(l.clone());
    }
    lines.push("break list".into());
    lines.push("exit".into());
    let script = lines.join("\n");
    let sess = match run_session(&session_text, stack, &script, &[], 10_000, false) {
        Ok(s) => s,
        Err(_) if with_bom => {
            // refused with the mark in front: nothing to look at (whether it should be is C04's and C07's business)
            out.class("source_with_byte_order_mark_refused");
            out.evals = 0;
            return out;
        }
        Err(o) => {
            out.inconclusive = Some(format!("not assembled ({})", o.class()));
            return out;
        }
    };
    if with_bom {
        out.class("source_with_byte_order_mark_assembled");
    }
    let detail = |line: usize, note: String| {
        J::obj(vec![
            ("source", J::s(text)),
            ("command", J::s(lines.get(line).cloned().unwrap_or_default())),
            ("origin", J::s(format!("x{:04X}", orig))),
            ("stack_feature", J::B(stack)),
            ("note", J::s(note)),
        ])
    };
    if let Err(a) = &sess.obs.end {
        let line = sess.obs.commands.len().saturating_sub(1);
        let key = match a {
            Abort::Panic { .. } => format!("C17/panic/{}", a.panic_file()),
            o => format!("C17/session-ended/{}", o.short()),
        };
        out.violate(key, i, format!("`{}`: {}", lines.get(line).cloned().unwrap_or_default(), a.short()), detail(line, String::new()));
        return out;
    }
    out.evals = qs.len() as u64;
    let dbg = &sess.obs.out_debugger;
    let mut prev_item: Option<usize> = None;
    for (qi, q) in qs.iter().enumerate() {
        let li = qi + n_moves;
        let (Some(before), Some(after)) = (
            sess.snaps.iter().find(|s| s.commands_read == li),
            sess.snaps.iter().find(|s| s.commands_read == li + 1),
        ) else {
            out.violate("C17/no-prompt", i, format!("no prompt after `{}`", lines[li]), detail(li, String::new()));
            return out;
        };
        let printed = &dbg[before.dbg_len..after.dbg_len];
        match q {
            Q::Asm(a) => {
                let k = *a as i32 - orig as i32;
                let expect: String = if k >= 0 && k < n {
                    let item = img.item_of_word[k as usize];
                    let (s, l) = rendered.stmt_spans[item].expect("statement span");
                    // classes
                    if let Item::Stmt { stmt, .. } = &p.items[item] {
                        match stmt {
                            Stmt::Stringz(_) if k as usize > 0 && img.item_of_word[k as usize - 1] == item => out.class("stmt:stringz_inner_word"),
                            Stmt::Blkw(_) if k as usize > 0 && img.item_of_word[k as usize - 1] == item => out.class("stmt:blkw_inner_word"),
                            Stmt::Fill(_) => out.class("stmt:fill"),
                            Stmt::Ret | Stmt::Rti | Stmt::Rets | Stmt::Alias(_) => {
                                if let Some(pi) = item.checked_sub(1).and_then(|pi| (0..=pi).rev().find(|x| matches!(p.items[*x], Item::Stmt { .. }))) {
                                    if let Item::Stmt { stmt: ps, .. } = &p.items[pi] {
                                        if !matches!(ps, Stmt::Ret | Stmt::Rti | Stmt::Rets | Stmt::Alias(_) | Stmt::Fill(_) | Stmt::Blkw(_) | Stmt::Stringz(_)) {
                                            out.class("stmt:operandless_after_operandful");
                                        }
                                    }
                                }
                            }
                            _ => out.class("stmt:instruction_with_operands"),
                        }
                    }
                    prev_item = Some(item);
                    if text[s..s + l].contains('\n') {
                        out.class("stmt:continued_on_the_next_line");
                    }
                    format!("{}\n", &text[s..s + l])
                } else {
                    out.class(if k < 0 { "addr:below_origin" } else { "addr:beyond_image" });
                    "\n".to_string()
                };
                // line terminator of the debugger's own output is not part of the property
                if printed.trim_end_matches('\n') != expect.trim_end_matches('\n') {
                    out.violate(
                        if k >= 0 && k < n { "C17/assembly-text" } else { "C17/assembly-text-for-non-statement" },
                        i,
                        format!("`{}` printed {:?}, the statement text is {:?}", lines[li], printed, expect),
                        detail(li, String::new()),
                    );
                    return out;
                }
            }
            Q::Goto(_, addr, k) => {
                let target = *addr as i32 + k;
                let want = if target >= orig as i32 && target < 0xFE00 { target as u16 } else { before.pc };
                if after.pc != want {
                    out.violate(
                        "C17/label-address",
                        i,
                        format!("after `{}` PC is x{:04X}; the label's statement is at x{:04X}, so x{:04X} was expected", lines[li], after.pc, addr, want),
                        detail(li, String::new()),
                    );
                    return out;
                }
                out.class(if *k == 0 { "label:goto" } else { "label:goto_offset" });
            }
            Q::Move(_, addr, k, _, v) => {
                let t = *addr as i32 + k;
                if t >= orig as i32 && t < 0xFE00 {
                    let target = t as u16;
                    let w = after.mem_diff.iter().find(|(a, _)| *a == target).map(|(_, w)| *w).unwrap_or(sess.init_mem[target as usize]);
                    if w != *v {
                        out.violate(
                            "C17/label-move",
                            i,
                            format!("after `{}` the word at x{:04X} (the label's statement at x{:04X}, offset {}) holds x{:04X}, not x{:04X}", lines[li], target, addr, k, w, v),
                            detail(li, String::new()),
                        );
                        return out;
                    }
                    out.class("label:move_signed_value");
                }
            }
            Q::Print(_, addr, k) => {
                let target = (*addr as i32 + k) as u16;
                // `print` allows any address that the location arithmetic accepts; when refused nothing is printed
                let in_user = (*addr as i32 + k) >= orig as i32 && (*addr as i32 + k) < 0xFE00;
                if in_user {
                    let w = after.mem_diff.iter().find(|(a, _)| *a == target).map(|(_, w)| *w).unwrap_or(sess.init_mem[target as usize]);
                    let expect = format!("x{:04x}\n", w);
                    if printed != expect {
                        out.violate(
                            "C17/label-print",
                            i,
                            format!("`{}` printed {:?}, memory at x{:04X} holds {:?}", lines[li], printed, target, expect),
                            detail(li, String::new()),
                        );
                        return out;
                    }
                    out.class("label:print");
                }
            }
        }
    }
    let _ = prev_item;
    if !refused_lines.is_empty() {
        // the prompt before the first refused line and the one after the last: same PC, same breakpoints, same memory
        let before = sess.snaps.iter().filter(|s| s.commands_read <= n_regular).last();
        let after = sess.snaps.iter().find(|s| s.commands_read > n_regular + refused_lines.len() - 1);
        if let (Some(b), Some(a)) = (before, after) {
            out.class("label_offset_beyond_16_bits_refused");
            if a.pc != b.pc || a.bps != b.bps || a.mem_diff != b.mem_diff {
                out.violate(
                    "C17/label-offset-beyond-16-bits",
                    i,
                    format!("after {:?} the PC is x{:04X} (was x{:04X}), breakpoints {:04X?} (were {:04X?}): an offset no 16-bit field holds names no location", refused_lines, a.pc, b.pc, a.bps, b.bps),
                    detail(n_regular, String::new()),
                );
                return out;
            }
        }
    }
    // ---- the breakpoint table. Only the decorated output mode has one (the minimal mode lists
    // addresses): a second session with breakpoints on a sample of addresses, then `break list`.
    if !cfg!(miri) {
        let mut addrs: Vec<u16> = Vec::new();
        for _ in 0..(3 + rng.below(8)) {
            addrs.push(orig.wrapping_add(rng.below(n as u64 + 2) as u16));
        }
        // every word of one multi-word directive, when there is one
        if let Some(k) = (1..n as usize).find(|k| img.item_of_word[*k] == img.item_of_word[*k - 1]) {
            addrs.push(orig + k as u16);
            addrs.push(orig + k as u16 - 1);
        }
        addrs.retain(|a| *a >= orig && *a < 0xFE00);
        let mut bl: Vec<String> = addrs.iter().map(|a| format!("break add x{:04x}", a)).collect();
        let n_adds = bl.len();
        bl.push("break list".into());
        bl.push("exit".into());
        // (a fresh thread: lace's feature flags can be initialised once per thread)
        let script2 = bl.join("\n");
        let s2 = std::thread::scope(|sc| {
            std::thread::Builder::new()
                .stack_size(8 << 20)
                .spawn_scoped(sc, || {
                    crate::exec::case_minimal(false);
                    run_session(text, stack, &script2, &[], 10_000, false)
                })
                .expect("spawn")
                .join()
        });
        let Ok(s2) = s2 else {
            out.inconclusive = Some("breakpoint table session: harness thread panicked".into());
            return out;
        };
        let bdetail = |note: String| {
            J::obj(vec![
                ("source", J::s(text)),
                ("script", J::A(bl.iter().map(J::s).collect())),
                ("origin", J::s(format!("x{:04X}", orig))),
                ("stack_feature", J::B(stack)),
                ("note", J::s(note)),
            ])
        };
        if let Ok(s2) = s2 {
            if let Err(a) = &s2.obs.end {
                let key = match a {
                    Abort::Panic { .. } => format!("C17/panic/{}", a.panic_file()),
                    o => format!("C17/session-ended/{}", o.short()),
                };
                out.violate(key, i, format!("breakpoint table session: {}", a.short()), bdetail(String::new()));
                return out;
            }
            let (Some(b), Some(a)) = (
                s2.snaps.iter().find(|s| s.commands_read == n_adds),
                s2.snaps.iter().find(|s| s.commands_read == n_adds + 1),
            ) else {
                out.violate("C17/no-prompt", i, "no prompt after `break list`", bdetail(String::new()));
                return out;
            };
            let table = strip_ansi(&s2.obs.out_debugger[b.dbg_len..a.dbg_len]);
            let rows = parse_table(&table);
            // a continued statement in the table tears its rows apart: nothing to compare row by row then
            let any_continued = a.bps.iter().any(|x| {
                let k = x.0 as i32 - orig as i32;
                k >= 0 && k < n && {
                    let (s, l) = rendered.stmt_spans[img.item_of_word[k as usize]].expect("statement span");
                    text[s..s + l].contains('\n')
                }
            });
            if any_continued {
                out.class("break_table_with_a_continued_statement_not_compared");
            }
            let mut expected: Vec<u16> = a.bps.iter().map(|x| x.0).collect();
            expected.sort();
            expected.dedup();
            for addr in expected.iter().filter(|_| !any_continued) {
                let Some((_, label_cell, text_cell, label_cap, text_cap)) = rows.iter().find(|r| r.0 == *addr) else {
                    out.violate(
                        "C17/break-table-row-missing",
                        i,
                        format!("breakpoint x{:04X} is set but the table has no row for it", addr),
                        bdetail(table.clone()),
                    );
                    return out;
                };
                let k = *addr as i32 - orig as i32;
                let want_text: String = if k >= 0 && k < n {
                    let item = img.item_of_word[k as usize];
                    let (s, l) = rendered.stmt_spans[item].expect("statement span");
                    text[s..s + l].to_string()
                } else {
                    String::new()
                };
                if want_text.contains('\n') {
                    // a statement continued on a second line: the table has one line per row (what it makes
                    // of such a cell is not compared; minimal `assembly` above shows the full text)
                    out.class("break_table_row_of_a_continued_statement");
                    continue;
                }
                if !cell_shows(text_cell, &want_text, *text_cap) {
                    out.violate(
                        "C17/break-table-text",
                        i,
                        format!("breakpoint table shows {:?} for x{:04X}, the statement text is {:?} (cell capacity {})", text_cell, addr, want_text, text_cap),
                        bdetail(table.clone()),
                    );
                    return out;
                }
                let names: Vec<&String> = img.labels.iter().filter(|(_, idx)| *idx as i32 == k).map(|(nm, _)| nm).collect();
                let label_ok = if names.is_empty() { label_cell.is_empty() } else { names.iter().any(|nm| cell_shows(label_cell, nm, *label_cap)) };
                if !label_ok {
                    out.violate(
                        "C17/break-table-label",
                        i,
                        format!("breakpoint table shows label {:?} for x{:04X}, the labels of that statement are {:?}", label_cell, addr, names),
                        bdetail(table.clone()),
                    );
                    return out;
                }
                out.evals += 1;
                out.class("break_table_row");
                if want_text.chars().count() >= *text_cap {
                    out.class("break_table_row_truncated");
                }
                if !want_text.is_ascii() {
                    out.class("break_table_row_multibyte");
                }
                if want_text.is_empty() {
                    out.class("break_table_row_without_statement");
                }
            }
        }
    }
    // layout classes
    if text.contains(":\n") || text.contains(":\r") || text.contains(": ") {
        out.class("label_colon");
    }
    for (name, _) in &img.labels {
        if text.contains(&format!("{}\n", name)) || text.contains(&format!("{}:\n", name)) {
            out.class("label_own_line");
        }
    }
    if !text.is_ascii() {
        out.class("multibyte_in_source");
    }
    out.class(match img.orig {
        None | Some(0x3000) => "origin:default",
        Some(v) if v >= 0x8000 => "origin:ge8000",
        _ => "origin:other",
    });
    if (orig as i32) < 0x8000 && orig as i32 + n > 0x8000 {
        out.class("image_straddles_8000");
    }
    if p.items.iter().skip(1).any(|it| matches!(it, Item::Break | Item::Orig(_))) {
        out.class("break_or_orig_interleaved");
    }
    out.nontrivial = Some(hash_bytes(text.as_bytes()));
    if i % 97 == 0 {
        out.sample = Some(J::obj(vec![
            ("source", J::s(text)),
            ("script_head", J::A(lines.iter().take(10).map(J::s).collect())),
            ("queries", J::I(qs.len() as i64)),
        ]));
    }
    out
}


fn strip_ansi(s: &str) -> String {
    let mut out = String::new();
    let mut it = s.chars().peekable();
    while let Some(c) = it.next() {
        if c == '\u{1b}' && it.peek() == Some(&'[') {
            it.next();
            for d in it.by_ref() {
                if d.is_ascii_alphabetic() {
                    break;
                }
            }
        } else {
            out.push(c);
        }
    }
    out
}

/// Rows of the decorated breakpoint table: (address, label cell, text cell, label capacity, text capacity).
/// Capacities come from the table's own top border (columns between the corners, minus the padding).
fn parse_table(t: &str) -> Vec<(u16, String, String, usize, usize)> {
    let mut caps = (13usize, 27usize);
    let mut rows = Vec::new();
    for line in t.lines() {
        if let Some(rest) = line.strip_prefix('\u{250c}') {
            let segs: Vec<usize> = rest.trim_end_matches('\u{2510}').split('\u{252c}').map(|s| s.chars().count()).collect();
            if segs.len() == 3 {
                caps = (segs[1].saturating_sub(1), segs[2].saturating_sub(1));
            }
        }
        if let Some(rest) = line.strip_prefix("\u{2502} 0x") {
            let cells: Vec<&str> = rest.split('\u{2502}').collect();
            if cells.len() >= 3 {
                if let Ok(addr) = u16::from_str_radix(cells[0].trim(), 16) {
                    let cell = |c: &str| c.strip_prefix(' ').unwrap_or(c).trim_end_matches(' ').to_string();
                    rows.push((addr, cell(cells[1]), cell(cells[2]), caps.0, caps.1));
                }
            }
        }
    }
    rows
}

/// The cell shows `want` exactly; only a text that does not fit in fewer columns than the cell has
/// may be cut, and then the cell is a prefix of it followed by an ellipsis.
fn cell_shows(cell: &str, want: &str, cap: usize) -> bool {
    let want_trim = want.trim_end_matches(' ');
    if cell == want_trim {
        return true;
    }
    if want.chars().count() < cap {
        return false;
    }
    match cell.strip_suffix('\u{2026}') {
        Some(prefix) => want.starts_with(prefix) && prefix.chars().count() + 1 <= cap && prefix.chars().count() + 3 >= cap,
        None => false,
    }
}
