//! C04 — the assembler accepts exactly the programs whose operands fit.
//!
//! Monitor: boundary-value programs -> reference acceptance predicate vs the real assembler's
//! accept / reject / crash; accepted programs must also carry the exact ISA image (no silent
//! truncation, wrap or spill).

use crate::c01::geometry_program;
use crate::exec::{assemble_fresh, AsmOutcome};
use crate::refasm::*;
use crate::util::{hash_bytes, CaseOut, Collector, Rng, J};
use crate::Cfg;

const FIELD_KINDS: &[&str] = &[
    "imm5", "off6", "pc9", "pc11", "trap8", "orig16", "fill16", "lab9", "lab10", "lab11",
];

pub fn floors() -> Vec<String> {
    let mut v = Vec::new();
    for k in FIELD_KINDS {
        for b in ["acc_min", "acc_max", "rej_lo", "rej_hi"] {
            if (*k == "trap8" || *k == "orig16") && b == "rej_lo" {
                // negative trap vectors are rejected; negative origins are unspecified
                if *k == "orig16" {
                    continue;
                }
            }
            v.push(format!("{}:{}", b, k));
        }
    }
    for extra in [
        "undefined_label",
        "duplicate_label",
        "case_differing_labels_ok",
        "case_differing_reference_rejected",
        "orig_twice",
        "spelling:dec",
        "spelling:hex",
        "spelling:neghex",
        "accepted",
        "rejected",
        "field:literal_offset_on_far_line",
        "duplicate_label_across_break",
        "duplicate_label_across_orig",
        "label_before_break_ok",
        "bare_number_where_a_literal_belongs",
        "branch_spellings",
        "undefined_label_sharing_long_prefix",
        "long_labels_sharing_prefix_ok",
    ] {
        v.push(extra.to_string());
    }
    v
}

struct Built {
    program: Program,
    tags: Vec<String>,
    lit: LitStyle,
}

fn boundary_values(lo: i32, hi: i32) -> Vec<(i32, Option<&'static str>)> {
    // (value, boundary tag)
    vec![
        (lo - 1, Some("rej_lo")),
        (lo, Some("acc_min")),
        (lo + 1, None),
        (-1, None),
        (0, None),
        (1, None),
        (hi - 1, None),
        (hi, Some("acc_max")),
        (hi + 1, Some("rej_hi")),
        (-32768, None),
        (32767, None),
        (32768, None),
        (65535, None),
        (65536, None),
        (-32769, None),
        (0x7F, None),
        (0x80, None),
        (0xFF, None),
        (0x100, None),
        (0x7FFF, None),
        (0x8000, None),
    ]
}

fn with_stmt(stmt: Stmt, rng: &mut Rng) -> Program {
    let mut items = Vec::new();
    let n_before = rng.below(3);
    for _ in 0..n_before {
        items.push(Item::Stmt {
            label: None,
            stmt: Stmt::AndI(0, 0, 0),
        });
    }
    items.push(Item::Stmt { label: None, stmt });
    for _ in 0..rng.below(3) {
        items.push(Item::Stmt {
            label: None,
            stmt: Stmt::Alias(0x25),
        });
    }
    Program { items }
}

/// The deterministic boundary matrix.
fn matrix() -> Vec<(String, i32, Option<&'static str>, usize)> {
    // (field kind, value, boundary tag, form index within kind)
    let mut v = Vec::new();
    let kinds: &[(&str, i32, i32, usize)] = &[
        ("imm5", -16, 15, 2),
        ("off6", -32, 31, 2),
        ("pc9", -256, 255, 6),
        ("pc11", -1024, 1023, 1),
        ("trap8", 0, 255, 1),
        ("orig16", 0, 65535, 1),
        ("fill16", -32768, 65535, 1),
    ];
    for (kind, lo, hi, forms) in kinds {
        for (val, tag) in boundary_values(*lo, *hi) {
            for f in 0..*forms {
                v.push((kind.to_string(), val, tag, f));
            }
        }
    }
    v
}

fn build_field(kind: &str, val: i32, form: usize, rng: &mut Rng) -> Program {
    let r = |rng: &mut Rng| rng.below(8) as u8;
    match kind {
        "imm5" => with_stmt(
            if form == 0 {
                Stmt::AddI(r(rng), r(rng), val)
            } else {
                Stmt::AndI(r(rng), r(rng), val)
            },
            rng,
        ),
        "off6" => with_stmt(
            if form == 0 {
                Stmt::Ldr(r(rng), r(rng), val)
            } else {
                Stmt::Str(r(rng), r(rng), val)
            },
            rng,
        ),
        "pc9" => {
            let t = Target::Lit(val);
            with_stmt(
                match form {
                    0 => Stmt::Br(1 + rng.below(7) as u8, t),
                    1 => Stmt::Ld(r(rng), t),
                    2 => Stmt::Ldi(r(rng), t),
                    3 => Stmt::Lea(r(rng), t),
                    4 => Stmt::St(r(rng), t),
                    _ => Stmt::Sti(r(rng), t),
                },
                rng,
            )
        }
        "pc11" => with_stmt(Stmt::Jsr(Target::Lit(val)), rng),
        "trap8" => with_stmt(Stmt::Trap(val), rng),
        "fill16" => with_stmt(Stmt::Fill(val), rng),
        "orig16" => {
            let mut p = with_stmt(Stmt::Alias(0x25), rng);
            let at = if rng.chance(2, 3) { 0 } else { rng.below(p.items.len() as u64 + 1) as usize };
            p.items.insert(at, Item::Orig(val));
            p
        }
        _ => unreachable!(),
    }
}

fn label_cases() -> Vec<(usize, i32, Option<&'static str>, &'static str)> {
    // (geometry form, distance, tag, field kind)
    let mut v = Vec::new();
    for (form, bits, kind) in [
        (0usize, 9u32, "lab9"),
        (1, 9, "lab9"),
        (2, 9, "lab9"),
        (3, 9, "lab9"),
        (4, 9, "lab9"),
        (5, 9, "lab9"),
        (6, 11, "lab11"),
        (7, 10, "lab10"),
    ] {
        let half = 1i32 << (bits - 1);
        for (d, tag) in [
            (-half - 2, None),
            (-half - 1, Some("rej_lo")),
            (-half, Some("acc_min")),
            (-half + 1, None),
            (half - 2, None),
            (half - 1, Some("acc_max")),
            (half, Some("rej_hi")),
            (half + 1, None),
        ] {
            v.push((form, d, tag, kind));
        }
        // distances at which 16-bit line arithmetic itself wraps
        for d in [-0x8001, -0x8000, -0x7FFF, 0x7FFE, 0x7FFF, 0x8000, 0xFFFD] {
            v.push((form, d, None, kind));
        }
    }
    v
}

fn symbol_cases(i: usize, rng: &mut Rng) -> (Program, &'static str) {
    let st = |label: Option<&str>, stmt: Stmt| Item::Stmt {
        label: label.map(|s| s.to_string()),
        stmt,
    };
    let refstmt = |name: &str, rng: &mut Rng| -> Stmt {
        let t = Target::Label(name.to_string());
        match rng.below(8) {
            0 => Stmt::Br(7, t),
            1 => Stmt::Ld(1, t),
            2 => Stmt::Ldi(2, t),
            3 => Stmt::Lea(3, t),
            4 => Stmt::St(4, t),
            5 => Stmt::Sti(5, t),
            6 => Stmt::Jsr(t),
            _ => Stmt::Call(name.to_string()),
        }
    };
    // labels longer than any "significant characters" limit of other assemblers, sharing a long prefix
    let long_a = format!("counter_of_processed_{}bytes", "x".repeat(rng.below(3) as usize * 8));
    let long_b = format!("counter_of_processed_{}items", "x".repeat((long_a.len() - 26) as usize));
    match i % 7 {
        5 => (
            Program {
                items: vec![
                    st(Some(&long_a), Stmt::AddR(0, 0, 0)),
                    st(None, refstmt(&long_b, rng)),
                    st(None, Stmt::Alias(0x25)),
                ],
            },
            "undefined_label_sharing_long_prefix",
        ),
        6 => (
            Program {
                items: vec![
                    st(Some(&long_a), Stmt::AddR(0, 0, 0)),
                    st(None, refstmt(&long_b, rng)),
                    st(Some(&long_b), Stmt::Alias(0x25)),
                    st(None, refstmt(&long_a, rng)),
                ],
            },
            "long_labels_sharing_prefix_ok",
        ),
        0 => (
            Program {
                items: vec![
                    st(Some("here"), Stmt::AddR(0, 0, 0)),
                    st(None, refstmt("nowhere", rng)),
                    st(None, Stmt::Alias(0x25)),
                ],
            },
            "undefined_label",
        ),
        1 => (
            Program {
                items: vec![
                    st(Some("dup"), Stmt::AddR(0, 0, 0)),
                    st(None, refstmt("dup", rng)),
                    st(Some("dup"), Stmt::Alias(0x25)),
                ],
            },
            "duplicate_label",
        ),
        2 => (
            Program {
                items: vec![
                    st(Some("loop"), Stmt::AddR(0, 0, 0)),
                    st(Some("Loop"), Stmt::AddR(1, 1, 1)),
                    st(None, refstmt("LOOP", rng)),
                    st(Some("LOOP"), Stmt::Alias(0x25)),
                    st(None, refstmt("loop", rng)),
                    st(None, refstmt("Loop", rng)),
                ],
            },
            "case_differing_labels_ok",
        ),
        3 => (
            Program {
                items: vec![
                    st(Some("loop"), Stmt::AddR(0, 0, 0)),
                    st(None, refstmt("LOOP", rng)),
                    st(None, Stmt::Alias(0x25)),
                ],
            },
            "case_differing_reference_rejected",
        ),
        _ => {
            let mut items = vec![
                Item::Orig(gen_origin(rng)),
                st(None, Stmt::AddR(0, 0, 0)),
                st(None, Stmt::Alias(0x25)),
            ];
            let at = 1 + rng.below(3) as usize;
            items.insert(at, Item::Orig(if rng.bool() { 0x3000 } else { gen_origin(rng) }));
            (Program { items }, "orig_twice")
        }
    }
}

/// A valid random program with one operand pushed out of range at a random position.
fn injected(rng: &mut Rng) -> Built {
    let o = GenOpts {
        stack: rng.bool(),
        max_stmts: 25,
        min_stmts: 3,
        ..Default::default()
    };
    let mut p = gen_program(rng, &o);
    let idxs: Vec<usize> = p
        .items
        .iter()
        .enumerate()
        .filter(|(_, i)| matches!(i, Item::Stmt { .. }))
        .map(|(i, _)| i)
        .collect();
    let mut tags = vec!["injected".to_string()];
    for _ in 0..20 {
        let at = *rng.pick(&idxs);
        let Item::Stmt { stmt, .. } = &mut p.items[at] else {
            continue;
        };
        let beyond = |lo: i32, hi: i32, rng: &mut Rng| -> i32 {
            match rng.below(6) {
                0 => lo - 1,
                1 => hi + 1,
                2 => lo - 1 - rng.below(1000) as i32,
                3 => hi + 1 + rng.below(1000) as i32,
                4 => *rng.pick(&[32767, -32768, 0x100, 0x1000, -0x100]),
                _ => hi + 1 + rng.below(30000) as i32,
            }
        };
        let ok = match stmt {
            Stmt::AddI(_, _, v) | Stmt::AndI(_, _, v) => {
                *v = beyond(-16, 15, rng);
                true
            }
            Stmt::Ldr(_, _, v) | Stmt::Str(_, _, v) => {
                *v = beyond(-32, 31, rng);
                true
            }
            Stmt::Trap(v) => {
                *v = beyond(0, 255, rng);
                true
            }
            Stmt::Br(_, t) | Stmt::Ld(_, t) | Stmt::Ldi(_, t) | Stmt::Lea(_, t) | Stmt::St(_, t) | Stmt::Sti(_, t) => {
                *t = Target::Lit(beyond(-256, 255, rng));
                true
            }
            Stmt::Jsr(t) => {
                *t = Target::Lit(beyond(-1024, 1023, rng));
                true
            }
            _ => false,
        };
        if ok {
            tags.push(format!("injected_into:{}", stmt.form()));
            break;
        }
    }
    Built {
        program: p,
        tags,
        lit: LitStyle::Any,
    }
}

/// Valid literal offsets on statements placed around line 0x7FFF / 0xFFFF (the line arithmetic's
/// own boundaries): must be accepted with exactly the written offset in the field.
fn far_line_cases() -> Vec<(i32, usize, i32)> {
    let mut v = Vec::new();
    for pad in [0x7FFCi32, 0x7FFD, 0x7FFE, 0x7FFF, 0x8000, 0xFFFB, 0xFFFC, 0xFFFD] {
        for (form, off) in [(0usize, 0i32), (0, 1), (0, -1), (0, 255), (0, -256), (1, 3), (6, 1023), (6, -1024), (3, -2)] {
            v.push((pad, form, off));
        }
    }
    v
}

fn far_line_program(pad: i32, form: usize, off: i32, rng: &mut Rng) -> Program {
    let t = Target::Lit(off);
    let stmt = match form {
        0 => Stmt::Br(1 + rng.below(7) as u8, t),
        1 => Stmt::Ld(rng.below(8) as u8, t),
        3 => Stmt::Lea(rng.below(8) as u8, t),
        _ => Stmt::Jsr(t),
    };
    Program {
        items: vec![
            Item::Stmt { label: None, stmt: Stmt::Blkw(pad) },
            Item::Stmt { label: None, stmt },
            Item::Stmt { label: None, stmt: Stmt::Alias(0x25) },
        ],
    }
}

pub fn run(cfg: &Cfg, col: &mut Collector) {
    let mat = matrix();
    let labs = label_cases();
    let styles = [LitStyle::Dec, LitStyle::HexLower, LitStyle::Hex0x, LitStyle::HexUpper];
    let n_mat = (mat.len() * styles.len()) as u64;
    let positions = 3u64; // label geometry repeated with different prefixes/padding
    let n_lab = labs.len() as u64 * positions;
    let n_sym = cfg.n(60, 400, 5);
    let n_inj = cfg.n(3000, 100_000, 10);
    let (n_mat, n_lab) = if cfg.miri { (40, 8) } else { (n_mat, n_lab) };
    let far = far_line_cases();
    let n_far = if cfg.miri { 0 } else { far.len() as u64 };
    let far = &far;
    let n_rawsym = RAW_SYMBOL_CASES.len() as u64 * 2;
    let total = n_mat + n_lab + n_sym + n_inj + n_far + n_rawsym;
    let seed = cfg.seed;
    let (mat, labs) = (&mat, &labs);
    crate::util::run_cases_plain(total, cfg.only_case, cfg.threads, col, move |i| {
        let mut rng = Rng::for_case(seed, "C04", i);
        let built = if i < n_mat {
            let (kind, val, tag, form) = &mat[(i as usize / styles.len()) % mat.len()];
            let style = styles[i as usize % styles.len()];
            let mut tags = vec![format!("field:{}", kind)];
            if let Some(t) = tag {
                tags.push(format!("{}:{}", t, kind));
            }
            tags.push(
                match style {
                    LitStyle::Dec => "spelling:dec",
                    _ if *val < 0 => "spelling:neghex",
                    _ => "spelling:hex",
                }
                .to_string(),
            );
            Built {
                program: build_field(kind, *val, *form, &mut rng),
                tags,
                lit: style,
            }
        } else if i < n_mat + n_lab {
            let (form, d, tag, kind) = labs[((i - n_mat) as usize) % labs.len()];
            let mut tags = vec![format!("field:{}", kind)];
            if let Some(t) = tag {
                tags.push(format!("{}:{}", t, kind));
            }
            Built {
                program: geometry_program(form, d, &mut rng),
                tags,
                lit: LitStyle::Any,
            }
        } else if i < n_mat + n_lab + n_sym {
            let (program, tag) = symbol_cases((i - n_mat - n_lab) as usize, &mut rng);
            Built {
                program,
                tags: vec![tag.to_string()],
                lit: LitStyle::Any,
            }
        } else if i < n_mat + n_lab + n_sym + n_inj {
            injected(&mut rng)
        } else if i >= n_mat + n_lab + n_sym + n_inj + n_far {
            return raw_symbol_case((i - n_mat - n_lab - n_sym - n_inj - n_far) as usize, i);
        } else {
            let (pad, form, off) = far[(i - n_mat - n_lab - n_sym - n_inj) as usize];
            Built {
                program: far_line_program(pad, form, off, &mut rng),
                tags: vec!["field:literal_offset_on_far_line".to_string()],
                lit: LitStyle::Any,
            }
        };
        one_case(built, &mut rng, i)
    });
    col.extra.push((
        "plan".into(),
        J::obj(vec![
            ("boundary_matrix_cases", J::I(n_mat as i64)),
            ("label_distance_cases", J::I(n_lab as i64)),
            ("symbol_cases", J::I(n_sym as i64)),
            ("random_programs_with_injected_operand", J::I(n_inj as i64)),
        ]),
    ));
}

/// Sources the abstract program model cannot express (a label line followed by a directive that
/// emits no word, then the same label again), with the verdict the property gives them.
const RAW_SYMBOL_CASES: &[(&str, bool, &str)] = &[
    ("loop .break\nloop add r0 r0 #1\nhalt\n", false, "duplicate_label_across_break"),
    ("loop\n.break\nloop add r0 r0 #1\nbr loop\nhalt\n", false, "duplicate_label_across_break"),
    ("main .orig x3000\nmain lea r0 main\nhalt\n", false, "duplicate_label_across_orig"),
    ("a1 add r0 r0 #1\na1 .break\nhalt\n", false, "duplicate_label_across_break"),
    ("lp .break\nadd r0 r0 #1\nbr lp\nhalt\n", true, "label_before_break_ok"),
    ("Lp add r0 r0 #1\nlp .break\nadd r1 r1 #1\nbr Lp\nbr lp\n", true, "label_before_break_ok"),
    // a number without `#` or `x` is a label: no operand of a literal-only position, whether its value would fit or not
    ("ldr r0 r1 5\nhalt\n", false, "bare_number_where_a_literal_belongs"),
    ("ldr r0 r1 64\nhalt\n", false, "bare_number_where_a_literal_belongs"),
    ("str r0 r1 32\n", false, "bare_number_where_a_literal_belongs"),
    ("trap 37\n", false, "bare_number_where_a_literal_belongs"),
    ("trap 293\n", false, "bare_number_where_a_literal_belongs"),
    (".orig 12288\nhalt\n", false, "bare_number_where_a_literal_belongs"),
    (".blkw 3\nhalt\n", false, "bare_number_where_a_literal_belongs"),
    (".fill 5\n", false, "bare_number_where_a_literal_belongs"),
    ("add r0 r0 5\n", false, "bare_number_where_a_literal_belongs"),
    ("and r1 r1 0\n", false, "bare_number_where_a_literal_belongs"),
    ("br 1\nhalt\n", false, "bare_number_where_a_literal_belongs"),
    ("jsr 3\nhalt\n", false, "bare_number_where_a_literal_belongs"),
    ("ldr r0 r1 00\n", false, "bare_number_where_a_literal_belongs"),
    ("1 halt\nbr 1\n", true, "digits_are_a_label"),
    // every spelling of the unconditional branch and of the other seven, in any letter case
    ("t brnzp t\nBRNZP t\nBrNzP #-1\nbr t\nBR #0\n", true, "branch_spellings"),
    ("t brn t\nbrz t\nbrp t\nbrnz t\nbrnp t\nbrzp t\nBRZP t\nBRNP #1\nhalt\n", true, "branch_spellings"),
    ("t rti\nRTI\nrets_ ret\nRET\nbr rets_\n", true, "operandless_mnemonics"),
];

fn raw_symbol_case(i: usize, case: u64) -> CaseOut {
    let mut out = CaseOut::new();
    let (text, accept, tag) = RAW_SYMBOL_CASES[i % RAW_SYMBOL_CASES.len()];
    let outcome = std::thread::scope(|s| {
        std::thread::Builder::new().stack_size(4 << 20).spawn_scoped(s, || assemble_fresh(text, i % 2 == 0)).unwrap().join()
    });
    let Ok(outcome) = outcome else {
        out.inconclusive = Some("assembler thread could not be joined".into());
        return out;
    };
    out.nontrivial = Some(hash_bytes(text.as_bytes()));
    let detail = J::obj(vec![("source", J::s(text)), ("observed", J::s(outcome.class())), ("expected", J::s(if accept { "accept" } else { "reject" }))]);
    match (&outcome, accept) {
        (AsmOutcome::Ok(_), false) => out.violate(format!("C04/accepted-out-of-range/{}", tag), case, format!("a source that is to be rejected ({}) is accepted", tag.replace('_', " ")), detail),
        (AsmOutcome::Rejected(d), true) => out.violate(format!("C04/rejected-valid/{}", tag), case, format!("rejected a valid program: {}", d.message), detail),
        (AsmOutcome::Crashed { abort, .. }, _) => out.violate(format!("C04/crash/{}/{}", tag, abort.panic_file()), case, abort.short(), detail),
        _ => {
            out.class(tag);
            out.class(outcome.class());
        }
    }
    out
}

fn one_case(b: Built, rng: &mut Rng, case: u64) -> CaseOut {
    let mut out = CaseOut::new();
    let verdict = encode(&b.program);
    let mut lay = if rng.chance(1, 3) {
        Layout::canonical()
    } else {
        Layout::random(rng)
    };
    lay.lit = b.lit;
    let rendered = render(&b.program, &lay, rng);
    let stack = uses_stack_ext(&b.program) || rng.chance(1, 5);
    let text = rendered.text.clone();
    let outcome = std::thread::scope(|s| {
        std::thread::Builder::new()
            .stack_size(4 << 20)
            .spawn_scoped(s, || assemble_fresh(&text, stack))
            .unwrap()
            .join()
    });
    let Ok(outcome) = outcome else {
        out.inconclusive = Some("assembler thread could not be joined".into());
        return out;
    };
    out.nontrivial = Some(hash_bytes(format!("{:?}{:?}", b.program, b.lit).as_bytes()));
    let expect = match &verdict {
        Verdict::Accept(_) => "accept",
        Verdict::Either(_) => "either",
        Verdict::Reject(_) => "reject",
    };
    let detail = |why: &str| {
        J::obj(vec![
            ("source", J::s(&rendered.text)),
            ("stack_feature", J::B(stack)),
            ("reference_verdict", J::s(expect)),
            ("reference_reason", J::s(why)),
            (
                "observed",
                J::s(match &outcome {
                    AsmOutcome::Ok(img) => format!("accepted, image {:04X?}", &img.raw()[..img.raw().len().min(12)]),
                    AsmOutcome::Rejected(d) => format!("rejected at {}: {}", d.stage, d.message),
                    AsmOutcome::Crashed { stage, abort } => format!("crashed in {}: {}", stage, abort.short()),
                }),
            ),
        ])
    };
    let kind = b
        .tags
        .iter()
        .find_map(|t| t.strip_prefix("field:").or(t.strip_prefix("injected_into:")))
        .unwrap_or_else(|| b.tags.first().map(|s| s.as_str()).unwrap_or("?"))
        .to_string();
    let mut decided = true;
    match (&verdict, &outcome) {
        (_, AsmOutcome::Crashed { abort, .. }) => {
            out.violate(
                format!("C04/crash/{}/{}", kind, abort.panic_file()),
                case,
                format!("neither accepted nor rejected with a diagnostic: {}", abort.short()),
                detail(""),
            );
            decided = false;
        }
        (Verdict::Reject(why), AsmOutcome::Ok(_)) => {
            out.violate(
                format!("C04/accepted-out-of-range/{}", kind),
                case,
                format!("accepted although {}", why),
                detail(why),
            );
            decided = false;
        }
        (Verdict::Accept(_), AsmOutcome::Rejected(d)) => {
            out.violate(
                format!("C04/rejected-valid/{}", kind),
                case,
                format!("rejected a program whose operands all fit: {}", d.message),
                detail(""),
            );
            decided = false;
        }
        (Verdict::Accept(img) | Verdict::Either(img), AsmOutcome::Ok(got)) => {
            if img.words != got.words || img.origin() != got.origin() {
                out.violate(
                    format!("C04/accepted-with-wrong-image/{}", kind),
                    case,
                    "accepted, but the image is not the encoding of the written values (truncated, wrapped or spilled)",
                    detail(&format!("expected {:04X?}", &img.raw()[..img.raw().len().min(12)])),
                );
                decided = false;
            }
        }
        _ => {}
    }
    if decided {
        for t in &b.tags {
            out.class(t.clone());
        }
        out.class(format!("expect:{}", expect));
        out.class(outcome.class());
    }
    if case % 499 == 0 {
        out.sample = Some(J::obj(vec![
            ("source", J::s(&rendered.text)),
            ("reference_verdict", J::s(expect)),
            ("observed", J::s(outcome.class())),
        ]));
    }
    out
}
