"""Per-property check definitions (what to run, at which level, with which assumptions)."""
import common
from common import Result

L2_REPLAY = {}
NOT_YET = {}

COMMON_ASSUMPTIONS = [
    "the reference models in /verif/harness/src/ref*.rs encode the ISA / README / help text correctly (DESIGN.md section 3 lists every pinned or open point)",
    "hooks compiled with --features verif only observe (src/verif.rs); L2 layers re-observe CLI-visible effects on the unmodified binary",
    "held = held on the executions listed under coverage, not a proof",
]


def profiles(ctx):
    """checked = overflow-checks + debug-assertions (panics are observed); release = product build."""
    return ["checked", "release"]


def run_c02(ctx):
    res = Result()
    res.add_lv(common.run_lv(ctx, "checked"))
    # the stock release build: same oracle, wrapping arithmetic instead of overflow panics
    extra = [] if ctx.thorough() else ["--scale", "0.34"]
    res.add_lv(common.run_lv(ctx, "release", extra))
    if ctx.thorough():
        import layers
        layers.miri(ctx, res, "C02", shards=16)
    return res


PROPS = {
    "C02": {
        "run": run_c02,
        "level": "exploration",
        "design_ref": "DESIGN.md section 4 C02",
        "level_text": "Differential runtime monitor: every one of the 61,440 non-RTI instruction words is executed by the real RunState::execute on generated boundary/random machine states under both feature settings and the complete resulting state (registers, PC, CC, all 65,536 words, output, exit code) is compared with an independent reference VM; overflow-checked and release builds; Miri over the decode-distinct patterns in the thorough tier. Exhaustive over instruction words, sampled over states.",
        "level_note": "Trusted: the reference VM (refvm.rs) and the state generator's reach. States per word are sampled (K per word per flag), not enumerated.",
        "technique": "runtime monitoring: differential oracle (reference LC-3 VM) over hooked RunState::execute, full-state comparison; rustc overflow/debug assertions; Miri on the decode-distinct patterns (thorough)",
        "rule": "every instruction word except opcode 8 (RTI) x K generated machine states x stack feature on/off; a case is non-trivial when the reference effect changes a register, PC, CC, memory, output or ends execution; distinct = hash of (word, registers, PC, CC)",
        "assumptions": COMMON_ASSUMPTIONS + [
            "ISA points the editions disagree on (JSRR R7, R7 after TRAP, PUSH/POP R7, non-ASCII input byte, PC after HALT) are accepted either way",
        ],
    },
}
