"""Per-property check definitions (what to run, at which level, with which assumptions)."""
import common
from common import Result

L2_REPLAY = {}
NOT_YET = {}

COMMON_ASSUMPTIONS = [
    "the reference models in /verif/harness/src/ref*.rs encode the ISA / README / help text correctly (DESIGN.md section 3 lists every pinned or open point)",
    "hooks compiled with --features verif only observe (src/verif.rs); L2 layers re-observe CLI-visible effects on the unmodified binary",
    "held = held on the executions listed under coverage, not a proof",
]


def profiles(ctx):
    """checked = overflow-checks + debug-assertions (panics are observed); release = product build."""
    return ["checked", "release"]


def run_c02(ctx):
    res = Result()
    res.add_lv(common.run_lv(ctx, "checked"))
    # the stock release build: same oracle, wrapping arithmetic instead of overflow panics
    extra = [] if ctx.thorough() else ["--scale", "0.34"]
    res.add_lv(common.run_lv(ctx, "release", extra))
    if ctx.thorough():
        import layers
        layers.miri(ctx, res, "C02", shards=16)
    import l2
    l2.c02_cli(ctx, res)
    return res


def l1_both(ctx, release_scale_quick="0.25", miri_shards=0):
    """checked build fully; release build fully (thorough) or on a sample (quick)."""
    res = Result()
    extra = [] if ctx.thorough() else ["--scale", release_scale_quick]
    for profile, ex in (("checked", None), ("release", extra)):
        try:
            res.add_lv(common.run_lv(ctx, profile, ex))
        except common.Inconclusive as e:
            # an in-process layer that could not finish decides nothing by itself, but the other
            # layers (the CLI monitors) still run: what they see is reported; if they see nothing
            # the check ends undecided, never "held"
            res.layer_incomplete.append("%s: %s" % (profile, str(e)[:300]))
    if ctx.thorough() and miri_shards:
        import layers
        layers.miri(ctx, res, ctx.pid, shards=miri_shards)
    return res


def run_c01(ctx):
    import l2
    res = l1_both(ctx)
    l2.c01_cli(ctx, res, 40 if not ctx.thorough() else 400)
    return res


def run_c03(ctx):
    import l2
    res = l1_both(ctx)
    cp = l2.corpus(ctx)
    l2.c03_cli(ctx, res, cp["structured"], 60 if not ctx.thorough() else 400)
    l2.c03_environment(ctx, res, cp["structured"])
    l2.c03_objects(ctx, res)
    l2.c03_escape_output(ctx, res)
    l2.c03_reg_table(ctx, res)
    res.require(["l2:run"], "L2")
    return res


def run_c09(ctx):
    import l2
    res = l1_both(ctx)
    l2.c09_cli(ctx, res, 40 if not ctx.thorough() else 300)
    if ctx.thorough():
        l2.valgrind_samples(ctx, res, "C09")
    return res


def run_c04(ctx):
    import l2
    res = l1_both(ctx)
    l2.c04_cli(ctx, res)
    return res


def run_c05(ctx):
    import l2
    res = l1_both(ctx)
    l2.c05_cli(ctx, res, 200 if not ctx.thorough() else 1500)
    if ctx.thorough():
        l2.valgrind_samples(ctx, res, "C05")
    return res


def run_c14(ctx):
    res = l1_both(ctx, release_scale_quick="1.0", miri_shards=4)
    import l2
    l2.c14_transport(ctx, res)
    return res


def run_c20(ctx):
    import l2
    res = l1_both(ctx, release_scale_quick="1.0", miri_shards=8)
    l2.c20_pty(ctx, res)
    l2.c20_shared_history(ctx, res)
    l2.c20_history_unwritable(ctx, res)
    return res


def run_c06(ctx):
    import l2
    res = Result()
    l2.c06(ctx, res)
    if ctx.thorough():
        l2.valgrind_samples(ctx, res, "C06")
    return res


def run_c07(ctx):
    import l2
    res = Result()
    return l2.c07(ctx, res)


def run_c08(ctx):
    import l2
    res = Result()
    return l2.c08(ctx, res)


def run_c18(ctx):
    import l2
    res = l1_both(ctx)
    l2.c18_cli(ctx, res)
    return res


def run_c19(ctx):
    import l2
    res = l1_both(ctx, miri_shards=8)
    cp = l2.corpus(ctx)
    for h in range(1 if not ctx.thorough() else 10):
        l2.watch_history(ctx, res, cp, "C19", 100 + h, length=7)
    l2.watch_history(ctx, res, cp, "C19", 150, symlinked=True)
    # the option given to `watch` holds for every re-check, as it does for a fresh check
    l2.watch_history(ctx, res, cp, "C19", 151, stack=True)
    res.require(["watch_through_a_symlink_pointed_elsewhere"], "L2")
    l2.c19_cli(ctx, res)
    return res


MIRI_SHARDS = {"C12": 4, "C15": 4, "C17": 2}


def run_dbg(ctx):
    return l1_both(ctx, miri_shards=MIRI_SHARDS.get(ctx.pid, 0))


def run_c12(ctx):
    import l2
    res = run_dbg(ctx)
    l2.c12_cli(ctx, res)
    return res


def run_c11(ctx):
    import l2
    res = run_dbg(ctx)
    l2.c11_cli(ctx, res)
    return res


def run_c10(ctx):
    import l2
    res = run_dbg(ctx)
    l2.c10_cli(ctx, res)
    return res


def run_c15(ctx):
    import l2
    res = run_dbg(ctx)
    l2.c15_cli(ctx, res)
    return res


def run_c17(ctx):
    import l2
    res = run_dbg(ctx)
    l2.c17_cli(ctx, res)
    return res


def run_c16(ctx):
    import l2
    res = run_dbg(ctx)
    l2.c16_cli(ctx, res)
    return res


DBG_ASSUME = COMMON_ASSUMPTIONS + [
    "the reference debugger model (refdbg.rs) encodes the property texts; `step` on an instruction that changes PC accepts both documented readings (DESIGN.md section 3)",
    "debugger sessions are driven through the public API (debugger::Options{command}) with stdin at end of file; the interactive terminal reader is covered by C20 only",
]

PROPS = {
    "C09": {
        "run": run_c09,
        "level": "exploration",
        "design_ref": "DESIGN.md section 4 C09",
        "level_text": "Differential runtime monitor: each generated terminating program is run plainly and under the debugger with a random script of execution-control/inspection commands (valid, boundary and malformed arguments) ending in quit or end of input; program output, consumed input, exit status and the complete final machine state must be identical. Sampled over programs and scripts.",
        "level_note": "The plain run of the same build is the reference (C03 checks the plain run against the reference VM, so a common-mode error is not masked).",
        "technique": "runtime monitoring: differential oracle (debugged vs plain run of the same image) over hooked final state, output and exit; checked + release builds",
        "rule": "case = (structured program, script of non-mutating commands, separator, ending by quit/EOF); non-trivial = the debugger paused at least twice and more than one instruction ran; distinct = hash of source and script",
        "assumptions": DBG_ASSUME,
    },
    "C10": {
        "run": run_c10,
        "level": "exploration",
        "design_ref": "DESIGN.md section 4 C10",
        "level_text": "Lockstep runtime monitor against a reference debugger model: at every prompt the paused machine (registers, PC, CC, memory, instruction count, breakpoints, output) is compared with the model advanced by the same command prefix. Exhaustive over all scripts up to length 3 (quick) / 4 (thorough) of a 14-command alphabet on 12 fixed programs (loops, nested/recursive subroutines in both conventions, HALT in the middle, jumps out of user space, I/O, .break), plus random scripts on generated programs (with reset/goto between the stepping commands, label+offset and ^-relative breakpoints). At the CLI six stepping scripts with known final registers go through --command, standard input with and without a final newline, and split between the two.",
        "level_note": "Exhaustive only inside the stated script-length bound and fixed program set; the reference model is trusted.",
        "technique": "runtime monitoring: online trace checking of prompt snapshots (hook at the debugger's read point) against an executable reference model; bounded-exhaustive scripts",
        "rule": "case = (program, command script); non-trivial = at least one resuming command executed at least one instruction; distinct = hash of source and script",
        "assumptions": DBG_ASSUME,
    },
    "C11": {
        "run": run_c11,
        "level": "exploration",
        "design_ref": "DESIGN.md section 4 C11",
        "level_text": "Two independent monitors per session: (1) lockstep reference model (pause positions, sorted duplicate-free breakpoint list at every prompt, .break -> address from the reference assembler); (2) a trace invariant over the interleaved fetch/prompt event log: an instruction at a breakpointed address is fetched only directly after a prompt at that address. Exhaustive scripts up to length 3/4 on loop programs (one- and two-instruction loops, call loops) with locations given absolutely, by label and by PC offset; .break at every placement of generated programs; random sessions. Plus a CLI layer: a declared breakpoint inside a loop, visited three times, with scripts containing empty commands delivered on standard input, by --command and split.",
        "level_note": "Breakpoint set in force between two prompts is taken from the real list at the later prompt (bp changes only happen at prompts).",
        "technique": "runtime monitoring: event-log trace invariant + reference-model lockstep over hooked prompts and fetches",
        "rule": "case = (program with/without .break, script); non-trivial = some pause happened at a breakpointed address; distinct = hash of source and script",
        "assumptions": DBG_ASSUME,
    },
    "C12": {
        "run": run_c12,
        "level": "exploration",
        "design_ref": "DESIGN.md section 4 C12",
        "level_text": "Runtime monitor over histories of executing and mutating commands (move to registers/code/stack area, goto, eval of stores below the origin and into code, program stores) followed by 1-3 resets: the snapshot at the prompt after every reset must equal the load-time machine (all registers, PC, CC, all 65,536 words, taken from the reference loader, not from the debugger's saved copy), and `...; reset; quit` must end like a fresh run (output suffix, exit, final state). Plus a CLI layer: `reset` as the last command of a script, through every reader and separator, on a program that prints how often it has run.",
        "level_note": "Programs with input traps are excluded (input consumed before the reset cannot be replayed).",
        "technique": "runtime monitoring: state-equality invariant at hooked prompts + differential final-state check",
        "rule": "case = (program, mutating history, resets, quit/exit); non-trivial = the machine differed from its load-time state right before a reset; distinct = hash of source and script",
        "assumptions": DBG_ASSUME,
    },
    "C13": {
        "run": run_dbg,
        "level": "exploration",
        "design_ref": "DESIGN.md section 4 C13",
        "level_text": "Frame-condition monitor: sessions of 120 move/goto/break/inspect commands whose targets sweep the address boundaries (0, origin-1, origin, 0x7FFF, 0x8000, 0xFDFF, 0xFE00, 0xFFFF), labels with offsets up to +-0x8000 and PC offsets whose sum leaves 16 bits, at low, straddling and high origins; after every command the complete machine state and breakpoint list are compared with the reference model (only the named target may change; refused commands change nothing). Thorough: every one of the 65,536 addresses is a move target once.",
        "level_note": "Offsets not representable in 16 signed bits are rejected by the grammar (no prompt); the monitor checks that they are consumed without effect.",
        "technique": "runtime monitoring: full-state diff of consecutive prompt snapshots against a reference model (frame conditions)",
        "rule": "case = one session of 120 commands (evaluations counts commands); distinct = hash of source and script",
        "assumptions": DBG_ASSUME,
    },
    "C16": {
        "run": run_c16,
        "level": "exploration",
        "design_ref": "DESIGN.md section 4 C16",
        "level_text": "Bounded-progress monitor (the decidable restatement of the liveness claim): for every session the run-loop iteration count (tick hook) must stay within 2*(instructions executed + commands read + 1) + 8, and a session whose reference model terminates must terminate; non-termination is decided on logical iterations (fuel), never wall clock. Workload: programs that reach PC=0xFFFF by computed jump, PC below the origin, PC >= 0xFE00 or HALT, with every resuming command issued there, followed by end of input. At the CLI, sessions through the real --command and stdin readers with scripts ending in every awkward way (no final newline, comment-like text, stray quotes, NUL), judged on CPU time (RLIMIT_CPU), never wall clock. Plus sessions with a terminal around them (script on redirected standard input while the messages go to a pseudo-terminal that is the controlling terminal; a scripted session beside an idle one), decided on /proc state (asleep in one system call, CPU time standing still) rather than on a deadline; the bound is also checked on runs the reference machine discards (RTI).",
        "level_note": "Unbounded 'eventually terminates' is not decidable by monitoring; the bound is what the property's second sentence states.",
        "technique": "runtime monitoring: counter invariant over tick/fetch/command hooks with logical fuel",
        "rule": "case = (program ending outside user space / at 0xFFFF / on HALT, script of resuming commands, EOF); all sessions are non-trivial; distinct = hash of source and script",
        "assumptions": DBG_ASSUME,
    },
    "C14": {
        "run": run_c14,
        "level": "exploration",
        "design_ref": "DESIGN.md section 4 C14",
        "level_text": "Differential runtime monitor of the command parser (hook parse_command, under catch_unwind) against an independent matcher for the documented grammar: exhaustive over all argument strings up to length 4 (quick) / 5 (thorough) of a 16-character alphabet of signs, radix prefixes, digits, hex letters, '^', 'r', '_' in six argument contexts; numeric boundary families around 2^15, 2^16, 2^31 in every radix and sign position; every command name, alias and misspelling in random letter case with too few / too many arguments; random longer and multi-byte strings; and a through-the-machine part where the parsed value is re-observed by the effect of move/goto/break add. Transport independence (--command vs stdin vs split, ';' vs newline) is checked on the unmodified CLI.",
        "level_note": "Exhaustive only inside the alphabet/length bound. Bare `print` (help.txt documents a default, the implementation requires the argument) is accepted either way.",
        "technique": "runtime monitoring: differential oracle (reference grammar matcher) over the hooked parser, bounded-exhaustive enumeration; effect-level re-observation through debugger sessions; CLI transport comparison",
        "rule": "case = chunk of 2048 enumerated argument strings x 6 contexts (evaluations counts lines), or a boundary / names / random / through-the-machine batch; non-trivial = chunk containing at least one accepted line or integer-class rejection",
        "assumptions": DBG_ASSUME,
    },
    "C15": {
        "run": run_c15,
        "level": "exploration",
        "design_ref": "DESIGN.md section 4 C15",
        "level_text": "Transition monitor: for every `eval <instruction>` in generated sessions (every register/immediate/base+offset form, label operands defined before and after the PC at every PC of the program, jumps, output traps, stack instructions) the snapshot at the prompt before is the start state and the snapshot after must equal the reference VM's execution of the ISA encoding with PC as it stands and labels denoting their absolute address; refused classes (BR*, RTI, HALT, unknown traps) and malformed texts (missing, surplus, wrong-kind operands, directives, two instructions, undefined labels, labels out of reach) must leave everything unchanged and the session alive.",
        "level_note": "Literal PC offsets and link values (R7 / pushed return address) are not generated / compared, as the property leaves them open.",
        "technique": "runtime monitoring: before/after prompt snapshots compared with a reference VM step (transition oracle)",
        "rule": "case = one session (evaluations counts eval commands); distinct = hash of source and script",
        "assumptions": DBG_ASSUME,
    },
    "C17": {
        "run": run_c17,
        "level": "exploration",
        "design_ref": "DESIGN.md section 4 C17",
        "level_text": "Runtime monitor over generated programs in randomised layouts: `assembly <addr>` for every address of the image and two beyond each end (minimal mode, captured through the debugger-output tee) must print exactly the source text 'mnemonic/directive through last operand' recorded by the renderer for the statement that produced that word (nothing for non-statement addresses); `goto <label+-k>` and `print <label+-k>` must resolve to the address the reference assembler gives the labelled statement.",
        "level_note": "Label names which the command grammar reads as integers/registers are not used as locations.",
        "technique": "runtime monitoring: captured debugger output and prompt snapshots compared with the renderer's recorded spans and the reference assembler's symbol addresses",
        "rule": "case = one program (evaluations counts queries); distinct = hash of the source text",
        "assumptions": DBG_ASSUME,
    },
    "C20": {
        "run": run_c20,
        "level": "exploration",
        "design_ref": "DESIGN.md section 4 C20",
        "level_text": "Lockstep runtime monitor of the real line editor (constructed without TTY through the hook, fed from a key queue) against a plain reference editor: after every key the edited line, cursor and history focus must agree and the cursor must lie within the line; submitted lines and their ';' splitting must agree; panics are caught and located. Exhaustive over all key sequences up to length 5 (quick) / 6 (thorough) of a 16-key alphabet (ASCII, space, punctuation, ';', a 2-byte and a 4-byte character, every editing key) from an empty and a two-entry history, plus random sequences of 20-200 keys. At the CLI twenty sessions on a pseudo-terminal (standard output and standard error on the terminal or redirected to files): the lines submitted, read back from the history file in a private cache directory, are those a plain editor holds. Plus sessions on real pseudo-terminals: every stream combination, terminals of 20/40/80 columns, capitals and punctuation, two sessions open at once on one history file, and a history file that cannot be written.",
        "level_note": "Ctrl+Right with no next word accepts both Vim-style answers (stay on the first trailing blank / go to end of line).",
        "technique": "runtime monitoring: online reference-model comparison after every key, bounded-exhaustive key sequences; Miri on a reduced enumeration (thorough)",
        "rule": "case = chunk of 2048 key sequences (evaluations counts sequences); non-trivial = chunk with a sequence containing both an edit and a cursor movement",
        "assumptions": COMMON_ASSUMPTIONS,
    },
    "C06": {
        "run": run_c06,
        "level": "exploration",
        "design_ref": "DESIGN.md section 4 C06",
        "level_text": "Black-box runtime monitor on the unmodified CLI: generated programs at random origins are compiled (to .lc3 and .obj names) and the object bytes compared with the big-endian reference image (length 2(n+1)); running the object must give the same stdout and exit status as running the source; the loader predicate (non-empty, even length, origin + n <= 0xFFFF) is checked on byte strings of every small length, random lengths of both parities and images ending exactly at, one below and one above the top of memory, observing exit status, 'Running' banner and crashes.",
        "level_note": "Observation is limited to what the CLI exposes (files, stdout, stderr, exit status); the in-memory load state is C03's.",
        "technique": "runtime monitoring (black box): file-content and exit-status observers on the real binary vs reference encoder / loader predicate",
        "rule": "case = one compile+run round trip or one byte string offered to the loader; distinct = distinct sources / byte strings",
        "assumptions": COMMON_ASSUMPTIONS,
    },
    "C07": {
        "run": run_c07,
        "level": "exploration",
        "design_ref": "DESIGN.md section 4 C07",
        "level_text": "Black-box agreement monitor: for each source and feature setting `lace check`, `lace compile` and `lace run` are run on the unmodified binary and their outcome classes (success / diagnostic / crash) compared pairwise; sources include label references out of range for every PC-relative form at every statement position, sources using the stack mnemonics with and without the flag, operand errors and valid programs. A `lace watch` process is driven through a history of rewrites (inotify) and each re-check compared with a fresh `lace check`. Watch histories of seven to eleven versions (in-folder rename, equal size and date, empty file, warnings, a version saved twice, a sibling file saved) decide re-checks logically: a save that draws no re-check while the watcher sleeps, three times in one history, is a violation.",
        "level_note": "No reference model is needed: the oracle is agreement between the three commands.",
        "technique": "runtime monitoring (black box): differential exit-status/stdout observers across CLI subcommands, inotify-driven watch histories",
        "rule": "case = (source, feature flag) run through check, compile and run; distinct = distinct cases",
        "assumptions": COMMON_ASSUMPTIONS,
    },
    "C08": {
        "run": run_c08,
        "level": "fault_enumeration",
        "design_ref": "DESIGN.md section 4 C08",
        "level_text": "Fault enumeration on the unmodified CLI with a file-system observer (destination snapshot before/after: existence, bytes) and strace: emission failure at every statement position 0..n-1 of programs with n = 1..6 (quick) / 1..12, 40 (thorough) statements, destination = a device that accepts no data (a private character-device node like /dev/full), missing parent directory, destination is a directory, parent is not a directory, and ENOSPC/EIO injected by strace on the k-th write() of a successful run; each with the destination pre-existing (sentinel contents) and absent. Exit 0 must mean a complete, correct file; non-zero must leave the destination untouched.",
        "level_note": "For injected write errors clause 1 (no swallowed error) is asserted; a partial regular file left behind by a mid-write failure is reported under its own key.",
        "technique": "fault injection + runtime monitoring: destination-file observer and strace syscall fault injection on the real binary",
        "rule": "case = (program, fault kind/position, destination pre-existing or absent); distinct = distinct cases; all are non-trivial",
        "assumptions": COMMON_ASSUMPTIONS + ["strace's inject counts every write() of the process, including the banner lines on stdout"],
    },
    "C18": {
        "run": run_c18,
        "level": "exploration",
        "design_ref": "DESIGN.md section 4 C18",
        "level_text": "Paired-configuration runtime monitor: every generated case runs on two fresh threads (flag off / on). Sources using push/pop/call/rets (any letter case, also in label position) must be rejected with a diagnostic naming the feature when off and assemble to the reference image when on; sources using none of them must give the identical reference image under both values; raw images are run under both values: a fetched 0xD word must end the run with exit 1 (nothing executed after it) when off and execute when on, and images that never fetch one must behave identically (trace, output, final state). The CLI layer repeats compile/run with and without `-f stack` on the unmodified binary.",
        "level_note": "Trusted: reference encoder for the expected images.",
        "technique": "runtime monitoring: paired-configuration differential runs (in-process, hooked exits and fetch trace) + CLI exit-status/file observers",
        "rule": "case = one source or one raw image run under both flag values; distinct = hash of source / image",
        "assumptions": COMMON_ASSUMPTIONS,
    },
    "C19": {
        "run": run_c19,
        "level": "exploration",
        "design_ref": "DESIGN.md section 4 C19",
        "level_text": "History monitor: sequences of 2-8 sources (valid, failing in the lexer, after labels were recorded, in backpatch, in emit; sharing label names with the predecessor; repeats) are assembled on one thread with reset_state() and StaticSource::new/src/reclaim exactly as the watch closure does; every result (image, origin, breakpoints, or the rendered diagnostic and its spans) must equal the result on a fresh thread. `lace watch` histories on the unmodified binary compare each re-check with a fresh `lace check`. Thorough: the same histories under Miri (use-after-reclaim, double free). Plus compile histories at the CLI (two sources taking turns on one destination, old file dates, a failing text in between) against the reference image of each text, and watch histories with warnings, a version saved twice and saves of a sibling file.",
        "level_note": "Diagnostics are compared by message, spans and full rendering.",
        "technique": "runtime monitoring: same-thread history vs fresh-thread differential; inotify-driven watch process; Miri",
        "rule": "case = one history (evaluations counts sources); distinct = hash of the history",
        "assumptions": COMMON_ASSUMPTIONS,
    },
    "C01": {
        "run": run_c01,
        "level": "exploration",
        "design_ref": "DESIGN.md section 4 C01",
        "level_text": "Differential runtime monitor over the public assemble path: abstract programs are encoded by an independent ISA encoder and rendered in randomised layouts/spellings; the real assembler's image must equal the reference image for every rendering. Contains an exhaustive sweep of every single-statement form x register x in-range immediate/offset (thorough; strided in quick) and every label distance in each PC-relative field (thorough).",
        "level_note": "Trusted: refasm.rs encoder/renderer. Multi-statement programs are sampled.",
        "technique": "runtime monitoring: differential oracle (reference ISA encoder) over AsmParser/Air::backpatch/AsmLine::emit on generated programs and layouts; checked + release builds",
        "rule": "case = abstract program (single-statement sweep, label-geometry program, or random program) x R renderings; non-trivial = has a PC-relative statement or a negative field; distinct = hash of the abstract program",
        "assumptions": COMMON_ASSUMPTIONS,
    },
    "C03": {
        "run": run_c03,
        "level": "exploration",
        "design_ref": "DESIGN.md section 4 C03",
        "level_text": "Runtime monitor with a reference run model: load-time state, the complete fetch trace (hook in the run loop), captured program output, consumed input bytes, stop reason / exit status and the final machine state of structured terminating programs (through try_from) and arbitrary word images (through from_raw, under a step budget) are compared with the reference VM. Sampled over programs/images/inputs.",
        "level_note": "Trusted: refvm.rs run model; images that execute RTI or hit documented-unspecified trap inputs are discarded and counted.",
        "technique": "runtime monitoring: fetch-trace + output + final-state comparison against a reference VM under logical fuel; typed unwinds for process exits",
        "rule": "case = structured program (loops, nested/recursive subroutines, self-modifying stores, traps, all endings) or arbitrary image, with an input byte stream; non-trivial = at least 2 instructions fetched; distinct = hash of image and input",
        "assumptions": COMMON_ASSUMPTIONS,
    },
    "C04": {
        "run": run_c04,
        "level": "exploration",
        "design_ref": "DESIGN.md section 4 C04",
        "level_text": "Boundary-value runtime monitor: the complete matrix field kind x {min-1,min,...,max,max+1,16-bit extremes} x spelling, label distances at and beyond each field limit (and at the 16-bit wrap distances), symbol errors and random programs with one injected out-of-range operand; accept/reject/crash and the emitted image are compared with an independent acceptance predicate + encoder. At the CLI: exit status and bytes of `lace compile` against the same predicate, and one `lace watch` history (a valid source after an invalid one sharing its labels) against fresh checks.",
        "level_note": "Trusted: refasm.rs predicate. Points the documents leave open (positive spellings >= 32768 in signed fields, negative .orig) are accepted either way.",
        "technique": "runtime monitoring: reference acceptance predicate vs observed Ok/Err/panic of the public assemble path, image cross-check; checked + release builds",
        "rule": "case = one program with an operand at/around a field boundary (or a symbol error, or an injected out-of-range operand) in one spelling; all cases are non-trivial; distinct = hash of program and spelling",
        "assumptions": COMMON_ASSUMPTIONS,
    },
    "C05": {
        "run": run_c05,
        "level": "exploration",
        "design_ref": "DESIGN.md section 4 C05",
        "level_text": "Totality monitor: grammar-derived texts under token-level, character-level and multi-byte mutations plus hand-written seeds and size extremes are pushed through the assemble path under catch_unwind with panic-location capture (overflow checks and debug assertions on in the checked build); every returned diagnostic is rendered and its labelled spans checked against the source; a wall-clock watchdog nominates hangs for a CPU-limited re-run.",
        "level_note": "Coverage is what the mutation engine reaches; non-termination is decided on CPU time in an isolated re-run, never on wall clock.",
        "technique": "runtime monitoring / fuzzing with a crash-and-span oracle (catch_unwind, rustc overflow + debug assertions as sanitizer), CPU-limit confirmation for hangs",
        "rule": "case = one input text (seed or mutated rendering of a generated program, or a size-extreme program); distinct = hash of the text; every text is non-trivial",
        "assumptions": COMMON_ASSUMPTIONS,
    },
    "C02": {
        "run": run_c02,
        "level": "exploration",
        "design_ref": "DESIGN.md section 4 C02",
        "level_text": "Differential runtime monitor: every one of the 61,440 non-RTI instruction words is executed by the real RunState::execute on generated boundary/random machine states under both feature settings and the complete resulting state (registers, PC, CC, all 65,536 words, output, exit code) is compared with an independent reference VM; overflow-checked and release builds; Miri over the decode-distinct patterns in the thorough tier. Exhaustive over instruction words, sampled over states. Besides: one case in eight through the real fetch/execute loop; short instruction sequences with a write between two dependent instructions (whatever is remembered besides the visible state would show); the same single instructions executed by `step into` under the debugger after goto/move/reset; input traps on a real pipe, regular file and under `lace debug` at the CLI.",
        "level_note": "Trusted: the reference VM (refvm.rs) and the state generator's reach. States per word are sampled (K per word per flag), not enumerated.",
        "technique": "runtime monitoring: differential oracle (reference LC-3 VM) over hooked RunState::execute, full-state comparison; rustc overflow/debug assertions; Miri on the decode-distinct patterns (thorough)",
        "rule": "every instruction word except opcode 8 (RTI) x K generated machine states x stack feature on/off; a case is non-trivial when the reference effect changes a register, PC, CC, memory, output or ends execution; distinct = hash of (word, registers, PC, CC)",
        "assumptions": COMMON_ASSUMPTIONS + [
            "ISA points the editions disagree on (JSRR R7, R7 after TRAP, PUSH/POP R7, non-ASCII input byte, PC after HALT) are accepted either way",
        ],
    },
}
