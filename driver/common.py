"""Shared machinery of the lace check driver: builds, harness runs, CLI observers, evidence,
known findings, replay."""
import fcntl
import hashlib
import json
import os
import shutil
import subprocess
import sys
import tempfile
import time

VERIF = os.path.dirname(os.path.dirname(os.path.abspath(__file__)))
REPO = os.environ.get("VERIF_REPO", "/repo")
TARGET = os.path.join(VERIF, ".target")
HARNESS_TARGET = os.path.join(TARGET, "harness")
CLI_TARGET = os.path.join(TARGET, "cli")
RUN_DIR = os.path.join(TARGET, "run")
EVIDENCE = os.path.join(VERIF, "evidence")
REPLAYS = os.path.join(VERIF, "replays")
KNOWN = os.path.join(VERIF, "known_findings.json")

ENV = dict(os.environ)
ENV["CARGO_NET_OFFLINE"] = "true"
ENV.setdefault("CARGO_TERM_COLOR", "never")
# never let a developer's RUSTFLAGS leak into the monitored build
ENV.pop("RUSTFLAGS", None)
# one malloc arena: the harness creates a fresh thread per case, and per-thread arenas make
# thread start/exit several times more expensive
ENV["MALLOC_ARENA_MAX"] = "1"


class Inconclusive(Exception):
    pass


class Ctx:
    def __init__(self, pid, tier, seed, build=True):
        self.pid = pid
        self.tier = tier
        self.seed = seed
        self.do_build = build
        self.built = set()
        os.makedirs(RUN_DIR, exist_ok=True)
        os.makedirs(EVIDENCE, exist_ok=True)
        self.scratch = tempfile.mkdtemp(prefix="%s-" % pid, dir=RUN_DIR)

    def thorough(self):
        return self.tier == "thorough"

    def cleanup(self):
        shutil.rmtree(self.scratch, ignore_errors=True)


def full_device(ctx):
    """A character device that refuses every write with ENOSPC, like /dev/full, but private to this
    run: a node (1,7) made in the scratch directory. A changed lace run by root can replace the node
    it is told to write to (rename over it): that must never be the machine's own /dev/full. Falls back
    to /dev/full when no node can be made; None when neither is a device that behaves."""
    import stat
    path = os.path.join(ctx.scratch, "full.dev")
    try:
        if not os.path.lexists(path):
            os.mknod(path, 0o666 | stat.S_IFCHR, os.makedev(1, 7))
    except OSError:
        path = "/dev/full"
    try:
        st = os.lstat(path)
        if not stat.S_ISCHR(st.st_mode) or st.st_rdev != os.makedev(1, 7):
            return None
        fd = os.open(path, os.O_WRONLY)
        try:
            os.write(fd, b"x")
            return None
        except OSError:
            return path
        finally:
            os.close(fd)
    except OSError:
        return None


# ------------------------------------------------------------------ builds

def _locked(fn):
    os.makedirs(TARGET, exist_ok=True)
    with open(os.path.join(TARGET, "build.lock"), "w") as lock:
        fcntl.flock(lock, fcntl.LOCK_EX)
        try:
            return fn()
        finally:
            fcntl.flock(lock, fcntl.LOCK_UN)


def _cargo(args, what):
    def go():
        p = subprocess.run(["cargo"] + args, env=ENV, stdin=subprocess.DEVNULL,
                           stdout=subprocess.PIPE, stderr=subprocess.STDOUT, text=True)
        if p.returncode != 0:
            tail = "\n".join(p.stdout.splitlines()[-25:])
            raise Inconclusive("build of %s failed:\n%s" % (what, tail))
    _locked(go)


def harness_bin(ctx, profile):
    """Build (incrementally) the in-process harness against /repo's working tree."""
    path = os.path.join(HARNESS_TARGET, profile, "lv")
    key = ("harness", profile)
    if key in ctx.built or not ctx.do_build:
        return path
    _cargo(["build", "--offline", "--profile", profile,
            "--manifest-path", os.path.join(VERIF, "harness", "Cargo.toml"),
            "--target-dir", HARNESS_TARGET], "harness (%s)" % profile)
    ctx.built.add(key)
    return path


def cli_bin(ctx, release=False):
    """Build the unmodified lace CLI (feature off) from /repo's working tree."""
    path = os.path.join(CLI_TARGET, "release" if release else "debug", "lace")
    key = ("cli", release)
    if key in ctx.built or not ctx.do_build:
        return path
    args = ["build", "--offline", "--manifest-path", os.path.join(REPO, "Cargo.toml"),
            "--target-dir", CLI_TARGET, "--bin", "lace"]
    if release:
        args.append("--release")
    _cargo(args, "lace CLI (%s)" % ("release" if release else "debug"))
    ctx.built.add(key)
    return path


# ------------------------------------------------------------------ harness runs

def run_lv(ctx, profile, extra=None, prop=None, timeout=3600, tier=None):
    """Run one harness process; returns its JSON summary."""
    exe = harness_bin(ctx, profile)
    out = os.path.join(ctx.scratch, "lv-%s-%d.json" % (profile, int(time.time() * 1e6)))
    cmd = [exe, prop or ctx.pid, "--tier", tier or ctx.tier, "--seed", str(ctx.seed),
           "--profile", profile, "--out", out] + (extra or [])
    try:
        p = subprocess.run(cmd, stdin=subprocess.DEVNULL, stdout=subprocess.DEVNULL,
                           stderr=subprocess.DEVNULL, timeout=timeout, env=ENV)
    except subprocess.TimeoutExpired:
        raise Inconclusive("harness watchdog (%ds) fired for %s" % (timeout, " ".join(cmd)))
    if p.returncode == 3 and os.path.exists(out + ".stuck"):
        # A case exceeded the wall-clock nomination time: decide on CPU time, in isolation.
        case = int(open(out + ".stuck").read().strip())
        try:
            return _confirm_stuck(ctx, cmd, out, case)
        except Inconclusive:
            # merely slow (a loaded machine): the nomination decided nothing and the workload is not done.
            # Once more, with a nomination time twenty times as long; a second nomination stays undecided.
            os.remove(out + ".stuck")
            if os.path.exists(out):
                os.remove(out)
            try:
                p = subprocess.run(cmd, stdin=subprocess.DEVNULL, stdout=subprocess.DEVNULL, stderr=subprocess.DEVNULL,
                                   timeout=timeout * 2, env=dict(ENV, LV_STUCK_AFTER_S="900"))
            except subprocess.TimeoutExpired:
                raise Inconclusive("harness watchdog (%ds) fired for %s" % (timeout * 2, " ".join(cmd)))
            if p.returncode == 3 and os.path.exists(out + ".stuck"):
                case = int(open(out + ".stuck").read().strip())
                return _confirm_stuck(ctx, cmd, out, case)
    if p.returncode != 0 or not os.path.exists(out):
        doc = _confirm_crash(ctx, cmd, out, p.returncode)
        if doc is not None:
            return doc
        raise Inconclusive("harness process ended with status %s without a result: %s"
                           % (p.returncode, " ".join(cmd)))
    with open(out) as f:
        doc = json.load(f)
    doc["_cmd"] = cmd
    return doc


def _status_name(rc):
    import signal
    if rc < 0:
        try:
            return signal.Signals(-rc).name
        except ValueError:
            return "signal-%d" % -rc
    return "exit-%d" % rc


def _confirm_crash(ctx, cmd, out, rc, cpu_limit=120):
    """The harness process ended without a result (signal, abort, stack overflow, a direct
    process::exit from inside lace). The cases in flight are in <out>.inflight: re-run each alone;
    a case that ends the process again, the same way, is a witness. Anything else: undecided.
    SIGKILL (OOM killer, outside kill) and 101 (a panic of the harness itself) never count."""
    import resource
    import struct
    if rc in (-9, 101, 3):
        return None
    try:
        raw = open(out + ".inflight", "rb").read()
    except OSError:
        return None
    cands = sorted({v - 1 for (v,) in struct.iter_unpack("<Q", raw[:len(raw) // 8 * 8]) if v})
    if "--only-case" in cmd:
        cands = [int(cmd[cmd.index("--only-case") + 1])]

    def limit():
        resource.setrlimit(resource.RLIMIT_CPU, (cpu_limit, cpu_limit + 5))
    base = [a for a in cmd]
    if "--only-case" in base:
        i = base.index("--only-case")
        del base[i:i + 2]
    for case in cands[:64]:
        for f in (out, out + ".inflight"):
            if os.path.exists(f):
                os.remove(f)
        single = base + ["--only-case", str(case), "--threads", "1"]
        statuses = []
        for _ in range(2):
            q = subprocess.run(single, stdin=subprocess.DEVNULL, stdout=subprocess.DEVNULL,
                               stderr=subprocess.PIPE, env=ENV, preexec_fn=limit)
            statuses.append(q.returncode)
            if q.returncode != rc or os.path.exists(out):
                break
        if statuses == [rc, rc] and not os.path.exists(out):
            prop = cmd[1]
            tail = q.stderr.decode("utf-8", "replace")[-600:]
            key = "%s/process-ended/%s" % (prop, _status_name(rc))
            return {"property": prop, "tier": cmd[3], "seed": int(cmd[5]), "profile": cmd[7],
                    "evaluations": 1, "distinct_nontrivial": 1, "classes": {"process_ended_in_case": 1},
                    "samples": [], "floors_missing": [], "inconclusive": {}, "exhaustive": False,
                    "violation_counts": {key: 1},
                    "violations": [{"key": key, "case": case,
                                    "what": "case %d ends the whole process (%s) from inside the code under test, twice out of twice when run alone; the rest of the workload was not run" % (case, _status_name(rc)),
                                    "detail": {"case": case, "cmd": single, "stderr_tail": tail}}],
                    "wall_s": 0.0, "extra": {}, "_cmd": cmd}
    return None


def _cpu_ticks(pid):
    """utime+stime of a process and all its threads, in clock ticks (None if it is gone)."""
    total = 0
    try:
        for t in os.listdir("/proc/%d/task" % pid):
            with open("/proc/%d/task/%s/stat" % (pid, t)) as f:
                fields = f.read().rsplit(") ", 1)[1].split()
            total += int(fields[11]) + int(fields[12])
    except (OSError, IndexError, ValueError):
        return None
    return total


def _wait_or_blocked(p, window=60, windows=2):
    """Wait for the process. A process that is alive but whose CPU time does not advance by a single
    tick over two consecutive 60 s windows is not slow (a loaded machine still gives a runnable
    process some time in a minute): it is blocked. It is killed and a description returned."""
    still = 0
    last = None
    while True:
        try:
            p.wait(timeout=window)
            return None
        except subprocess.TimeoutExpired:
            pass
        now = _cpu_ticks(p.pid)
        if now is not None and last is not None and now == last:
            still += 1
            if still >= windows:
                p.kill()
                p.wait()
                return "%d consecutive windows of %d s with the CPU time standing at %d ticks" % (windows, window, now)
        else:
            still = 0
        last = now


def _confirm_stuck(ctx, cmd, out, case, cpu_limit=120):
    import resource

    def limit():
        resource.setrlimit(resource.RLIMIT_CPU, (cpu_limit, cpu_limit + 5))
    single = cmd + ["--only-case", str(case), "--threads", "1"]
    if os.path.exists(out):
        os.remove(out)
    p = subprocess.Popen(single, stdin=subprocess.DEVNULL, stdout=subprocess.DEVNULL,
                         stderr=subprocess.DEVNULL, env=ENV, preexec_fn=limit)
    blocked = _wait_or_blocked(p)
    if blocked:
        prop = cmd[1]
        return {"property": prop, "tier": cmd[3], "seed": int(cmd[5]), "profile": cmd[7],
                "evaluations": 1, "distinct_nontrivial": 1, "classes": {"nonterminating_case": 1},
                "samples": [], "floors_missing": [], "inconclusive": {}, "exhaustive": False,
                "violation_counts": {"%s/no-termination" % prop: 1},
                "violations": [{"key": "%s/no-termination" % prop, "case": case,
                                "what": "case %d, run alone, stays alive without consuming any CPU time (%s): blocked for good (normal cost: milliseconds); the rest of the workload was not run" % (case, blocked),
                                "detail": {"case": case, "cmd": single}}],
                "wall_s": 0.0, "extra": {}, "_cmd": cmd}
    if p.returncode in (-24, -9, 3):  # SIGXCPU / SIGKILL by the limit / nominated again
        prop = cmd[1]
        return {"property": prop, "tier": cmd[3], "seed": int(cmd[5]), "profile": cmd[7],
                "evaluations": 1, "distinct_nontrivial": 1, "classes": {"nonterminating_case": 1},
                "samples": [], "floors_missing": [], "inconclusive": {}, "exhaustive": False,
                "violation_counts": {"%s/no-termination" % prop: 1},
                "violations": [{"key": "%s/no-termination" % prop, "case": case,
                                "what": "case %d used more than %d s of CPU time in isolation (normal cost: milliseconds); the rest of the workload was not run" % (case, cpu_limit),
                                "detail": {"case": case, "cmd": single}}],
                "wall_s": 0.0, "extra": {}, "_cmd": cmd}
    raise Inconclusive("case %d of %s was nominated as stuck but finished within the CPU limit when re-run alone (status %s); workload not completed"
                       % (case, cmd[1], p.returncode))


class Result:
    """Accumulates what all layers observed for one check run."""

    def __init__(self):
        self.evaluations = 0
        self.distinct = 0
        self.classes = {}
        self.samples = []
        self.violations = []   # dicts: key, what, detail, replay(dict)
        self.violation_counts = {}
        self.inconclusive = {}
        self.floors_missing = []
        self.parts = []
        self.extra = {}
        self.exhaustive = False
        self.layer_incomplete = []

    def add_lv(self, doc, label=None):
        label = label or doc.get("profile", "?")
        self.evaluations += doc["evaluations"]
        # the release run repeats (a sample of) the checked run's cases with the same seed: the
        # same cases must not be counted as distinct twice. Miri shards partition their workload.
        if label.startswith("miri"):
            self.distinct += doc["distinct_nontrivial"]
        else:
            prev = getattr(self, "_l1_distinct", 0)
            if doc["distinct_nontrivial"] > prev:
                self.distinct += doc["distinct_nontrivial"] - prev
                self._l1_distinct = doc["distinct_nontrivial"]
        for k, v in doc["classes"].items():
            self.classes[k] = self.classes.get(k, 0) + v
        for s in doc["samples"]:
            if len(self.samples) < 6:
                self.samples.append(s)
        for v in doc["violations"]:
            self.violations.append({
                "key": v["key"], "what": v["what"], "detail": v["detail"],
                "replay": {"layer": "L1", "property": doc["property"], "tier": doc["tier"],
                           "seed": doc["seed"], "profile": doc["profile"], "case": v["case"],
                           "extra_args": doc["_cmd"][10:]},
            })
        for k, v in doc["violation_counts"].items():
            self.violation_counts[k] = self.violation_counts.get(k, 0) + v
        for k, v in doc["inconclusive"].items():
            self.inconclusive[k] = self.inconclusive.get(k, 0) + v
        for f in doc["floors_missing"]:
            self.floors_missing.append("%s:%s" % (label, f))
        self.parts.append({"layer": "L1", "label": label, "profile": doc["profile"],
                           "evaluations": doc["evaluations"],
                           "distinct_nontrivial": doc["distinct_nontrivial"],
                           "wall_s": doc["wall_s"], "extra": doc.get("extra", {})})
        if doc.get("exhaustive"):
            self.exhaustive = True

    def cls(self, name, n=1):
        self.classes[name] = self.classes.get(name, 0) + n

    def violate(self, key, what, detail, replay=None):
        self.violation_counts[key] = self.violation_counts.get(key, 0) + 1
        if sum(1 for v in self.violations if v["key"] == key) < 3:
            self.violations.append({"key": key, "what": what, "detail": detail,
                                    "replay": replay or {"layer": "L2"}})

    def require(self, floors, label="L2"):
        for f in floors:
            if self.classes.get(f, 0) == 0:
                self.floors_missing.append("%s:%s" % (label, f))


# ------------------------------------------------------------------ CLI observer (L2)

class CliRun:
    def __init__(self, argv, rc, out, err, wall):
        self.argv = argv
        self.rc = rc
        self.out = out
        self.err = err
        self.wall = wall

    @property
    def crashed(self):
        """Rust panic (101) or death by signal."""
        return self.rc == 101 or self.rc < 0

    def brief(self):
        # an argument may spell bytes that are not UTF-8 with lone surrogates: not encodable as JSON text
        argv = [a if not isinstance(a, str) or a.isprintable() and a.encode("utf-8", "ignore").decode() == a
                else repr(os.fsencode(a))[2:-1] for a in self.argv]
        return {"argv": argv, "exit": self.rc,
                "stdout": self.out.decode("utf-8", "replace")[-600:],
                "stderr": self.err.decode("utf-8", "replace")[-600:]}


def lace(ctx, args, stdin=b"", cwd=None, timeout=60, release=False, env=None, wrapper=None, stdin_file=None):
    exe = cli_bin(ctx, release)
    argv = (wrapper or []) + [exe] + args
    e = dict(ENV)
    e["NO_COLOR"] = "1"
    e["XDG_CACHE_HOME"] = ctx.scratch
    if env:
        for k, v in env.items():
            if v is None:
                e.pop(k, None)   # a variable to be absent
            else:
                e[k] = v
    t = time.time()
    try:
        if stdin_file is not None:
            # standard input is the open file itself (a regular file, not a pipe)
            p = subprocess.run(argv, stdin=stdin_file, stdout=subprocess.PIPE, stderr=subprocess.PIPE,
                               cwd=cwd or ctx.scratch, timeout=timeout, env=e)
        else:
            p = subprocess.run(argv, input=stdin, stdout=subprocess.PIPE, stderr=subprocess.PIPE,
                               cwd=cwd or ctx.scratch, timeout=timeout, env=e)
    except subprocess.TimeoutExpired as ex:
        return CliRun(args, None, ex.stdout or b"", ex.stderr or b"", time.time() - t)
    return CliRun(args, p.returncode, p.stdout, p.stderr, time.time() - t)


def pmap(fn, items, workers=16):
    from concurrent.futures import ThreadPoolExecutor
    with ThreadPoolExecutor(max_workers=workers) as ex:
        return list(ex.map(fn, items))


# ------------------------------------------------------------------ known findings

def load_known():
    if not os.path.exists(KNOWN):
        return []
    with open(KNOWN) as f:
        return json.load(f).get("findings", [])


# ------------------------------------------------------------------ evidence / verdict

def _evidence(ctx, prop, result, wall, violations, extra_cov=None):
    cov = {
        "evaluations": result.evaluations if result else 0,
        "distinct_nontrivial": result.distinct if result else 0,
        "rule": prop["rule"],
        "samples": (result.samples if result and result.samples else ["(no case was run)"]),
        "exhaustive": bool(result and result.exhaustive),
        "cases_by_class": dict(sorted(result.classes.items())) if result else {},
        "floors_missing": result.floors_missing if result else [],
        "inconclusive": result.inconclusive if result else {},
        "parts": result.parts if result else [],
        "violation_counts": result.violation_counts if result else {},
        "extra": result.extra if result else {},
    }
    if extra_cov:
        cov.update(extra_cov)
    return {
        "property_id": ctx.pid,
        "tier": ctx.tier,
        "seed": ctx.seed,
        "level": prop["level"],
        "technique": prop["technique"],
        "coverage": cov,
        "assumptions": prop["assumptions"],
        "wall_s": round(wall, 3),
        "violations": violations,
    }


def _write_evidence(ctx, doc):
    path = os.path.join(EVIDENCE, "%s.json" % ctx.pid)
    tmp = path + ".tmp"
    with open(tmp, "w") as f:
        json.dump(doc, f, indent=1, ensure_ascii=False)
        f.write("\n")
    os.replace(tmp, path)


def write_inconclusive_evidence(ctx, prop, reason, wall):
    doc = _evidence(ctx, prop, None, wall, 0, {"verdict": "inconclusive", "reason": reason})
    _write_evidence(ctx, doc)
    ctx.cleanup()


def finish(ctx, prop, result, wall):
    known = [k for k in load_known() if k["property"] == ctx.pid and k.get("status") == "open"]
    known_keys = {k["key"]: k for k in known}
    new = [v for v in result.violations if v["key"] not in known_keys]
    hit = {}
    for v in result.violations:
        if v["key"] in known_keys:
            hit[v["key"]] = known_keys[v["key"]]
    n_new = sum(c for k, c in result.violation_counts.items() if k not in known_keys)

    verdict = "held"
    lines = []
    for key, k in sorted(hit.items()):
        lines.append("KNOWN-FINDING: property=%s %s [%s]" % (ctx.pid, k["what"], key))
    rc = 0
    if new:
        verdict = "violated"
        rc = 1
        os.makedirs(os.path.join(REPLAYS, ctx.pid), exist_ok=True)
        seen = set()
        for v in new:
            if v["key"] in seen:
                continue
            seen.add(v["key"])
            blob = {"property": ctx.pid, "key": v["key"], "what": v["what"], "tier": ctx.tier,
                    "seed": ctx.seed, "detail": v["detail"], "replay": v["replay"]}
            h = hashlib.sha1(json.dumps(blob, sort_keys=True).encode()).hexdigest()[:12]
            path = os.path.join(REPLAYS, ctx.pid, "%s.json" % h)
            with open(path, "w") as f:
                json.dump(blob, f, indent=1, ensure_ascii=False)
            lines.append("VIOLATION property=%s replay=%s" % (ctx.pid, path))
            lines.append("  key=%s :: %s" % (v["key"], v["what"][:300]))
    elif result.layer_incomplete:
        verdict = "inconclusive"
        rc = 2
        lines.append("INCONCLUSIVE property=%s reason=%s" % (ctx.pid, " | ".join(result.layer_incomplete).replace("\n", " ")[:400]))
    elif result.floors_missing or result.inconclusive:
        # Nothing refuted, but something the check promises to observe was not observed.
        if result.floors_missing:
            verdict = "inconclusive"
            rc = 2
            lines.append("INCONCLUSIVE property=%s reason=required event classes not observed: %s"
                         % (ctx.pid, ",".join(result.floors_missing[:12])))
        else:
            total_inc = sum(result.inconclusive.values())
            if total_inc * 50 > max(result.evaluations, 1):
                verdict = "inconclusive"
                rc = 2
                lines.append("INCONCLUSIVE property=%s reason=%d undecided cases: %s"
                             % (ctx.pid, total_inc, list(result.inconclusive)[:5]))
    doc = _evidence(ctx, prop, result, wall, n_new,
                    {"verdict": verdict, "known_findings_hit": sorted(hit)})
    _write_evidence(ctx, doc)
    for line in lines:
        print(line)
    print("%s property=%s tier=%s seed=%d evaluations=%d distinct_nontrivial=%d wall=%.1fs"
          % (verdict.upper(), ctx.pid, ctx.tier, ctx.seed, result.evaluations, result.distinct, wall))
    ctx.cleanup()
    return rc


# ------------------------------------------------------------------ replay

def replay(ctx, path):
    import props
    with open(path) as f:
        blob = json.load(f)
    rp = blob.get("replay", {})
    if rp.get("layer") == "L1":
        ctx.tier = rp["tier"]
        ctx.seed = rp["seed"]
        if rp["profile"] == "miri":
            import layers
            doc = layers.miri_single(ctx, rp["property"], ["--only-case", str(rp["case"])] + rp.get("extra_args", []))
        else:
            doc = run_lv(ctx, rp["profile"], ["--only-case", str(rp["case"])] + rp.get("extra_args", []),
                         prop=rp["property"])
        ok = True
        for v in doc["violations"]:
            ok = False
            print("VIOLATION property=%s replay=%s" % (ctx.pid, path))
            print("  key=%s :: %s" % (v["key"], v["what"]))
            print(json.dumps(v["detail"], indent=1, ensure_ascii=False))
        if ok:
            print("replay: case %s no longer violates" % rp["case"])
        ctx.cleanup()
        return 0 if ok else 1
    fn = props.L2_REPLAY.get(rp.get("fn"))
    if not fn:
        print("replay: no replayer for", rp)
        return 2
    res = Result()
    fn(ctx, res, rp["args"])
    for v in res.violations:
        print("VIOLATION property=%s replay=%s" % (ctx.pid, path))
        print("  key=%s :: %s" % (v["key"], v["what"]))
    ctx.cleanup()
    return 1 if res.violations else 0
