"""Black-box monitors on the unmodified `lace` CLI (built from /repo with the verif feature OFF).

Observers: argv / stdin / stdout / stderr / exit status, destination files before and after
(existence, bytes, inode), strace syscall histories and injected write errors, inotify-driven
`lace watch` histories. Corpora and reference expectations come from the Rust harness
(`lv CORPUS`), i.e. from the reference models, never from lace itself."""
import json
import os
import random
import re
import shutil
import signal
import subprocess
import time

import common
from common import lace, pmap

BANNER = "%12s %s\n"


def corpus(ctx, scale=None):
    extra = ["--scale", scale] if scale else []
    doc = common.run_lv(ctx, "checked", extra, prop="CORPUS")
    return doc["extra"]


def _write(path, data):
    mode = "wb" if isinstance(data, bytes) else "w"
    with open(path, mode) as f:
        f.write(data)


def _dir(ctx, name):
    d = os.path.join(ctx.scratch, name)
    os.makedirs(d, exist_ok=True)
    return d


def expected_stdout(name, entry, via="run"):
    """What `lace run <name> --minimal` prints for a corpus entry, per the reference run."""
    out = BANNER % ("Assembling", "target " + name) + BANNER % ("Running", "emitted binary")
    out += entry["output"]
    if entry["ref"]["halted"]:
        out += "\n%12s\n" % "Halted"
    if entry["ref"]["returned"]:
        out += BANNER % ("Completed", "target " + name)
    return out


_BANNER = re.compile(rb"^ {2,}(Assembling|Running|Completed|Saved|Finished|Checking) [^\n]*\n", re.M)
_HALTED = re.compile(rb"\n? *Halted\n$")


def program_output(stdout):
    """stdout of `lace run --minimal` without the CLI's own banner lines (their wording is not
    part of any property): returns (program output bytes, halted banner seen)."""
    # the "Completed" banner follows the program output directly, possibly on the same line
    stdout = re.sub(rb" {2,}Completed target [^\n]*\n\Z", b"", stdout)
    body = _BANNER.sub(b"", stdout)
    halted = bool(_HALTED.search(body))
    if halted:
        body = _HALTED.sub(b"", body)
    return body, halted


def feat(entry):
    return ["-f", "stack"] if entry.get("stack") else []


# ------------------------------------------------------------------ C03 (L2 sample)

def c03_cli(ctx, res, entries, limit):
    d = _dir(ctx, "c03")

    def one(ix):
        e = entries[ix]
        name = "p%d.asm" % ix
        _write(os.path.join(d, name), e["source"])
        if ix % 3 == 2:
            # every third program goes through `lace compile` first: the loader's path to the same machine
            obj = "p%d.lc3" % ix
            c = lace(ctx, ["compile", name, obj] + feat(e), cwd=d)
            if c.rc == 0:
                r = lace(ctx, ["run", obj, "--minimal"] + feat(e), stdin=bytes(e["input"]), cwd=d)
                return ix, r
        r = lace(ctx, ["run", name, "--minimal"] + feat(e), stdin=bytes(e["input"]), cwd=d)
        return ix, r
    for ix, r in pmap(one, range(min(limit, len(entries)))):
        e = entries[ix]
        name = "p%d.asm" % ix
        if r.argv[1].endswith(".lc3"):
            name = "p%d.lc3" % ix
            res.cls("l2:run_object_file")
            if e["image"] and e["image"][-1] == 0:
                res.cls("l2:run_object_file_ending_in_zero_word")
        res.evaluations += 1
        res.cls("l2:run")
        want = expected_stdout(name, e).encode("utf-8")
        detail = dict(r.brief(), source=e["source"], input=e["input"], reference=e["ref"],
                      expected_stdout=want.decode("utf-8", "replace")[-600:])
        if r.rc is None or r.crashed:
            res.violate("C03/cli/crash", "`lace run` crashed or hung (exit %s)" % r.rc, detail)
        elif r.rc != e["ref"]["exit"]:
            res.violate("C03/cli/exit-status", "`lace run` exit status %s, reference %s (%s)"
                        % (r.rc, e["ref"]["exit"], e["ref"]["stop"]), detail)
        else:
            body, halted = program_output(r.out)
            ref_out = e["output"].encode("utf-8")
            # the HALT banner starts with a newline of its own: accept it attached to either side
            # ... and blanks printed last by the program cannot be told from the indentation of the
            # banner that follows them on the same line (L1 compares the untouched output tee)
            b2, r2 = body.rstrip(b" "), ref_out.rstrip(b" ")
            if b2 not in (r2, r2 + b"\n") and not (halted and b2 + b"\n" == r2) and body not in (ref_out, ref_out + b"\n"):
                detail["program_output_seen"] = body.decode("utf-8", "replace")[-600:]
                res.violate("C03/cli/stdout", "`lace run --minimal` prints different program output than the reference machine", detail)


_SGR = re.compile(rb"\x1b\[[0-9;]*m")


_DECOY = b"".join(w.to_bytes(2, "big") for w in [0x3000, 0xE002, 0xF022, 0xF025] + [ord(c) for c in "DECOY"] + [0])


def c03_environment(ctx, res, entries):
    """The same programs under other environments (no NO_COLOR, colours forced, a dumb or missing TERM,
    a narrow COLUMNS, another locale, an empty environment) and other spellings of the file's path
    (absolute, through a symlinked directory, `./`, a name with blanks and several dots): what the
    program prints and how the run ends is the machine's business, not the environment's."""
    d = _dir(ctx, "c03_env")
    sub = os.path.join(d, "dir with blanks")
    os.makedirs(sub, exist_ok=True)
    link = os.path.join(d, "link")
    if not os.path.islink(link):
        os.symlink(sub, link)
    envs = [{"NO_COLOR": None}, {"NO_COLOR": None, "CLICOLOR_FORCE": "1"}, {"NO_COLOR": None, "TERM": "dumb"}, {"NO_COLOR": None, "TERM": None},
            {"COLUMNS": "20", "LINES": "5"}, {"LC_ALL": "tr_TR.UTF-8", "LANG": "tr_TR.UTF-8"}, {"LC_ALL": "C"}, {"NO_COLOR": None, "FORCE_COLOR": "3", "COLORTERM": "truecolor"}]
    picks = [ix for ix in range(len(entries)) if entries[ix]["output"]][:10]
    jobs = []
    for n, ix in enumerate(picks):
        e = entries[ix]
        name = "my prog.v%d.final.asm" % ix
        _write(os.path.join(sub, name), e["source"])
        if n % 2 == 0:
            # what an earlier invocation may have left behind: a newer object file of the same name, made
            # from another program, in the working directory and next to the source. `run x.asm` runs x.asm.
            for where in (d, sub):
                with open(os.path.join(where, name[:-4] + ".lc3"), "wb") as f:
                    f.write(_DECOY)
                with open(os.path.join(where, name[:-4] + ".obj"), "wb") as f:
                    f.write(_DECOY)
            res.cls("l2:run_source_beside_a_newer_object_of_another_program")
        jobs.append((ix, envs[n % len(envs)], os.path.join("dir with blanks", name), d))
        jobs.append((ix, envs[(n + 3) % len(envs)], os.path.join(link, name), d))          # absolute, through the symlink
        jobs.append((ix, {}, "./" + name, sub))
        jobs.append((ix, envs[(n + 5) % len(envs)], os.path.join("..", "link", ".", name), sub))

    def one(job):
        ix, env, path, cwd = job
        e = entries[ix]
        return job, lace(ctx, ["run", path, "--minimal"] + feat(e), stdin=bytes(e["input"]), cwd=cwd, env=env, timeout=60)
    for (ix, env, path, cwd), r in pmap(one, jobs):
        e = entries[ix]
        res.evaluations += 1
        res.cls("l2:run_under_another_environment_or_path")
        detail = dict(r.brief(), source=e["source"], input=e["input"], environment={k: v for k, v in env.items()}, path=path, reference=e["ref"])
        if r.rc is None or r.crashed:
            res.violate("C03/cli/crash", "`lace run` crashed or hung (exit %s)" % r.rc, detail)
            continue
        body, halted = program_output(_SGR.sub(b"", r.out))
        ref_out = e["output"].encode("utf-8")
        if r.rc != e["ref"]["exit"]:
            res.violate("C03/cli/exit-status-depends-on-environment", "`lace run %s` exit status %s, reference %s" % (path, r.rc, e["ref"]["exit"]), detail)
        elif body.rstrip(b" \n") != ref_out.rstrip(b" \n"):
            detail["program_output_seen"] = body.decode("utf-8", "replace")[-400:]
            res.violate("C03/cli/stdout-depends-on-environment", "`lace run %s` prints different program output than the reference machine under environment %s" % (path, env), detail)
    res.require(["l2:run_under_another_environment_or_path", "l2:run_source_beside_a_newer_object_of_another_program"], "L2")


def c03_reg_table(ctx, res):
    """TRAP x27 (REG) in the decorated output mode prints a table; its numbers are the machine's: every
    register in hex, PC and the condition codes - also before anything has set them."""
    d = _dir(ctx, "c03_reg")
    progs = [("reg\nadd r1 r1 #-3\nreg\nand r2 r2 #0\nreg\nadd r3 r3 #5\nreg\nhalt\n",
              [("3001", "000", {}), ("3003", "100", {1: "fffd"}), ("3005", "010", {1: "fffd"}), ("3007", "001", {1: "fffd", 3: "0005"})]),
             (".orig x4000\nbrnzp skip\nskip st r0 cell\nreg\nld r4 cell\nreg\nnot r5 r4\nreg\nhalt\ncell .fill x0\n",
              [("4003", "000", {}), ("4005", "010", {}), ("4007", "100", {5: "ffff"})]),
             ("lea r6 here\nhere reg\njsr f\nreg\nhalt\nf ret\n", [("3002", "001", {6: "3001"}), ("3004", "001", {6: "3001", 7: "3003"})]),
             # words whose low byte is a printable character and whose high byte is not zero: no characters
             (".orig x3040\nlea r6 here\nhere reg\nld r1 v\nld r2 w\nreg\nhalt\nv .fill x0041\nw .fill x807e\n",
              [("3042", "001", {6: "3041"}), ("3045", "100", {1: "0041", 2: "807e", 6: "3041"})])]
    for k, (src, want) in enumerate(progs):
        _write(os.path.join(d, "g%d.asm" % k), src)
        for env in ({}, {"NO_COLOR": None}, {"NO_COLOR": None, "CLICOLOR_FORCE": "1"}):
            r = lace(ctx, ["run", "g%d.asm" % k], cwd=d, env=env, timeout=30)
            res.evaluations += 1
            res.cls("l2:reg_table_in_decorated_mode")
            text = _SGR.sub(b"", r.out).decode("utf-8", "replace")
            pcs = re.findall(r"PC\s+0x([0-9a-f]{4})", text)
            ccs = re.findall(r"CC\s+([01]{3})", text)
            regs = re.findall(r"R([0-7])\s+0x([0-9a-f]{4})", text)
            got = []
            for t in range(len(pcs)):
                rr = {int(a): b for a, b in regs[8 * t:8 * t + 8]}
                got.append((pcs[t], ccs[t] if t < len(ccs) else None, rr))
            exp = []
            for pc, cc, changed in want:
                rr = {i: "0000" for i in range(7)}
                rr[7] = "fdff"
                rr.update(changed)
                exp.append((pc, cc, rr))
            # the other columns of a row say the same number: unsigned, signed, and the character it is (x21..x7e) or none
            rows = re.findall(r"R([0-7])\s+0x([0-9a-f]{4})\s+(\d+)\s+(-?\d+)\s+(\S+)", text)
            # (what stands for "no character" is read off the row of xFDFF, the stack pointer nobody touched; words below
            # x0100 that are no printable characters have names of their own, which are not looked at here)
            blank = next((c for _, h, _, _, c in rows if h == "fdff"), None)
            for reg, h, u, sg, ch in rows:
                v = int(h, 16)
                want_ch = chr(v) if 0x21 <= v <= 0x7e else blank if v >= 0x100 else ch
                if int(u) != v or int(sg) != (v - 0x10000 if v >= 0x8000 else v) or (blank is not None and ch != want_ch):
                    res.violate("C03/cli/reg-table", "REG table row R%s of a run in decorated mode reads 0x%s %s %s %s; the same word is %d unsigned, %d signed and %s"
                                % (reg, h, u, sg, ch, v, v - 0x10000 if v >= 0x8000 else v, "the character %r" % chr(v) if 0x21 <= v <= 0x7e else "no printable character (%s)" % blank),
                                dict(r.brief(), source=src, environment=env))
                    break
            if r.rc != 0 or got != exp:
                first = next((t for t in range(min(len(got), len(exp))) if got[t] != exp[t]), min(len(got), len(exp)))
                res.violate("C03/cli/reg-table", "REG table #%d of a run in decorated mode shows %s; the machine holds %s (exit %s)"
                            % (first + 1, got[first] if first < len(got) else None, exp[first] if first < len(exp) else None, r.rc),
                            dict(r.brief(), source=src, environment=env))
    res.require(["l2:reg_table_in_decorated_mode"], "L2")


def c03_escape_output(ctx, res):
    """Programs whose own output contains ESC (x1B). How the minimal mode renders the ESC byte itself is
    an open point (the mode strips colour sequences from what it prints, one write at a time, and the
    traps write one character at a time) - but every other character the traps specify must arrive, in
    order: compared with ESC bytes removed on both sides."""
    d = _dir(ctx, "c03_esc")
    strings = ["a\x1b[2Jb", "\x1b", "x\x1by", "\x1b[H\x1b[Kdone", "red\x1b[31mtext\x1b[0m.", "1\x1b2\x1b3", "\x1b]0;title\x07after", "q\x1b[2J"]
    jobs = []
    for si, st in enumerate(strings):
        words = "\n".join(".fill x%04x" % ord(c) for c in st) + "\n.fill x0\n"
        # PUTS of the string, then OUT of each character, then a tail printed by PUTS
        jobs.append(("puts%d" % si, "lea r0 s\nputs\nlea r0 t\nputs\nhalt\nt .stringz \"|tail\"\ns " + words.replace("\n", "\n", 1), st + "|tail", b""))
        outs = "".join("ld r0 c%d\nout\n" % k for k in range(len(st)))
        data = "".join("c%d .fill x%04x\n" % (k, ord(c)) for k, c in enumerate(st))
        jobs.append(("out%d" % si, outs + "lea r0 t\nputs\nhalt\nt .stringz \"|tail\"\n" + data, st + "|tail", b""))
        # the characters come in through IN (echoed) / GETC+OUT
        jobs.append(("echo%d" % si, "ld r1 n\nlp getc\nout\nadd r1 r1 #-1\nbrp lp\nlea r0 t\nputs\nhalt\nn .fill #%d\nt .stringz \"|tail\"\n" % len(st),
                     st + "|tail", st.encode("latin-1")))

    def one(job):
        name, src, want, data = job
        _write(os.path.join(d, name + ".asm"), src)
        return job, lace(ctx, ["run", name + ".asm", "--minimal"], stdin=data, cwd=d, timeout=30)
    for (name, src, want, data), r in pmap(one, jobs):
        res.evaluations += 1
        res.cls("l2:esc_in_program_output")
        detail = dict(r.brief(), source=src, input=repr(data), characters_specified=repr(want))
        if r.rc is None or r.crashed:
            res.violate("C03/cli/crash", "`lace run` crashed or hung (exit %s) on a program printing ESC" % r.rc, detail)
            continue
        body, halted = program_output(r.out)
        got = body.replace(b"\x1b", b"").rstrip(b"\n")
        exp = want.encode("latin-1").replace(b"\x1b", b"")
        if r.rc != 0 or got != exp:
            detail["program_output_seen"] = repr(body[-300:])
            res.violate("C03/cli/stdout-after-esc", "`lace run --minimal` (exit %s) lost or changed characters other than ESC itself: saw %r, the traps specify %r (ESC bytes removed on both sides)"
                        % (r.rc, got[-80:], exp[-80:]), detail)
    res.require(["l2:esc_in_program_output"], "L2")


def c03_objects(ctx, res):
    """Object files whose last words are zero, run through the loader: the implicit HALT stands behind
    the last word of the file, whatever that word is."""
    d = _dir(ctx, "c03obj")
    progs = [("lea r0 m\nputs\nhalt\nm .stringz \"Hi\"\n", b"Hi"),
             ("ld r1 z\nbrz ok\nlea r0 bad\nputs\nhalt\nok lea r0 good\nputs\nhalt\nbad .stringz \"B\"\ngood .stringz \"G\"\nz .fill #0\n", b"G"),
             (".orig x4000\nlea r0 m\nputs\nld r2 pad\nbrnp no\nlea r0 y\nputs\nno halt\nm .stringz \"a\"\ny .stringz \"y\"\npad .blkw #3\n", b"ay"),
             ("and r0 r0 #0\nadd r0 r0 #7\nputn\nhalt\nbuf .blkw #40\n", b"7")]
    # origins whose high byte is zero (and their neighbours): the first word of the file is the origin, high byte first
    for o in (0x0000, 0x0001, 0x0030, 0x00FF, 0x0100, 0x0101, 0x3000 >> 8, 0xFD00):
        progs.append((".orig x%04x\nld r0 ch\nout\nhalt\nch .fill x%02x\n" % (o, 0x41 + o % 26), bytes([0x41 + o % 26])))
    for k, (src, want) in enumerate(progs):
        for ext in ("lc3", "obj"):
            name, obj = "o%d.asm" % k, "o%d.%s" % (k, ext)
            _write(os.path.join(d, name), src)
            c = lace(ctx, ["compile", name, obj], cwd=d)
            ra = lace(ctx, ["run", name, "--minimal"], cwd=d)
            ro = lace(ctx, ["run", obj, "--minimal"], cwd=d)
            res.evaluations += 1
            res.cls("l2:object_ending_in_zero_words")
            detail = {"source": src, "compile": c.brief(), "run_source": ra.brief(), "run_object": ro.brief(), "expected_program_output": want.decode()}
            for which, r in (("source", ra), ("object file", ro)):
                body, _ = program_output(r.out)
                if r.rc != 0 or body.strip() != want:
                    res.violate("C03/cli/object-ending-in-zero-words", "running the %s prints %r (exit %s), the reference machine prints %r and halts"
                                % (which, body.decode("utf-8", "replace"), r.rc, want.decode()), detail)
                    break
    res.require(["l2:object_ending_in_zero_words", "l2:run_object_file"], "L2")


# ------------------------------------------------------------------ C06

_DEST_BEFORE = [("longer_file_existed", b"\xAB\xCD" * 4096), ("absent", None), ("odd_sized_file_existed", b"30 00 f0 25 - notes to self\n" * 3 + b"."),
                ("absent", None), ("odd_sized_file_existed", bytes.fromhex("3000f025f0")), ("empty_file_existed", b""),
                ("longer_file_existed", b"\x00" * 131072), ("odd_sized_file_existed", bytes.fromhex("3000e002f022f02500480069000000") + b"\n")]


def c06(ctx, res):
    cp = corpus(ctx)
    entries = cp["structured"]
    d = _dir(ctx, "c06")
    n_round = 150 if not ctx.thorough() else len(entries)

    def round_trip(ix):
        e = entries[ix]
        src = "r%d.asm" % ix
        ext = ".lc3" if ix % 2 == 0 else ".obj"
        obj = "r%d%s" % (ix, ext)
        if ix % 5 == 3:
            # names with several dots, a leading dot, blanks: the file type is what stands behind the *last* dot
            src = ("r%d.v2.asm", "my prog %d.1.0.asm", ".hidden%d.asm", "r%d.tar.gz.asm")[ix // 5 % 4] % ix
            obj = ("r%d.v2" + ext, "my prog %d.1.0" + ext, ".hidden%d" + ext, "r%d.2024-10.final" + ext)[ix // 5 % 4] % ix
        _write(os.path.join(d, src), e["source"])
        pre = _DEST_BEFORE[ix % len(_DEST_BEFORE)]
        if pre[1] is not None:
            # the destination already exists: longer than the new object file, of odd size (an object that
            # picked up a stray byte, somebody's notes), empty. It is written over all the same.
            _write(os.path.join(d, obj), pre[1])
        c = lace(ctx, ["compile", src, obj] + feat(e), cwd=d)
        ra = lace(ctx, ["run", src, "--minimal"] + feat(e), stdin=bytes(e["input"]), cwd=d)
        data = None
        ro = None
        if os.path.exists(os.path.join(d, obj)):
            data = open(os.path.join(d, obj), "rb").read()
            ro = lace(ctx, ["run", obj, "--minimal"] + feat(e), stdin=bytes(e["input"]), cwd=d)
        return ix, src, obj, c, ra, ro, data
    for ix, src, obj, c, ra, ro, data in pmap(round_trip, range(min(n_round, len(entries)))):
        e = entries[ix]
        res.evaluations += 1
        res.distinct += 1
        res.cls("round_trip")
        res.cls("dest:" + _DEST_BEFORE[ix % len(_DEST_BEFORE)][0])
        res.cls("ext:" + obj.rsplit(".", 1)[1])
        if obj.count(".") > 1 or obj.startswith("."):
            res.cls("name_with_several_dots")
        img = e["image"]
        want = b"".join(int(w).to_bytes(2, "big") for w in img)
        if c.rc is None:
            # the 60 s wall-clock watchdog fired for the compile of a small valid program. On a loaded machine that
            # decides nothing: the same compile is repeated here, alone (the parallel part is over), with ten times
            # the time. Only a compile that does not come back then either is reported.
            res.cls("round_trip:compile_repeated_after_watchdog")
            c2 = lace(ctx, ["compile", src, obj] + feat(e), cwd=d, timeout=600)
            if c2.rc is not None:
                c = c2
                data = open(os.path.join(d, obj), "rb").read() if os.path.exists(os.path.join(d, obj)) else None
                ro = lace(ctx, ["run", obj, "--minimal"] + feat(e), stdin=bytes(e["input"]), cwd=d, timeout=600) if data is not None else None
                if ra.rc is None:
                    ra = lace(ctx, ["run", src, "--minimal"] + feat(e), stdin=bytes(e["input"]), cwd=d, timeout=600)
        detail = {"source": e["source"], "compile": c.brief(), "reference_image": ["x%04X" % w for w in img[:40]]}
        if c.rc != 0 or data is None:
            res.violate("C06/compile-failed", "`lace compile` of a valid program failed (exit %s)" % c.rc, detail)
            continue
        if data != want:
            what = "object file has %d bytes, expected 2(n+1) = %d" % (len(data), len(want)) if len(data) != len(want) \
                else "object file bytes differ from the big-endian image (first difference at byte %d)" % next(i for i in range(len(want)) if data[i] != want[i])
            detail["file_bytes"] = data[:80].hex()
            res.violate("C06/object-bytes", what, detail)
            continue
        if img[0] == 0x3000 and ".orig" not in e["source"].lower():
            res.cls("default_origin_written")
        # running the object behaves like running the source
        def strip(out, name):
            return out.replace(name.encode(), b"<file>")
        if ro is not None and ro.rc != e["ref"]["exit"]:
            # (the two runs agreeing with each other is not enough when both are turned away at the door)
            detail["run_source"] = ra.brief()
            detail["run_object"] = ro.brief()
            res.violate("C06/object-file-does-not-run-like-the-reference", "running %s ends with status %s, the reference machine ends this image with %s (%s)"
                        % (obj, ro.rc, e["ref"]["exit"], e["ref"]["stop"]), detail)
            continue
        if ro is None or ra.rc != ro.rc or strip(ra.out, src) != strip(ro.out, obj):
            detail["run_source"] = ra.brief()
            detail["run_object"] = ro.brief() if ro else None
            res.violate("C06/round-trip-behaviour", "running the object file differs from running its source (exit %s vs %s)"
                        % (ro.rc if ro else None, ra.rc), detail)
            continue
        if ix < 3:
            res.samples.append({"source": e["source"], "object_hex": data[:64].hex(), "exit": ra.rc})

    # ---- directed round trips: whatever `lace compile` accepts must run the same from source and from
    # the object file - sources in unusual clothes (byte-order mark, CR LF, no final newline) and
    # images that reach across xFE00 with data only (the program halts below it)
    directed = [("bom", "\ufefflea r0 m\nputs\nhalt\nm .stringz \"ok\"\n"),
                ("crlf", "lea r0 m\r\nputs\r\nhalt\r\nm .stringz \"ok\"\r\n"),
                ("no_final_newline", "lea r0 m\nputs\nhalt\nm .stringz \"ok\""),
                ("across_fe00_string", ".orig xFDF0\nlea r0 m\nputs\nhalt\n.blkw #32\nm .stringz \"hi\"\n"),
                ("across_fe00_to_ffff", ".orig xFD80\nand r0 r0 #0\nadd r0 r0 #9\nputn\nhalt\n.blkw #634\n.fill x1\n"),
                ("across_fe00_big_blkw", "and r0 r0 #0\nadd r0 r0 #3\nputn\nhalt\nbuf .blkw xCE00\n"),
                ("ends_at_fdff", ".orig xFDFC\nand r0 r0 #0\nadd r0 r0 #1\nputn\nhalt\n"),
                # images whose last word is xFFFE (the loader's HALT goes to xFFFF): the largest that fit
                ("ends_at_fffe_from_default_origin", "and r0 r0 #0\nadd r0 r0 #2\nputn\nhalt\n.blkw xCFFB\n"),
                ("one_word_at_fffe", ".orig xFFFE\n.fill x1\n"), ("empty_at_ffff", ".orig xFFFF\n")]
    # a table that lies across xFE00 (xFDFC..xFE07, where other machines keep device registers), read word by word
    directed.append(("reads_table_across_fe00", ".orig xFDF0\nlea r1 tab\nlp ldr r0 r1 #0\nbrz done\nout\nadd r1 r1 #1\nbrnzp lp\ndone halt\n.blkw #5\ntab "
                     + "\n".join(".fill x%02X" % c for c in range(0x61, 0x6D)) + "\n.fill #0\n"))
    directed.append(("reads_table_below_ffff", ".orig x3000\nld r1 p\nlp ldr r0 r1 #0\nbrz done\nout\nadd r1 r1 #1\nbrnzp lp\ndone halt\np .fill xFFF0\n.blkw xCFE8\n"
                     + "\n".join(".fill x%02X" % c for c in range(0x41, 0x4F)) + "\n.fill #0\n"))
    # labels that other tools treat as the entry point, below the first statement: execution starts at the origin
    entry_names = ["main", "MAIN", "Main", "start", "_start", "START", "entry", "begin", "_main", "reset"]
    for nm in entry_names:
        directed.append(("entry_name:" + nm, "and r0 r0 #0\nadd r0 r0 #1\n%s add r0 r0 #1\nputn\nhalt\n" % nm))
        directed.append(("entry_name_below_data:" + nm, "lea r0 m\nputs\nbr %s\nm .stringz \"A\"\n%s lea r0 n\nputs\nhalt\nn .stringz \"B\"\n" % (nm, nm)))
    for k, (tag, srctext) in enumerate(directed):
        name, obj = "dir%d.asm" % k, "dir%d.lc3" % k
        _write(os.path.join(d, name), srctext)
        c = lace(ctx, ["compile", name, obj], cwd=d)
        res.evaluations += 1
        # number of statement words of the ones that are plainly valid programs (every operand fits, every
        # label is defined, the image ends below x10000): these compile, to 2(n+1) bytes
        n_words = {"crlf": 6, "no_final_newline": 6, "across_fe00_string": 38, "across_fe00_to_ffff": 639, "across_fe00_big_blkw": 4 + 0xCE00,
                   "ends_at_fdff": 4, "ends_at_fffe_from_default_origin": 0xCFFF, "one_word_at_fffe": 1, "empty_at_ffff": 0}.get(tag)
        if tag == "reads_table_across_fe00":
            n_words = 25
        elif tag == "reads_table_below_ffff":
            n_words = 8 + 0xCFE8 + 15
        elif tag.startswith("entry_name:"):
            n_words = 5
        elif tag.startswith("entry_name_below_data:"):
            n_words = 10
        size = os.path.getsize(os.path.join(d, obj)) if os.path.exists(os.path.join(d, obj)) else None
        if n_words is not None and (c.rc != 0 or size != 2 * (n_words + 1)):
            res.violate("C06/compile-failed", "`lace compile` of a valid program (%s: %d statement words) exits %s and leaves %s bytes; the object file has 2(n+1) = %d"
                        % (tag, n_words, c.rc, size, 2 * (n_words + 1)), {"kind": tag, "source": srctext[:300], "compile": c.brief()})
            continue
        if c.rc != 0:
            res.cls("directed_round_trip:compile_rejects:" + tag)
            continue
        ra = lace(ctx, ["run", name, "--minimal"], cwd=d)
        ro = lace(ctx, ["run", obj, "--minimal"], cwd=d)
        res.cls("directed_round_trip:" + tag.split(":")[0])
        if tag.startswith("entry_name") or tag.startswith("reads_table"):
            want_out = b"2" if tag.startswith("entry_name:") else b"AB" if tag.startswith("entry_name") else b"abcdefghijkl" if "across" in tag else b"ABCDEFGHIJKLMN"
            for which, r in (("source", ra), ("object file", ro)):
                if r.rc != 0 or program_output(r.out)[0].strip() != want_out:
                    res.violate("C06/object-file-does-not-run-like-the-reference", "running the %s of the directed program %r prints %r (exit %s); the reference machine, loading every word of the image and starting at the origin, prints %r"
                                % (which, tag, program_output(r.out)[0].strip()[:40], r.rc, want_out), {"kind": tag, "source": srctext[:600], "run": r.brief()})
        if ra.rc != ro.rc or ra.out.replace(name.encode(), b"<file>") != ro.out.replace(obj.encode(), b"<file>"):
            res.violate("C06/round-trip-behaviour", "`lace compile` accepted the source, but running the object file differs from running the source (exit %s vs %s)"
                        % (ro.rc, ra.rc), {"kind": tag, "source": srctext[:300], "compile": c.brief(), "run_source": ra.brief(), "run_object": ro.brief()})

    # ---- objects larger than one I/O block with long runs of zero words (at the end, in the middle)
    big = [("add r0 r0 #1\nhalt\nbuf .blkw #3000\n", [0x3000, 0x1021, 0xF025] + [0] * 3000),
           ("halt\nbuf .blkw #2047\n", [0x3000, 0xF025] + [0] * 2047),
           ("add r0 r0 #1\nbuf .blkw #5000\nhalt\n", [0x3000, 0x1021] + [0] * 5000 + [0xF025]),
           (".orig x4000\nbuf .blkw #8192\n", [0x4000] + [0] * 8192)]
    for bi, (srctext, words) in enumerate(big):
        want = b"".join(int(w).to_bytes(2, "big") for w in words)
        for pre in ("absent", "same_size"):
            name, obj = "big%d.asm" % bi, "big%d_%s.lc3" % (bi, pre)
            _write(os.path.join(d, name), srctext)
            if pre == "same_size":
                _write(os.path.join(d, obj), b"\xAA" * len(want))
            c = lace(ctx, ["compile", name, obj], cwd=d)
            res.evaluations += 1
            res.cls("object_with_long_zero_run")
            got = open(os.path.join(d, obj), "rb").read() if os.path.exists(os.path.join(d, obj)) else None
            if c.rc != 0 or got != want:
                res.violate("C06/object-bytes", "object file has %s bytes, expected 2(n+1) = %d with the statement words"
                            % (len(got) if got is not None else "no", len(want)),
                            dict(c.brief(), source=srctext, destination_before=pre, object_tail=(got or b"")[-16:].hex()))

    # ---- loader predicate on arbitrary byte strings
    import random
    rnd = random.Random(ctx.seed * 7919 + 6)
    files = []
    alpha = [0x00, 0x30, 0xF0, 0x25, 0xFF]
    # every length 0..5 over a small alphabet (sampled for 4, 5), random lengths of both parities
    for n in range(0, 6):
        combos = min(len(alpha) ** n, 60)
        for _ in range(combos):
            files.append(bytes(rnd.choice(alpha) for _ in range(n)))
    for _ in range(120 if not ctx.thorough() else 4000):
        n = rnd.choice([1, 2, 3, 7, 8, 9, 40, 41, 255, 256, 257]) if rnd.random() < 0.5 else rnd.randrange(0, 600)
        if rnd.random() < 0.5:
            files.append(bytes(rnd.randrange(256) for _ in range(n)))
        else:
            # arbitrary first word, body of HALT words (an accepted image stops at once)
            body = (bytes([rnd.randrange(256), rnd.randrange(256)]) + b"\xF0\x25" * (n // 2))[:n]
            files.append(body)
    # images ending exactly at / one below / one above the top of memory (bodies are HALT words)
    for origin in [0xFFFE, 0xFFFD, 0xFF00, 0xFDFF, 0xF000, 0x8000, 0x3000, 0x0000] + [rnd.randrange(0x10000) for _ in range(12 if not ctx.thorough() else 300)]:
        for delta in (-2, -1, 0, 1, 2):
            n = 0xFFFF - origin + delta
            if n < 0 or n > 0x10001:
                continue
            files.append(origin.to_bytes(2, "big") + b"\xF0\x25" * n)
            files.append(origin.to_bytes(2, "big") + b"\xF0\x25" * n + b"\x00")  # odd length
            if origin in (0x0000, 0x3000, 0xFFFE):
                # (once more: of two neighbours at most one is delivered through a FIFO, where a file has no size to ask for)
                files.append(origin.to_bytes(2, "big") + b"\xF0\x25" * n)

    # odd-length files that look like a good image with something stuck on: a line end, blanks, a tab, NUL,
    # half of a further word
    good = bytes.fromhex("3000e002f022f02500480069000000")[:14] + b"\x00\x00"
    for tail in (b"\n", b" ", b"\r\n\n", b"\t", b"   ", b"\x0c", b"\x00", b"\xf0", b"\n\n\n", b" \n ", b"\r"):
        files.append(good + tail)
        files.append(b"\x30\x00\xf0\x25" + tail)
    # accepted images that run into the word *behind* the image: it is the implicit HALT, so they end
    # normally (exit 0) whatever their own last word is
    behind = {}
    for origin in (0x3000, 0x0200, 0x8000, 0xFDF0, 0xFDFB):
        for last in (0xF025, 0x1021, 0x0000):
            # AND R0,R0,#0 ; BRz +1 ; <last>   -> the branch skips <last> and lands behind the image
            body = origin.to_bytes(2, "big") + b"\x50\x20\x04\x01" + last.to_bytes(2, "big")
            behind[len(files)] = "last word x%04X" % last
            files.append(body)

    # images every byte of which is printable ASCII or white space, with a line feed among them: what makes a file
    # an object file is its extension and its length, not what its bytes look like. The words are AND (immediate),
    # LD and LDR only, so the run falls through to the implicit HALT behind the image and ends normally
    textlike = {}
    for k in range(48 if not ctx.thorough() else 600):
        nwords = rnd.choice([0, 0, 1, 2, 3, 6])
        origin_hi = rnd.randrange(0x20, 0x7F)
        lf_in_origin = nwords == 0 or rnd.random() < 0.6
        body = bytes([origin_hi, 0x0A if lf_in_origin else rnd.randrange(0x20, 0x7F)])
        for j in range(nwords):
            kind = rnd.choice("ALR")
            if kind == "A":
                body += bytes([rnd.randrange(0x50, 0x60), rnd.choice(list(range(0x20, 0x40)) + list(range(0x60, 0x7F)))])
            elif kind == "L":
                # (LD with a line feed, a tab or a CR as its low byte when the origin has none)
                body += bytes([rnd.randrange(0x20, 0x30), rnd.choice([0x0A, 0x09, 0x0D, 0x0A]) if (not lf_in_origin and j == 0) else rnd.randrange(0x20, 0x7F)])
            else:
                body += bytes([rnd.randrange(0x60, 0x70), rnd.randrange(0x20, 0x7F)])
        if 0x0A not in body:
            body = body[:1] + b"\x0a" + body[2:]
        textlike[len(files)] = body.hex()
        files.append(body)

    def via_fifo(ix):
        return ix % 5 == 3

    def feed(path, data):
        """Writer side of the FIFO: wait (bounded) for the reader, write everything, close."""
        import errno
        deadline = time.time() + 8
        fd = None
        while time.time() < deadline:
            try:
                fd = os.open(path, os.O_WRONLY | os.O_NONBLOCK)
                break
            except OSError as ex:
                if ex.errno != errno.ENXIO:
                    return
                time.sleep(0.01)
        if fd is None:
            return
        os.set_blocking(fd, True)
        try:
            view = memoryview(data)
            while len(view):
                view = view[os.write(fd, view[:65536]):]
        except OSError:
            pass
        finally:
            os.close(fd)

    def load(ix):
        data = files[ix]
        # (every seventh file is offered with `-f stack`: what the loader takes does not depend on the flag)
        flag = ["-f", "stack"] if ix % 7 == 5 else []
        name = "f%d.%s" % (ix, "lc3" if ix % 2 else "obj")
        path = os.path.join(d, name)
        if via_fifo(ix):
            # the same bytes offered through a named pipe: a file whose size is not known in advance
            import threading
            os.mkfifo(path)
            t = threading.Thread(target=feed, args=(path, data), daemon=True)
            t.start()
            r = lace(ctx, ["run", name, "--minimal"] + flag, cwd=d, timeout=8, stdin=b"")
            t.join(timeout=10)
        else:
            _write(path, data)
            r = lace(ctx, ["run", name, "--minimal"] + flag, cwd=d, timeout=8, stdin=b"")
        os.remove(path)
        return ix, r
    for ix, r in pmap(load, range(len(files))):
        data = files[ix]
        res.evaluations += 1
        if via_fifo(ix):
            res.cls("delivery:fifo:" + ("empty" if not data else "odd" if len(data) % 2 else "even"))
        n = len(data) // 2 - 1
        if len(data) == 0:
            cls, want = "empty", "reject"
        elif len(data) % 2:
            cls, want = "odd", "reject"
        else:
            origin = int.from_bytes(data[:2], "big")
            fits = origin + n <= 0xFFFF
            cls, want = ("fits" if fits else "too_long"), ("accept" if fits else "reject")
            if origin + n in (0xFFFE, 0xFFFF, 0x10000):
                res.cls("edge:%X" % (origin + n))
        res.cls("loader:" + cls)
        if ix % 7 == 5:
            res.cls("loader:offered_with_the_stack_flag")
        detail = dict(r.brief(), file_len=len(data), file_head=data[:16].hex())
        if b"RTI implemented" in r.err or (r.rc is None and b"Running" in r.out):
            # the image was loaded and run: arbitrary bytes may execute RTI (documented as
            # unimplemented) or loop; both are outside this property
            res.cls("loader:ran_arbitrary_code")
            if want == "reject":
                res.violate("C06/loader-accepted/" + cls, "a file the loader cannot load (%s) was run" % cls, detail)
            continue
        if r.rc is None or r.crashed:
            res.violate("C06/loader-crash/" + cls, "loader crashed or hung on a %s file (exit %s)" % (cls, r.rc), detail)
            continue
        ran = b"Running" in r.out
        if want == "reject":
            if ran or r.rc == 0:
                res.violate("C06/loader-accepted/" + cls, "a file the loader cannot load (%s) was run (exit %s)" % (cls, r.rc), detail)
        else:
            if not ran:
                res.violate("C06/loader-rejected/" + cls, "an even-length image which fits below 0x10000 was rejected (exit %s)" % r.rc, detail)
            elif n >= 1 and data[2:] == b"\xF0\x25" * n and 0 < origin < 0xFE00 and r.rc != 0:
                # (an image of nothing but HALT words, loaded inside user space, halts at its first word)
                res.violate("C06/loader-rejected/" + cls, "an even-length image of %d HALT words at x%04X, which fits below 0x10000, does not run to its HALT (exit %s)" % (n, origin, r.rc), detail)
            elif n >= 1 and data[2:] == b"\xF0\x25" * n and origin == 0 and r.rc not in (0, 0xEE):
                res.violate("C06/loader-rejected/" + cls, "an even-length image of %d HALT words at x0000, which fits below 0x10000, was turned away (exit %s)" % (n, r.rc), detail)
            elif ix in textlike:
                res.cls("loader:image_of_text_bytes")
                if r.rc != 0:
                    res.violate("C06/loader-rejected/image_of_text_bytes", "an even-length image whose bytes are all printable ASCII or white space (%s: AND/LD/LDR words, then the implicit HALT) does not run to its end (exit %s)" % (textlike[ix], r.rc), detail)
            elif ix in behind:
                res.cls("loader:runs_into_implicit_halt")
                if r.rc != 0:
                    res.violate("C06/no-implicit-halt", "an image (%s) whose execution reaches the word behind it does not end normally there (exit %s): no implicit HALT"
                                % (behind[ix], r.rc), detail)
    c06_after_failed_compile(ctx, res)
    res.distinct += len(set(files))
    res.require(["round_trip_after_a_failed_compile", "name_with_several_dots", "round_trip", "dest:longer_file_existed", "dest:absent", "dest:odd_sized_file_existed", "dest:empty_file_existed", "ext:lc3", "ext:obj", "loader:empty", "loader:odd", "loader:fits", "loader:too_long",
                 "edge:FFFF", "edge:10000", "edge:FFFE", "delivery:fifo:odd", "delivery:fifo:even", "loader:runs_into_implicit_halt", "object_with_long_zero_run", "directed_round_trip:across_fe00_string", "directed_round_trip:crlf", "directed_round_trip:entry_name", "directed_round_trip:entry_name_below_data", "directed_round_trip:reads_table_across_fe00"], "L2")
    return res


# ------------------------------------------------------------------ C07 / C19 (watch)

def c06_after_failed_compile(ctx, res):
    """A valid program compiles to exactly its 2(n+1) bytes and runs from them - also when an earlier
    compile in the same directory, to the same stem, failed or was cut off (destination is a
    directory, destination directory missing, source rejected, process killed by a file-size
    limit in the middle of writing): nothing such a failure leaves behind may stand in the way."""
    import resource
    d = _dir(ctx, "c06_after")
    src = "lea r0 m\nputs\nhalt\nm .stringz \"round trip\"\n" + ".fill x1234\n" * 5000
    words = [0x3000, 0xE002, 0xF022, 0xF025] + [ord(c) for c in "round trip"] + [0] + [0x1234] * 5000
    want = b"".join(w.to_bytes(2, "big") for w in words)
    exe = common.cli_bin(ctx)
    env = dict(common.ENV, NO_COLOR="1", XDG_CACHE_HOME=ctx.scratch)

    def history(kind):
        cd = os.path.join(d, kind)
        os.makedirs(cd, exist_ok=True)
        _write(os.path.join(cd, "hi.asm"), src)
        _write(os.path.join(cd, "bad.asm"), "add r0 r0 #99\n")
        first = None
        if kind == "dest_is_directory":
            os.makedirs(os.path.join(cd, "prog"), exist_ok=True)
            first = lace(ctx, ["compile", "hi.asm", "prog"], cwd=cd)
        elif kind == "dest_dir_missing":
            first = lace(ctx, ["compile", "hi.asm", "nowhere/prog.lc3"], cwd=cd)
        elif kind == "source_rejected":
            first = lace(ctx, ["compile", "bad.asm", "prog.lc3"], cwd=cd)
        elif kind == "killed_by_file_size_limit":
            def lim():
                resource.setrlimit(resource.RLIMIT_FSIZE, (4096, 4096))
            p = subprocess.run([exe, "compile", "hi.asm", "prog.lc3"], cwd=cd, env=env, stdin=subprocess.DEVNULL,
                               stdout=subprocess.PIPE, stderr=subprocess.PIPE, preexec_fn=lim, timeout=60)
            first = common.CliRun(["compile", "hi.asm", "prog.lc3"], p.returncode, p.stdout, p.stderr, 0.0)
            # whatever the cut-off compile left of the destination itself is C08's business: start the second from a clean name
            if os.path.exists(os.path.join(cd, "prog.lc3")):
                os.remove(os.path.join(cd, "prog.lc3"))
        elif kind == "dev_full":
            full = common.full_device(ctx)
            first = lace(ctx, ["compile", "hi.asm", full], cwd=cd) if full else None
        out = []
        for dest in ("prog.lc3", "prog.obj"):
            c = lace(ctx, ["compile", "hi.asm", dest], cwd=cd)
            data = open(os.path.join(cd, dest), "rb").read() if os.path.exists(os.path.join(cd, dest)) else None
            r = lace(ctx, ["run", dest, "--minimal"], cwd=cd) if data is not None else None
            out.append((dest, c, data, r))
        return kind, first, out, sorted(os.listdir(cd))
    kinds = ["dest_is_directory", "dest_dir_missing", "source_rejected", "killed_by_file_size_limit", "dev_full"]
    for kind, first, outs, listing in pmap(history, kinds):
        for dest, c, data, r in outs:
            res.evaluations += 1
            res.cls("round_trip_after_a_failed_compile")
            res.cls("after:" + kind)
            detail = {"first_compile": first.brief() if first else None, "second_compile": c.brief(), "directory_afterwards": listing,
                      "destination": dest, "expected_bytes": len(want), "bytes": None if data is None else len(data)}
            if first is not None and first.rc == 0:
                res.inconclusive["the compile that was meant to fail (%s) succeeded" % kind] = 1
                continue
            if c.rc != 0 or data != want:
                res.violate("C06/after-failed-compile/object", "after a compile that failed (%s), `lace compile hi.asm %s` exits %s and leaves %s bytes; the object file is %d bytes"
                            % (kind, dest, c.rc, None if data is None else len(data), len(want)), detail)
            elif r is None or r.rc != 0 or b"round trip" not in r.out:
                res.violate("C06/after-failed-compile/run", "the object file written after a failed compile (%s) does not run like the source (exit %s)" % (kind, None if r is None else r.rc), detail)


def outcome(r):
    if r.rc is None or r.crashed:
        return "crash"
    return "ok" if r.rc == 0 else "diagnostic"


def c07(ctx, res):
    cp = corpus(ctx)
    d = _dir(ctx, "c07")
    cases = []
    forms = set()
    for e in cp["emit_fail"]:
        cases.append((e["source"], e["stack"], "emit_fail"))
        forms.add(e["form"].replace("_tight", ""))
        if e["form"].endswith("_tight"):
            res.cls("emit_fail_minimal_program")
    res.extra["emit_fail_forms"] = sorted(forms)
    for f in ("BR", "LD", "LDI", "LEA", "ST", "STI", "JSR", "CALL"):
        if f in forms:
            res.cls("emit_fail_form:" + f)
    for e in cp["mixed"]:
        cases.append((e["source"], e["uses_stack_ext"], "mixed:" + e["verdict"]))
        if e["uses_stack_ext"]:
            cases.append((e["source"], False, "stack_ext_without_flag"))
    for e in cp["top_of_memory"]:
        cases.append((e["source"], False, "top_of_memory"))
    for e in cp["structured"][:40 if not ctx.thorough() else 600]:
        cases.append((e["source"], e["stack"], "valid"))
    if not ctx.thorough():
        cases = cases[:190]
    # one small source per *reason* for rejection, at every stage of the pipeline (lexer,
    # preprocessor, parser, symbol resolution, emission): the three commands have to agree on
    # each, whatever path the diagnostic takes. No reference verdict is needed: agreement is the oracle.
    refs = [("br", "br %s"), ("brnzp", "BRnzp %s"), ("ld", "ld r0 %s"), ("ldi", "ldi r1, %s"), ("lea", "lea r2 %s"),
            ("st", "st r3 %s"), ("sti", "sti r4 %s"), ("jsr", "jsr %s")]
    for mn, form in refs:
        cases.append((form % "nowhere" + "\nhalt\n", False, "reason:undefined_label"))
        cases.append(("here add r0 r0 #1\n" + form % "Here" + "\nhalt\n", False, "reason:undefined_label"))
        cases.append((".orig x4000\nhalt\n" + form % "nowhere" + "\n", False, "reason:undefined_label"))
    cases.append(("call nowhere\nhalt\n", True, "reason:undefined_label"))
    for text in (".orig x3000\nadd r0 r0 #1\n.orig x4000\nhalt\n", ".orig x3000\n.orig x3000\nhalt\n",
                 "halt\n.orig x3000\n.ORIG x5000\n", ".orig x3000\nlea r0 s\nputs\nhalt\n.orig x3100\ns .stringz \"x\"\n"):
        cases.append((text, False, "reason:origin_twice"))
    for text in ("dup add r0 r0 #1\ndup halt\n", "a halt\nb halt\na .fill #1\n", "x1 halt\n", "loop br loop\nloop: halt\n"):
        cases.append((text, False, "reason:duplicate_or_bad_label"))
    for text in ("add r0 r0\nhalt\n", "add r0 #1 r0\n", "ld r0\n", "not r1\nhalt\n", "jmp\n", "trap\n", "lonely\n", "ldr r0 r1\n",
                 "frob r0 r0\n", ".orig\nhalt\n", "halt halt extra #1\n", "add r0 r0 r0 r0\n", "ret r1\n", "r0 add r0 r0 r0\n"):
        cases.append((text, False, "reason:syntax"))
    for text in (".stringz 5\n", ".blkw \"a\"\n", ".fill\n", ".fill nowhere\n", ".blkw\n", ".stringz\n", ".blkw #-1\n", ".fill x10000\n", ".blkw x10000\n"):
        cases.append((text, False, "reason:directive_operand"))
    for text in ("lab .stringz \"unterminated\nhalt\n", "add r0 r0 #1x\n", "add r0 r0 x\n", "add r0 r0 #\n", "ld r0 0x\n", "add r9 r0 r0\n",
                 "\"stray\"\n", "add r0 r0 #99999999999\n", "halt \\\n", "add r0, r0, #1 ; ok\n@\n",
                 "\ufeffadd r0 r0 #1\nhalt\n", "\ufeff.orig x3000\nhalt\n", "add r0 r0 #1\r\nhalt\r\n\x1a", "halt\n\x00"):
        cases.append((text, False, "reason:lexical"))
    for text in ("add r0 r0 #16\n", "add r0 r0 #-17\n", "trap x100\n", "ldr r0 r1 #32\n", "and r0 r0 x20\n", "br #256\n", "jsr #1024\n", "ld r0 #-257\n",
                 ".orig x10000\nhalt\n", "trap #-1\n"):
        cases.append((text, False, "reason:operand_range"))
    for text in ("push r0\n", "pop r1\nhalt\n", "call f\nhalt\nf rets\n", "rets\n", "PUSH R0\n"):
        cases.append((text, False, "reason:stack_extension_off"))
    # sources that produce no word at all
    for text in ("", "\n", "; only a comment\n", ".orig x3000\n", ".orig x3000\n.end\n", ".end\n", ".break\n", ".blkw #0\n", ".end\nhalt\n", "   \n\t\n"):
        cases.append((text, False, "empty_program"))
    # the largest programs there are: 65535 statements from origin 0, and images whose last word is xFFFE
    for text in (".orig x0000\nhalt\n.blkw xFFFE\n", ".orig x0000\nhalt\n.blkw xFFFD\n", ".orig x0001\nhalt\n.blkw xFFFD\n", "halt\n.blkw xCFFE\n",
                 ".orig xFFFE\nhalt\n", ".orig x0000\nhalt\n.blkw xFFFF\n", ".orig x0002\nhalt\n.blkw xFFFD\n"):
        cases.append((text, False, "largest_program"))
    # the same statement twice in a row, the first at the very edge of its field: the second is one word out of reach
    for text in ("far .fill x0\n.blkw xFE\nld r0, far\nld r0, far\n", "far .fill x0\n.blkw xFE\nbrnzp far\nbrnzp far\n", "st r1 far\nst r1 far\n.blkw xFE\nfar .fill x0\n",
                 "far ret\n.blkw x3FE\njsr far\njsr far\n", "far .fill x0\n.blkw xFD\nlea r0 far\nlea r0 far\nlea r0 far\n"):
        cases.append((text, False, "reason:second_of_two_equal_statements_out_of_reach"))
    # sources of more than a mebibyte (comments and blank lines) whose only error - or whose only statements - come last
    pad = "; " + "x" * 60 + "\n"
    big = pad * 18000
    for tail in ("ld r0 far\n.blkw #300\nfar .fill x1\n", "add r0 r0 #99\n", "br nowhere\n", "halt\n", ".stringz \"open\n"):
        cases.append((big + "halt\n" + pad * 40 + tail, False, "verdict_decided_behind_the_first_mebibyte"))
    # the feature flag written in front of the subcommand (`lace -f stack check x.asm`): whatever it
    # means there, it means the same to check, compile and run
    for text in ("push r0\npop r1\nhalt\n", "call f\nhalt\nf rets\n", "add r0 r0 #1\nhalt\n", "PUSH R1\n"):
        cases.append((text, "front", "flag_before_subcommand"))
    for text in cp["fuzz"][:120 if not ctx.thorough() else 2000]:
        cases.append((text, False, "fuzz"))
        if any(m in text.lower() for m in ("push", "pop", "call", "rets")):
            cases.append((text, True, "fuzz"))

    # a file that is not text at all (not UTF-8, even length), under names with and without the usual
    # extension: nothing to assemble, for any of the three
    for ext in ("asm", "s", "txt", "none"):
        cases.append((b"; caf\xe9 \n\xff\xfe halt\n\x80\n", "name:" + ext, "not_utf8"))
        cases.append((b"\xe9\xe9", "name:" + ext, "not_utf8"))

    shm = "/dev/shm" if os.path.isdir("/dev/shm") and os.stat("/dev/shm").st_dev != os.stat(d).st_dev else "/var/tmp"
    ENVS = [None, None, None, None, {"TMPDIR": shm}, None, None, {"TMPDIR": "/nonexistent/tmp"}, {"LC_ALL": "C", "HOME": "/nonexistent/home"}]

    def one(ix):
        src, stack, tag = cases[ix]
        name = "s%d.asm" % ix
        if isinstance(stack, str) and stack.startswith("name:"):
            ext = stack[5:]
            name = "s%d" % ix if ext == "none" else "s%d.%s" % (ix, ext)
            stack = False
        _write(os.path.join(d, name), src)
        if ix % 4 == 1 and name.endswith(".asm"):
            # an object file of some other, valid program lies under the same stem (newer than the source): the
            # three commands are asked about the text, not about what an earlier compile left behind
            old = time.time() - 3600
            os.utime(os.path.join(d, name), (old, old))
            _write(os.path.join(d, "s%d.lc3" % ix), bytes.fromhex("3000e002f022f0250053005400000000"))
        if ix % 4 == 3:
            # earlier invocations that came to nothing, aimed at the same destination: a source that is not there
            # (yet), one that is not text, a directory, a source with an error. What the three commands say
            # about *this* text afterwards is the same as without that history.
            kind = (ix // 4) % 4
            pre = "s%d.earlier.asm" % ix
            if kind == 1:
                _write(os.path.join(d, pre), b"halt\n\xff\xfe\n")
            elif kind == 2:
                os.makedirs(os.path.join(d, pre), exist_ok=True)
            elif kind == 3:
                _write(os.path.join(d, pre), "add r0 r0 #99\n")
            lace(ctx, ["compile", pre, "s%d.lc3" % ix], cwd=d)
            lace(ctx, ["check", pre], cwd=d)
        f = ["-f", "stack"] if stack else []
        if stack == "front":
            g = ["-f", "stack"]
            chk = lace(ctx, g + ["check", name], cwd=d)
            cmpl = lace(ctx, g + ["compile", name, "s%d.lc3" % ix], cwd=d)
            run = lace(ctx, g + ["run", name, "--minimal"], cwd=d, stdin=b"", timeout=6)
            return ix, chk, cmpl, run
        # some of the cases under another TMPDIR (a directory on another file system, one that does not
        # exist) and locale: none of that is the source's business
        env = ENVS[ix % 9] if ix % 9 < len(ENVS) else None
        chk = lace(ctx, ["check", name] + f, cwd=d, env=env)
        cmpl = lace(ctx, ["compile", name, "s%d.lc3" % ix] + f, cwd=d, env=env)
        run = lace(ctx, ["run", name, "--minimal"] + f, cwd=d, stdin=b"", timeout=6, env=env)
        return ix, chk, cmpl, run
    for ix in range(len(cases)):
        if ix % 9 < len(ENVS) and ENVS[ix % 9]:
            res.cls("environment:" + "+".join(sorted(ENVS[ix % 9])))
        if ix % 4 == 3:
            res.cls("after_an_earlier_failed_invocation:" + ("source_absent", "source_not_text", "source_is_a_directory", "source_invalid")[(ix // 4) % 4])
    for ix, chk, cmpl, run in pmap(one, range(len(cases))):
        src, stack, tag = cases[ix]
        res.evaluations += 1
        res.distinct += 1
        res.cls("tag:" + tag.split(":")[0])
        if isinstance(src, bytes):
            src = src.decode("latin-1")
        if isinstance(stack, str) and stack.startswith("name:"):
            res.cls("file_name:" + stack[5:])
            stack = False
        res.cls("flag:" + ("before_subcommand" if stack == "front" else "stack" if stack else "none"))
        oc, om = outcome(chk), outcome(cmpl)
        detail = {"source": src[-1500:], "stack_flag": stack, "tag": tag, "check": chk.brief(), "compile": cmpl.brief()}
        if "crash" in (oc, om):
            who = "check" if oc == "crash" else "compile"
            res.violate("C07/crash/%s/%s" % (who, tag.split(":")[0]), "`lace %s` crashed (exit %s)" % (who, (chk if oc == "crash" else cmpl).rc), detail)
            continue
        if oc == "ok" and om != "ok":
            res.violate("C07/check-ok-compile-fails/" + tag.split(":")[0], "`lace check` reports success but `lace compile` rejects the source", detail)
            continue
        if om == "diagnostic" and oc == "ok":
            continue
        if om == "diagnostic":
            res.cls("both_reject")
            if tag.startswith("reason:"):
                res.cls("both_reject:" + tag[7:])
            # run must not accept what compile rejects (it may fail later at run time for other reasons)
            if _run_assembled(run):
                detail["run"] = run.brief()
                res.violate("C07/compile-fails-run-assembles/" + tag.split(":")[0], "`lace compile` rejects the source but `lace run` assembled and started it", detail)
        else:
            res.cls("both_accept")
            if oc != "ok":
                res.violate("C07/compile-ok-check-fails/" + tag.split(":")[0], "`lace compile` succeeds but `lace check` reports an error", detail)
            elif not _run_assembled(run) and run.rc is not None:
                detail["run"] = run.brief()
                res.violate("C07/compile-ok-run-rejects/" + tag.split(":")[0], "`lace compile` succeeds but `lace run` reports an assembly error", detail)
        if ix % 40 == 0:
            res.samples.append({"source": src[:400], "stack_flag": stack, "check": oc, "compile": om, "run_exit": run.rc})
    res.require(["tag:emit_fail", "tag:mixed", "tag:valid", "tag:top_of_memory", "tag:stack_ext_without_flag", "flag:stack", "flag:none",
                 "both_accept", "both_reject", "emit_fail_minimal_program", "tag:fuzz", "tag:empty_program", "tag:flag_before_subcommand", "tag:not_utf8", "file_name:s", "file_name:none",
                 "tag:verdict_decided_behind_the_first_mebibyte", "after_an_earlier_failed_invocation:source_absent", "after_an_earlier_failed_invocation:source_not_text", "after_an_earlier_failed_invocation:source_is_a_directory"]
                + ["both_reject:" + r for r in ("undefined_label", "origin_twice", "duplicate_or_bad_label", "syntax", "directive_operand",
                                                "lexical", "operand_range", "stack_extension_off")] + ["emit_fail_form:" + f for f in ("BR", "LD", "LDI", "LEA", "ST", "STI", "JSR", "CALL")], "L2")
    # ---- watch: every re-check equals a fresh check
    hist_n = 1 if not ctx.thorough() else 12
    for h in range(hist_n):
        watch_history(ctx, res, cp, "C07", h, length=7)
    watch_history(ctx, res, cp, "C07", 50, stack=True)
    res.require(["watch_recheck", "watch_recheck_with_stack_flag", "watch_rewrite_by_rename_with_old_mtime"], "L2")
    return res


def _run_assembled(run):
    """`lace run` got past assembling: it started the program, or failed in the loader / VM
    (an `exception:` line or the stack-feature halt), which is not an assembly verdict."""
    return (b"Running" in run.out or b"exception:" in run.err or b"reserved instruction" in run.err
            or b"end of input" in run.err)


CLEAR = re.compile(r"\x1b\[2J\x1b\[2;1H")


def watch_history(ctx, res, cp, prop, h, length=5, stack=False, ext_sources=False, symlinked=False):
    """Run `lace watch` on a file, rewrite it through a history of sources, compare each re-check
    with a fresh `lace check` of the same text."""
    import random
    rnd = random.Random(ctx.seed * 131 + h)
    d = _dir(ctx, "watch%d" % h)
    pool = [(e["source"], e["uses_stack_ext"]) for e in cp["mixed"] if stack or not e["uses_stack_ext"]]
    if stack:
        pool.append(("push r0\npop r1\ncall f\nhalt\nf rets\n", True))
    pool += [(e["source"], False) for e in cp["emit_fail"] if not e["stack"]]
    # sources sharing label names with their predecessor, and one failing after labels were recorded
    pool.append(("dup add r0 r0 #1\ndup add r0 r0 #2\n", False))
    pool.append(("loop add r0 r0 #1\nbr loop\nhalt\n", False))
    pool.append(("loop add r0 r0 #1\nbrz nowhere\nhalt\n", False))
    pool.append(("loop add r0 r0 #1\nadd r0 r0 #99\n", False))
    pool.append(("lab .stringz \"unterminated\nhalt\n", False))
    hist = [rnd.choice(pool)[0] for _ in range(length)]
    # make sure a valid source follows an invalid one with the same labels at least once
    # a source saved with a byte-order mark, otherwise valid: whatever the verdict, it is the same everywhere
    hist[0] = "\ufeffstart add r0 r0 #1\nhalt\n"
    hist[1] = "loop add r0 r0 #1\nadd r0 r0 #99\n"
    hist[2] = "loop add r0 r0 #1\nbr loop\nhalt\n"
    # ... and an invalid one arrives after a valid one as an *older* file moved into place (a restored
    # backup: rename keeps the old modification time)
    # ... and it is the previous version with the label's definition gone and a use left behind: the label
    # the previous re-check resolved last is exactly the one that no longer exists
    hist[3] = "add r0 r0 #1\nbr loop\nhalt\n"
    old_mtime_steps = {3}
    if length >= 5 and not stack and not ext_sources:
        # ... followed by a repaired version of exactly the same length, moved into place with exactly the same
        # (old) modification time: size and date say nothing about what a file holds
        hist[4] = "add r0 r0 #1\nbr #-2 \nhalt\n"
        assert len(hist[4]) == len(hist[3])
        old_mtime_steps = {3, 4}
    if length >= 6:
        hist[5] = "loop add r0 r0 #1\nbrz nowhere\nhalt\n"
    if length >= 7:
        # an empty file is a valid program (nothing but the implicit HALT); here it follows a version that is not
        hist[6] = ""
    first_text = "halt\n"
    if prop == "C19" and not symlinked and not stack:
        # the file already has a label when `watch` starts, and the first version saved keeps it
        first_text = "start add r0 r0 #1\nhalt\n"
        hist[0] = "start add r0 r0 #3\nbrp start\nhalt\n"
    # a version written to a temporary file in the watched folder itself, left there for two seconds, then renamed
    # over the watched file (what many editors do)
    infolder_steps = {2} if not symlinked else set()
    # ... and last of all a version that is not text at all (not UTF-8): an error for a fresh check, and whatever
    # `watch` makes of it, it is not "no errors found"
    if length >= 7 and not stack and not ext_sources:
        # a version that draws a warning (a negative count) and then fails, followed by a clean one: what is said
        # about a version is said about that version - warnings included, no more and no fewer than a fresh check gives
        hist.append("buf .blkw #-3\nadd r0 r0 #99\n")
        # ... saved once more as it is: the same text, the same report, in full
        hist.append("buf .blkw #-3\nadd r0 r0 #99\n")
        hist.append("add r0 r0 #1\nhalt\n")
        hist.append("buf .blkw #-2\nhalt\n")
        res.cls("watch_version_with_a_warning")
        # a version of more than 128 KiB (comments) whose last line defines the label its first line uses
        hist.append("lea r0 msg\nputs\nhalt\n" + ("; " + "-" * 70 + "\n") * 2000 + "msg .stringz \"hi\"\n")
        hist.append("lea r0 msg\nputs\nhalt\n" + ("; " + "-" * 70 + "\n") * 2000 + "msg_ .stringz \"hi\"\n")
    hist.append(b"; caf\xe9\nloop add r0 r0 #1\nhalt\n")
    path = os.path.join(d, "w.asm")
    if symlinked:
        # the watched name is a symbolic link; versions alternate between two files and the link is
        # pointed at the other one each time: what the name means is looked up at every re-check
        targets = [os.path.join(d, "version_a.asm"), os.path.join(d, "version_b.asm")]
        for t in targets:
            _write(t, "halt\n")
        os.symlink("version_a.asm", path)
        old_mtime_steps = set()
    else:
        _write(path, first_text)
    exe = common.cli_bin(ctx)
    env = dict(common.ENV, NO_COLOR="1")
    # the log and the files for the fresh checks live OUTSIDE the watched directory: every write
    # inside it would trigger another re-check
    side = _dir(ctx, "watchside%d" % h)
    logpath = os.path.join(side, "watch.out")
    log = open(logpath, "wb")
    fl = ["-f", "stack"] if stack else []
    if stack:
        hist[4 % length] = "push r0\npop r1\ncall f\nhalt\nf rets\n"
    elif ext_sources:
        # sources using the extension, watched WITHOUT the flag: rejected naming the feature, every time
        hist[0] = "push r0\npop r1\nhalt\n"
        hist[4 % length] = "call f\nhalt\nf rets\n"
    # another source in the same folder, there before `watch` starts: saving *it* says nothing about w.asm
    sibling = os.path.join(d, "other.asm")
    _write(sibling, "halt\n")
    sibling_steps = set()
    if length >= 7 and not symlinked and not stack and not ext_sources:
        # (the step shows the text of the version before it; what is written goes to the sibling)
        sibling_steps = {1, 5}
    p = subprocess.Popen([exe, "watch", "w.asm"] + fl, cwd=d, stdin=subprocess.DEVNULL, stdout=log,
                         stderr=subprocess.STDOUT, env=env)
    ignored_steps = set()
    idle_after_save = set()
    sibling_segments = {}
    try:
        time.sleep(1.0)
        segments = []
        offsets = []
        for k, src in enumerate(hist):
            before = os.path.getsize(logpath)
            offsets.append(before)
            if symlinked:
                t = targets[(k + 1) % 2]
                _write(t, src)
                time.sleep(0.7)
                tmpl = os.path.join(side, "newlink")
                if os.path.lexists(tmpl):
                    os.remove(tmpl)
                os.symlink(os.path.basename(t), tmpl)
                os.replace(tmpl, path)
                time.sleep(0.3)
                before = os.path.getsize(logpath)
                _write(t, src)
                res.cls("watch_through_a_symlink_pointed_elsewhere")
            elif k in infolder_steps:
                tmp = os.path.join(d, ".w.asm.swp~")
                _write(tmp, src)
                time.sleep(2.2)
                before = os.path.getsize(logpath)
                os.replace(tmp, path)
                res.cls("watch_rewrite_by_rename_within_the_folder")
            elif k in old_mtime_steps:
                tmp = os.path.join(side, "restored.asm")
                _write(tmp, src)
                os.utime(tmp, (946684800, 946684800))
                os.replace(tmp, path)
                res.cls("watch_rewrite_by_rename_with_old_mtime")
            else:
                _write(path, src)
            # wait for a complete re-check (the output settles)
            deadline = time.time() + 8
            last = -1
            while time.time() < deadline:
                time.sleep(0.4)
                size = os.path.getsize(logpath)
                if size > before and size == last:
                    break
                last = size
            out = open(logpath, "rb").read()[before:].decode("utf-8", "replace")
            if k in infolder_steps and "Re-checking" not in out:
                for _again in range(2):
                    tmp = os.path.join(d, ".w.asm.swp~")
                    _write(tmp, src)
                    time.sleep(2.2)
                    os.replace(tmp, path)
                    time.sleep(3)
                    out = open(logpath, "rb").read()[before:].decode("utf-8", "replace")
                    if "Re-checking" in out:
                        break
                if "Re-checking" not in out:
                    ignored_steps.add(k)
            if not symlinked and k not in infolder_steps and k not in old_mtime_steps and "Re-checking" not in out:
                # an ordinary save that drew no re-check. Is the watcher still working on it, or has it gone back to
                # sleep (asleep, its CPU time standing still for twelve half seconds)? The latter, seen after three
                # different saves of one history, is a watcher that lets saves pass - not an event lost once.
                still, last = 0, None
                for _ in range(40):
                    time.sleep(0.5)
                    st = _asleep(p.pid)
                    if st and st[0] == "S" and st == last:
                        still += 1
                        if still >= 12:
                            break
                    else:
                        still = 0
                    last = st
                out = open(logpath, "rb").read()[before:].decode("utf-8", "replace")
                if still >= 12 and "Re-checking" not in out:
                    idle_after_save.add(k)
            if not symlinked and k not in infolder_steps and k not in old_mtime_steps and "Re-checking" not in out:
                # ... saved twice more (an event may be lost once)
                for _again in range(2):
                    _write(path, src)
                    time.sleep(4)
                    out = open(logpath, "rb").read()[before:].decode("utf-8", "replace")
                    if "Re-checking" in out:
                        break
                if "Re-checking" not in out:
                    ignored_steps.add(k)
            if k in old_mtime_steps and "Re-checking" not in out:
                # no re-check for a file moved into place? the same delivery twice more (a lost event is possible
                # once; three times in a row it is the watcher that ignores the change)
                for _again in range(2):
                    tmp = os.path.join(side, "restored.asm")
                    _write(tmp, src)
                    os.utime(tmp, (946684800, 946684800))
                    os.replace(tmp, path)
                    time.sleep(4)
                    out = open(logpath, "rb").read()[before:].decode("utf-8", "replace")
                    if "Re-checking" in out:
                        break
                if "Re-checking" not in out:
                    ignored_steps.add(k)
            segments.append(out)
            if k in sibling_steps and isinstance(src, str) and p.poll() is None:
                # the other file of the folder is saved, first with an error in it, then without: whatever `watch`
                # shows afterwards is still about w.asm
                shown = ""
                for text in ("add r0 r0 #99\n", "halt\n"):
                    mark = os.path.getsize(logpath)
                    _write(sibling, text)
                    time.sleep(2.5)
                    shown += "\x00" + open(logpath, "rb").read()[mark:].decode("utf-8", "replace")
                sibling_segments[k] = shown
                res.cls("watch_sibling_file_saved")
        alive = p.poll() is None
        died_rc = p.returncode
    finally:
        p.send_signal(signal.SIGINT)
        try:
            p.wait(timeout=3)
        except subprocess.TimeoutExpired:
            p.kill()
        log.close()
    if len(idle_after_save) >= 3:
        res.violate("%s/watch-lets-saves-pass" % prop,
                    "versions %s were each saved and drew no re-check while `lace watch` went back to sleep (asleep, CPU time standing still for six seconds); only saving them again brought one"
                    % sorted(x + 1 for x in idle_after_save), {"history": [h if isinstance(h, str) else repr(h) for h in hist]})
    shown_ok = None   # the verdict of the latest re-check seen so far
    for k, (src, seg) in enumerate(zip(hist, segments)):
        res.evaluations += 1
        res.cls("watch_recheck")
        if stack:
            res.cls("watch_recheck_with_stack_flag")
        fresh_name = "fresh%d.asm" % k
        _write(os.path.join(side, fresh_name), src)
        fresh = lace(ctx, ["check", fresh_name] + fl, cwd=side)
        fresh_ok = fresh.rc == 0
        checks = [s for s in CLEAR.split(seg) if "Re-checking" in s]
        detail = {"history": [h if isinstance(h, str) else repr(h) for h in hist[:k + 1]], "watch_output": seg[-800:], "fresh_check": fresh.brief()}
        if not checks and k in ignored_steps and shown_ok is not None and shown_ok != fresh_ok:
            # the new text was moved into place three times and never looked at: what `watch` shows is the
            # verdict on a text that is gone
            res.violate("%s/watch-ignores-a-change" % prop,
                        "version #%d was saved three times without any re-check; `lace watch` still shows %s, a fresh `lace check` of the file reports %s"
                        % (k + 1, "success" if shown_ok else "an error", "success" if fresh_ok else "an error"), detail)
            continue
        if not checks:
            res.inconclusive["watch produced no re-check for a rewrite"] = res.inconclusive.get("watch produced no re-check for a rewrite", 0) + 1
            continue
        lastc = checks[-1]
        watch_ok = "no errors found" in lastc
        # (a file that cannot be read as text makes `watch` report that and give up: an error all the same)
        watch_err = "Error" in lastc or "×" in lastc or "Exiting..." in lastc
        if watch_ok == watch_err and not watch_ok:
            # neither a success line nor an error in what was captured for this step: look at everything `watch` printed
            # between this save and the next (the session is over, nothing more will come)
            whole = open(logpath, "rb").read()
            part = whole[offsets[k]:offsets[k + 1] if k + 1 < len(offsets) else len(whole)].decode("utf-8", "replace")
            later = [s2 for s2 in CLEAR.split(part) if "Re-checking" in s2]
            if later:
                lastc = later[-1]
                watch_ok = "no errors found" in lastc
                watch_err = "Error" in lastc or "\u00d7" in lastc or "Exiting..." in lastc
            if not watch_ok and not watch_err:
                res.violate("%s/watch-re-check-shows-no-verdict" % prop,
                            "re-check #%d of `lace watch` shows neither success nor an error; a fresh `lace check` of the same text reports %s" % (k + 1, "success" if fresh_ok else "an error"),
                            dict(detail, whole_output_for_this_version=part[-800:]))
                continue
        if watch_ok == watch_err:
            res.inconclusive["watch output not understood"] = 1
            continue
        shown_ok = watch_ok
        for part in sibling_segments.get(k, "").split("\x00"):
            sib = [s2 for s2 in CLEAR.split(part) if "Re-checking" in s2]
            if sib and watch_ok == fresh_ok:
                sib_ok, sib_err = "no errors found" in sib[-1], ("Error" in sib[-1] or "\u00d7" in sib[-1])
                if sib_ok != sib_err and sib_ok != fresh_ok:
                    res.violate("%s/watch-shows-another-files-verdict" % prop,
                                "after another file of the folder was saved, `lace watch w.asm` shows %s; w.asm has not changed and a fresh `lace check` of it reports %s"
                                % ("success" if sib_ok else "an error", "success" if fresh_ok else "an error"), dict(detail, after_sibling_save=sib[-1][-500:]))
                    break
        warn_w, warn_f = lastc.count("\u26a0"), (fresh.out + fresh.err).decode("utf-8", "replace").count("\u26a0")
        if watch_ok == fresh_ok and warn_w != warn_f:
            res.violate("%s/watch-warnings-differ-from-fresh-check" % prop,
                        "re-check #%d of `lace watch` shows %d warning(s), a fresh `lace check` of the same text %d" % (k + 1, warn_w, warn_f), detail)
            continue
        if watch_ok != fresh_ok:
            res.violate("%s/watch-differs-from-fresh-check" % prop,
                        "re-check #%d of `lace watch` reports %s, a fresh `lace check` of the same text reports %s"
                        % (k + 1, "success" if watch_ok else "an error", "success" if fresh_ok else "an error"), detail)
        elif not fresh_ok:
            # same diagnostic code
            # (the code of the error: the last one printed - warnings, which carry codes too, come before it)
            code_w = re.findall(r"(?:lex|parse|preproc)::\w+", lastc)
            code_f = re.findall(r"(?:lex|parse|preproc)::\w+", fresh.err.decode("utf-8", "replace"))
            if code_w and code_f and code_w[-1] != code_f[-1]:
                res.violate("%s/watch-diagnostic-differs" % prop,
                            "re-check #%d reports %s, a fresh check %s" % (k + 1, code_w[-1], code_f[-1]), detail)
    if not alive and isinstance(hist[-1], bytes) and len(segments) == len(hist) and "Exiting..." in segments[-1]:
        pass    # gave up on the last version, which cannot be read as text: said so, and that is an error report
    elif not alive:
        if died_rc is not None and died_rc < 0:
            # killed from outside (signal): says nothing about lace
            res.inconclusive["lace watch was killed by signal %d" % -died_rc] = 1
        else:
            res.violate("%s/watch-died" % prop, "`lace watch` exited (status %s) during the history" % died_rc, {"history": [h if isinstance(h, str) else repr(h) for h in hist]})


# ------------------------------------------------------------------ C04 (L2 sample)

def c04_cli(ctx, res):
    """The exit status of `lace compile` against the reference verdict (and the bytes written against
    the reference image), plus a `lace watch` history: the accept/reject verdict of a source must not
    depend on what the same process assembled before."""
    cp = corpus(ctx)
    d = _dir(ctx, "c04")
    cases = cp["mixed"][:80 if not ctx.thorough() else 1500]
    # sources whose only fault is a label out of reach of its field (found when words are emitted)
    cases = cases + [{"source": e["source"], "uses_stack_ext": e["stack"], "verdict": "reject", "tag": "label_out_of_reach:" + e["form"], "image": None}
                     for e in cp["emit_fail"][:40 if not ctx.thorough() else 400]]

    def one(ix):
        e = cases[ix]
        name = "m%d.asm" % ix
        _write(os.path.join(d, name), e["source"])
        f = ["-f", "stack"] if e["uses_stack_ext"] else []
        return ix, lace(ctx, ["compile", name, "m%d.lc3" % ix] + f, cwd=d), lace(ctx, ["check", name] + f, cwd=d)
    for ix, r, chk in pmap(one, range(len(cases))):
        e = cases[ix]
        res.evaluations += 1
        # `lace check` is the same acceptance question asked without writing anything
        res.cls("l2:check:" + e["verdict"])
        if e["tag"].startswith("label_out_of_reach"):
            res.cls("l2:label_out_of_reach")
        cdetail = dict(chk.brief(), source=e["source"][-800:], reference_verdict=e["verdict"], tag=e["tag"])
        if chk.rc is None or chk.crashed:
            res.violate("C04/cli/crash", "`lace check` crashed (exit %s)" % chk.rc, cdetail)
        elif e["verdict"] == "reject" and chk.rc == 0:
            res.violate("C04/cli/check-accepted-invalid", "`lace check` reports success for a program the reference predicate rejects", cdetail)
        elif e["verdict"] == "accept" and chk.rc != 0:
            res.violate("C04/cli/check-rejected-valid", "`lace check` rejects a program whose operands all fit", cdetail)
        res.cls("l2:compile:" + e["verdict"])
        obj = os.path.join(d, "m%d.lc3" % ix)
        detail = dict(r.brief(), source=e["source"][-800:], reference_verdict=e["verdict"], tag=e["tag"])
        if r.rc is None or r.crashed:
            res.violate("C04/cli/crash", "`lace compile` crashed (exit %s)" % r.rc, detail)
        elif e["verdict"] == "reject" and r.rc == 0:
            res.violate("C04/cli/accepted-invalid", "`lace compile` exits 0 for a program the reference predicate rejects", detail)
        elif e["verdict"] == "accept" and r.rc != 0:
            res.violate("C04/cli/rejected-valid", "`lace compile` rejects a program whose operands all fit", detail)
        elif r.rc == 0 and e["image"] is not None:
            want = b"".join(int(w).to_bytes(2, "big") for w in e["image"])
            if not os.path.exists(obj) or open(obj, "rb").read() != want:
                res.violate("C04/cli/image", "`lace compile` accepted the program but did not write the reference image", detail)
    # `lace run` asks the same question before it runs anything, whatever else lies in the directory: a
    # (newer) object file with the same stem, left by an earlier `compile` of an earlier version of the
    # source, answers nothing about the text that is there now
    d2 = _dir(ctx, "c04_stale")
    _write(os.path.join(d2, "good.asm"), "lea r0 m\nputs\nhalt\nm .stringz \"STALE\"\n")
    r0 = lace(ctx, ["compile", "good.asm", "good.lc3"], cwd=d2)
    good_obj = open(os.path.join(d2, "good.lc3"), "rb").read() if r0.rc == 0 and os.path.exists(os.path.join(d2, "good.lc3")) else None
    rejected = [ix for ix in range(len(cases)) if cases[ix]["verdict"] == "reject"]
    rejected = rejected[:24] + rejected[-12:] if not ctx.thorough() else rejected[:300]

    def stale(ix):
        e = cases[ix]
        name = "s%d.asm" % ix
        _write(os.path.join(d2, name), e["source"])
        old = time.time() - 3600
        os.utime(os.path.join(d2, name), (old, old))
        for ext in (".lc3", ".obj"):
            _write(os.path.join(d2, "s%d%s" % (ix, ext)), good_obj)
        f = ["-f", "stack"] if e["uses_stack_ext"] else []
        return ix, lace(ctx, ["run", name, "--minimal"] + f, cwd=d2, timeout=30), lace(ctx, [name] + f, cwd=d2, timeout=30)
    if good_obj is None:
        res.inconclusive["the reference object file for the stale-object family could not be compiled"] = 1
    else:
        for ix, r, bare in pmap(stale, rejected):
            e = cases[ix]
            for how, rr in (("run", r), ("bare", bare)):
                res.evaluations += 1
                res.cls("l2:run_with_newer_object_file_of_the_same_stem")
                detail = dict(rr.brief(), source=e["source"][-800:], reference_verdict="reject", tag=e["tag"], invoked=how,
                              directory="a newer <stem>.lc3 and <stem>.obj of another (valid) program lie next to the source")
                if rr.rc is None or rr.crashed:
                    res.violate("C04/cli/crash", "`lace %s` crashed or hung (exit %s)" % (how, rr.rc), detail)
                elif rr.rc == 0 or b"STALE" in rr.out:
                    res.violate("C04/cli/run-accepted-invalid", "`lace %s` ran something (exit %s) for a source the reference predicate rejects" % (how, rr.rc), detail)
    watch_history(ctx, res, cp, "C04", 40)
    res.require(["l2:compile:accept", "l2:compile:reject", "l2:check:accept", "l2:check:reject", "l2:label_out_of_reach", "watch_recheck",
                 "l2:run_with_newer_object_file_of_the_same_stem"], "L2")


# ------------------------------------------------------------------ C08

def snapshot(path):
    if not os.path.lexists(path):
        return None
    st = os.lstat(path)
    if os.path.isdir(path):
        return ("dir",)
    if not os.path.isfile(path):
        return ("special", st.st_mode)
    return ("file", open(path, "rb").read())


def c08(ctx, res):
    cp = corpus(ctx)
    d = _dir(ctx, "c08")
    SENT = b"PREVIOUS CONTENTS\n" * 300  # longer than any object file written here
    # a device that takes no data: a private node like /dev/full (never the machine's own, see common.full_device)
    FULL = common.full_device(ctx)
    if FULL is None:
        res.inconclusive["no character device refusing writes could be set up (neither a private node nor /dev/full)"] = 1
    cases = []  # (kind, source, stack, dest_rel, pre_existing, expected image or None)
    for e in cp["emit_fail"]:
        for pre in (True, False):
            cases.append(("emit_fail@%d/%d" % (e["fail_position"], e["statements"]), e["source"], e["stack"], "out.lc3", pre, None))
    good = [e for e in cp["structured"] if len(e["image"]) < 60][:6 if not ctx.thorough() else 40]
    for e in cp["top_of_memory"]:
        img = b"".join(int(w).to_bytes(2, "big") for w in e["image"])
        for pre in (True, False):
            cases.append(("ok_top_of_memory", e["source"], False, "out.lc3", pre, img))
    for e in good:
        img = b"".join(int(w).to_bytes(2, "big") for w in e["image"])
        for pre in (True, False):
            cases.append(("ok", e["source"], e["stack"], "out.lc3", pre, img))
        if FULL:
            cases.append(("dev_full", e["source"], e["stack"], FULL, True, img))
        cases.append(("missing_parent", e["source"], e["stack"], "nodir/out.lc3", False, img))
        cases.append(("dest_is_directory", e["source"], e["stack"], "adir", True, img))
        cases.append(("readonly_dir", e["source"], e["stack"], "ro/out.lc3", False, img))

    # object files larger than one I/O block whose tail (or middle) is all zeros, and destinations
    # that already hold something of exactly the new object's size (written after the source)
    big = [("ok_big_zero_tail", "add r0 r0 #1\nhalt\nbuf .blkw #3000\n", [0x3000, 0x1021, 0xF025] + [0] * 3000),
           ("ok_big_zero_tail", "halt\nbuf .blkw #2047\n", [0x3000, 0xF025] + [0] * 2047),
           ("ok_big_zero_middle", "add r0 r0 #1\nbuf .blkw #5000\nhalt\n", [0x3000, 0x1021] + [0] * 5000 + [0xF025]),
           ("ok_big_zero_tail", ".orig x4000\nbuf .blkw #8192\n", [0x4000] + [0] * 8192)]
    for kind, src, words in big:
        img = b"".join(int(w).to_bytes(2, "big") for w in words)
        for pre in (True, False, "same_size"):
            cases.append((kind, src, False, "out.lc3", pre, img))
    for e in good[:3]:
        img = b"".join(int(w).to_bytes(2, "big") for w in e["image"])
        cases.append(("ok", e["source"], e["stack"], "out.lc3", "same_size", img))
    # no destination on the command line: the default (source name with .lc3, in the working directory)
    for e in cp["emit_fail"][:6]:
        for pre in (True, False):
            cases.append(("default_dest_emit_fail", e["source"], e["stack"], "DEFAULT", pre, None))
    for src in ("br nowhere\nhalt\n", "add r0 r0 #99\n", ".orig x3000\n.orig x3000\n", "lab .stringz \"open\n"):
        cases.append(("default_dest_other_failure", src, False, "DEFAULT", True, None))
    for e in good[:3]:
        img = b"".join(int(w).to_bytes(2, "big") for w in e["image"])
        for pre in (True, False):
            cases.append(("default_dest_ok", e["source"], e["stack"], "DEFAULT", pre, img))
    # sources that assemble to no word at all: the complete object is the origin word
    for src, origin in (("", 0x3000), ("\n\n", 0x3000), ("; nothing here\n", 0x3000), (".orig x4000\n", 0x4000), (".orig x4000\r\n.end\r\n", 0x4000),
                        (".end", 0x3000), (" \t \n", 0x3000), (".break\n", 0x3000)):
        for pre in (True, False):
            cases.append(("ok_no_statements", src, False, "out.lc3", pre, origin.to_bytes(2, "big")))
    # destination *names*: nothing in the property depends on how the path is spelt. '\udcff' is how
    # Python spells the byte 0xFF in a file name (surrogateescape): a name that is not valid UTF-8.
    names = [("name_spaces", "my out file.lc3"), ("name_no_extension", "out"), ("name_unicode", "caf\u00e9 \u20ac.lc3"),
             ("name_not_utf8", "out\udcff\udcfe.lc3"), ("name_long_ascii", "o" * 200 + ".lc3"),
             ("name_long_2byte", "\u00e9" * 40 + ".lc3"), ("name_long_2byte_odd", "a" + "\u00e9" * 40 + ".lc3"),
             ("name_long_3byte", "\u20ac" * 30 + ".lc3"), ("name_long_3byte_b", "ab" + "\u20ac" * 30 + ".lc3"),
             ("name_long_4byte", "\U0001F34B" * 20 + ".lc3"), ("name_long_4byte_b", "abc" + "\U0001F34B" * 20 + ".lc3"),
             ("name_long_mixed", "x\u00e9\u20ac\U0001F34B" * 9 + ".lc3")]
    for ni, (kind, name) in enumerate(names):
        e = good[ni % len(good)]
        img = b"".join(int(w).to_bytes(2, "big") for w in e["image"])
        for pre in (True, False):
            cases.append((kind, e["source"], e["stack"], name, pre, img))

    def one(ix):
        kind, src, stack, dest, pre, img = cases[ix]
        cd = os.path.join(d, "c%d" % ix)
        os.makedirs(cd, exist_ok=True)
        _write(os.path.join(cd, "in.asm"), src)
        dpath = dest if dest.startswith("/") else os.path.join(cd, "in.lc3" if dest == "DEFAULT" else dest)
        if kind == "dest_is_directory":
            os.makedirs(dpath, exist_ok=True)
        elif kind == "readonly_dir":
            os.makedirs(os.path.join(cd, "ro"), exist_ok=True)
        elif pre == "same_size" and not dest.startswith("/"):
            _write(dpath, b"\xAA" * len(img))
        elif pre and not dest.startswith("/"):
            _write(dpath, SENT)
        before = snapshot(dpath)
        wrapper = None
        if kind == "readonly_dir":
            # root ignores directory permissions: make the directory immutable-like via a file in place of it
            shutil.rmtree(os.path.join(cd, "ro"))
            _write(os.path.join(cd, "ro"), b"not a directory")
            before = snapshot(dpath)
        r = lace(ctx, ["compile", "in.asm"] + ([] if dest == "DEFAULT" else [dest]) + (["-f", "stack"] if stack else []), cwd=cd, wrapper=wrapper)
        after = snapshot(dpath)
        return ix, r, before, after
    for ix, r, before, after in pmap(one, range(len(cases))):
        kind, src, stack, dest, pre, img = cases[ix]
        res.evaluations += 1
        res.distinct += 1
        k0 = kind.split("@")[0]
        res.cls("fault:" + k0)
        res.cls("dest:" + ("pre-existing-same-size" if pre == "same_size" else "pre-existing" if pre else "absent"))
        dest = repr(os.fsencode(dest))[2:-1] if kind.startswith("name_") else dest
        detail = dict(r.brief(), source=src[-600:], fault=kind, destination=dest, destination_pre_existing=pre,
                      before=_snap_brief(before), after=_snap_brief(after))
        if r.rc is None or r.crashed:
            res.violate("C08/crash/" + k0, "`lace compile` crashed (exit %s) under fault %s" % (r.rc, kind), detail)
        elif r.rc == 0:
            if kind == "dev_full" and (before is None or before[0] != "special"):
                # the destination was not the device it was set up to be (somebody else's doing): nothing to conclude
                res.inconclusive["the full device was not a device when the case ran"] = res.inconclusive.get("the full device was not a device when the case ran", 0) + 1
            elif kind == "dev_full":
                res.violate("C08/exit-0-nothing-written/dev_full", "exit 0 although the destination device accepted no data", detail)
            elif after is None or after[0] != "file" or after[1] != img:
                res.violate("C08/exit-0-incomplete-file/" + k0, "exit 0 but the destination does not hold the complete object file", detail)
            else:
                res.cls("success_complete")
        else:
            if after != before:
                res.violate("C08/failed-but-destination-changed/" + k0,
                            "exit %s but the destination was %s" % (r.rc, "created" if before is None else "modified"), detail)
            else:
                res.cls("failure_destination_untouched")
        if ix % 25 == 0:
            res.samples.append({"fault": kind, "destination": dest, "pre_existing": pre, "exit": r.rc,
                                "before": _snap_brief(before), "after": _snap_brief(after)})
    # ---- strace: injected write errors on the k-th write of a successful compile
    c08_inject(ctx, res, good[:1 if not ctx.thorough() else 6], d)
    c08_fsize(ctx, res, big, d)
    c08_fifo(ctx, res, d)
    c08_removed_cwd(ctx, res, d)
    c08_surroundings(ctx, res, d)
    floors = ["surroundings:stdout_reader_gone", "surroundings:dest_mtime_in_the_future", "surroundings:compiled_all_the_same", "fault:emit_fail", "fault:ok", "fault:ok_top_of_memory", "fault:dev_full", "fault:missing_parent", "fault:dest_is_directory",
              "dest:pre-existing", "dest:absent", "success_complete", "failure_destination_untouched",
              "fault:name_not_utf8", "fault:name_long_2byte", "fault:name_long_3byte", "fault:name_long_4byte", "fault:name_long_ascii",
              "fault:ok_big_zero_tail", "fault:ok_big_zero_middle", "dest:pre-existing-same-size", "fault:file_size_limit", "file_size_limit:object_fits", "fault:ok_no_statements", "fault:fifo_reader_goes_away", "fault:default_dest_emit_fail", "fault:default_dest_ok", "fault:working_directory_removed"]
    res.require(floors, "L2")
    return res


def _snap_brief(s):
    if s is None:
        return "absent"
    if s[0] == "file":
        return "file %d bytes %s" % (len(s[1]), s[1][:24].hex())
    return s[0]


def c08_removed_cwd(ctx, res, d):
    """The working directory of the process has been removed (its parent is still reachable through
    `..`): whatever lace makes of that, the all-or-nothing rule holds for the destination."""
    exe = common.cli_bin(ctx)
    env = dict(common.ENV, NO_COLOR="1", XDG_CACHE_HOME=ctx.scratch)
    for k, (src, ok) in enumerate((("add r0 r0 #1\nhalt\n", True), ("add r0 r0 #99\n", False))):
        for pre in (True, False):
            base = os.path.join(d, "cwd%d_%d" % (k, pre))
            for sub in ("src", "out", "gone"):
                os.makedirs(os.path.join(base, sub), exist_ok=True)
            _write(os.path.join(base, "src", "p.asm"), src)
            dest = os.path.join(base, "out", "p.lc3")
            if pre:
                _write(dest, b"PREVIOUS CONTENTS\n")
            before = snapshot(dest)
            p = subprocess.run(["sh", "-c", 'rmdir "$PWD"; exec "$0" compile ../src/p.asm ../out/p.lc3', exe], cwd=os.path.join(base, "gone"),
                               env=env, stdin=subprocess.DEVNULL, stdout=subprocess.PIPE, stderr=subprocess.PIPE, timeout=60)
            after = snapshot(dest)
            res.evaluations += 1
            res.cls("fault:working_directory_removed")
            img = bytes.fromhex("30001021f025")
            detail = {"source": src, "exit": p.returncode, "stderr": p.stderr.decode("utf-8", "replace")[-300:], "before": _snap_brief(before), "after": _snap_brief(after)}
            if p.returncode == 101 or p.returncode < 0:
                res.violate("C08/crash/working_directory_removed", "`lace compile` crashed (exit %s) in a removed working directory" % p.returncode, detail)
            elif p.returncode == 0 and not (ok and after is not None and after[0] == "file" and after[1] == img):
                res.violate("C08/exit-0-incomplete-file/working_directory_removed", "exit 0 but the destination does not hold the complete object file", detail)
            elif p.returncode != 0 and after != before:
                res.violate("C08/failed-but-destination-changed/working_directory_removed",
                            "exit %s but the destination was %s" % (p.returncode, "created" if before is None else "modified"), detail)


_DIRECTIVE_LIKE_LABELS = ["end", "END", "End", "orig", "fill", "blkw", "stringz", "break", "org", "equ", "include", "macro", "endm", "text", "data", "global", "byte", "word", "db", "dw", "ds", "align"]


def c08_surroundings(ctx, res, d):
    """Things around a compile that are not the destination: standard output that takes no data (a full
    device, a pipe whose reader has gone), both streams closed, a destination whose modification time
    lies in the future, an odd TMPDIR. Whatever lace makes of them (refusing to start because it
    cannot print counts as failing), exit 0 means the complete object file is there and any other
    status means the destination is as it was. The process ending on a failed print (the runtime's
    own abort, status 101) is a failure like any other here, as long as the destination is untouched."""
    exe = common.cli_bin(ctx)
    env = dict(common.ENV, NO_COLOR="1", XDG_CACHE_HOME=ctx.scratch)
    src = "add r0 r0 #1\nhalt\n" + ".fill x4142\n" * 3000
    img = bytes.fromhex("30001021f025") + b"\x41\x42" * 3000
    full = common.full_device(ctx)
    other_fs = "/dev/shm" if os.path.isdir("/dev/shm") and os.stat("/dev/shm").st_dev != os.stat(d).st_dev else None
    kinds = ["stdout_full", "stdout_reader_gone", "streams_closed", "dest_mtime_in_the_future", "tmpdir_missing", "tmpdir_other_fs", "stdout_is_the_destination_dir",
             "source_in_another_directory", "256_failing_statements", "512_failing_statements", "255_failing_statements",
             "destination_locked_elsewhere", "destination_open_elsewhere", "reference_65500_words_away", "reference_minus_65300_words_away"] + \
            ["program_of_65535_statements", "program_of_40000_statements", "source_read_from_a_pipe", "failing_source_read_from_a_pipe", "case_twin_out_of_reach:FAR/far", "case_twin_out_of_reach:Far/far", "case_twin_out_of_reach:far/FAR",
             "case_twin_within_reach:Data/DATA"] + \
            ["failure_behind_a_label_named:" + n for n in _DIRECTIVE_LIKE_LABELS] + ["valid_program_with_a_label_named:" + n for n in _DIRECTIVE_LIKE_LABELS[:8]]
    for kind in kinds:
        for pre in (True, False):
            base = os.path.join(d, "sur_%s_%d" % (kind, pre))
            os.makedirs(base, exist_ok=True)
            _write(os.path.join(base, "p.asm"), src)
            dest = os.path.join(base, "p.lc3")
            if pre:
                _write(dest, b"PREVIOUS CONTENTS\n" * 10)
            e = dict(env)
            stdout, stderr, pre_fn = subprocess.PIPE, subprocess.PIPE, None
            opened = []
            if kind == "stdout_full":
                if not full:
                    continue
                stdout = open(full, "wb")
                opened.append(stdout)
            elif kind == "stdout_reader_gone":
                r_fd, w_fd = os.pipe()
                os.close(r_fd)
                stdout = os.fdopen(w_fd, "wb")
                opened.append(stdout)
            elif kind == "streams_closed":
                def pre_fn():
                    os.close(1)
                    os.close(2)
                stdout = stderr = None
            elif kind == "dest_mtime_in_the_future":
                if not pre:
                    continue
                t = time.time() + 3 * 3600
                os.utime(dest, (t, t))
            elif kind in ("destination_locked_elsewhere", "destination_open_elsewhere"):
                # somebody else has the old object open (and, in the first case, holds an advisory lock on it)
                if not pre:
                    continue
                import fcntl
                held = open(dest, "rb")
                opened.append(held)
                if kind == "destination_locked_elsewhere":
                    fcntl.flock(held, fcntl.LOCK_EX)
            elif kind == "tmpdir_missing":
                e["TMPDIR"] = os.path.join(base, "no", "such", "dir")
            elif kind == "tmpdir_other_fs":
                if not other_fs:
                    continue
                e["TMPDIR"] = other_fs
            elif kind == "stdout_is_the_destination_dir":
                stdout = open(os.path.join(base, "log.txt"), "wb")
                opened.append(stdout)
            argv = [exe, "compile", "p.asm", "p.lc3"]
            expect_ok = True
            if kind == "source_in_another_directory":
                # the source lies elsewhere, the destination is a plain relative name: it is created where lace runs
                os.makedirs(os.path.join(base, "src"), exist_ok=True)
                os.replace(os.path.join(base, "p.asm"), os.path.join(base, "src", "p.asm"))
                argv = [exe, "compile", "src/p.asm", "p.lc3"]
            elif kind.startswith("reference_"):
                # out of reach by nearly the whole 16-bit space: the distance is what it is, not what is left of it modulo 65536
                if "minus" in kind:
                    _write(os.path.join(base, "p.asm"), "far halt\n.blkw #65300\nld r0 far\nbr far\njsr far\n")
                else:
                    _write(os.path.join(base, "p.asm"), "ld r0 far\nlea r1 far\njsr far\n.blkw #65500\nfar halt\n")
                expect_ok = False
            elif kind.startswith("program_of_"):
                # the largest programs there are: every word of them is in the object file
                n_st = int(kind.split("_")[2])
                _write(os.path.join(base, "p.asm"), ".orig x0000\nadd r0 r0 #1\n.blkw #%d\n.fill xBEEF\n" % (n_st - 2))
                big_img = bytes.fromhex("00001021") + b"\x00\x00" * (n_st - 2) + bytes.fromhex("beef")
            elif kind.endswith("source_read_from_a_pipe"):
                # the source can be read once (a pipe, as in `cat p.asm | lace compile /dev/stdin out.lc3`): what is
                # assembled is what came through it
                text = src if kind == "source_read_from_a_pipe" else "ld r1 far\n.blkw #300\nfar .fill x1\n"
                fifo = os.path.join(base, "src.fifo")
                if os.path.exists(fifo):
                    os.remove(fifo)
                os.mkfifo(fifo)

                def feed(path=fifo, data=text.encode()):
                    try:
                        fd = os.open(path, os.O_WRONLY)
                        os.write(fd, data)
                        os.close(fd)
                    except OSError:
                        pass
                import threading
                th = threading.Thread(target=feed, daemon=True)
                th.start()
                argv = [exe, "compile", "src.fifo", "p.lc3"]
                expect_ok = kind == "source_read_from_a_pipe"
            elif kind.startswith("case_twin_"):
                # two labels that differ in letter case only are two labels: a reference means the one it spells
                a, b = kind.split(":", 1)[1].split("/")
                if "out_of_reach" in kind:
                    _write(os.path.join(base, "p.asm"), "%s .fill x0\nld r1, %s\n.blkw #300\n%s .fill x1\n" % (a, b, b))
                    expect_ok = False
                else:
                    _write(os.path.join(base, "p.asm"), src.replace("add r0 r0 #1\n", "%s add r0 r0 #1\n" % a, 1).replace("halt\n", "%s halt\n" % b, 1))
            elif kind.startswith("failure_behind_a_label_named:"):
                # names of directives without their dot, and words other assemblers reserve: labels here, and what
                # follows them is assembled like everything else - the statement that cannot be emitted included
                nm = kind.split(":", 1)[1]
                # (the label first stands in front of a statement, then - in half of the cases - is referred to)
                _write(os.path.join(base, "p.asm"), "and r0 r0 #0\n%s add r0 r0 #1\n%sld r1 far\n.blkw #300\nfar .fill x1\n" % (nm, "brn %s\n" % nm if len(nm) % 2 else ""))
                expect_ok = False
            elif kind.startswith("valid_program_with_a_label_named:"):
                nm = kind.split(":", 1)[1]
                _write(os.path.join(base, "p.asm"), src.replace("halt\n", "%s halt\n" % nm, 1))
            elif kind.endswith("_failing_statements"):
                n_bad = int(kind.split("_")[0])
                _write(os.path.join(base, "p.asm"), "ld r0 far\n" * n_bad + ".blkw #400\nfar halt\n")
                expect_ok = False
            before = snapshot(dest)
            try:
                p = subprocess.run(argv, cwd=base, env=e, stdin=subprocess.DEVNULL, stdout=stdout, stderr=stderr,
                                   preexec_fn=pre_fn, timeout=60)
                rc, err = p.returncode, (p.stderr or b"")
            except subprocess.TimeoutExpired:
                rc, err = None, b""
            for f in opened:
                f.close()
            after = snapshot(dest)
            res.evaluations += 1
            res.cls("surroundings:" + kind)
            detail = {"surroundings": kind, "destination_pre_existing": pre, "exit": rc, "stderr": err.decode("utf-8", "replace")[-300:],
                      "before": _snap_brief(before), "after": _snap_brief(after)}
            if rc is None or rc < 0:
                res.violate("C08/crash/" + kind, "`lace compile` hung or was killed by a signal (%s)" % rc, detail)
            elif rc == 0 and not expect_ok:
                res.violate("C08/exit-0-for-a-rejected-source/" + kind, "exit 0 for a source no statement of which can be emitted (destination %s)" % ("unchanged" if after == before else "changed"), detail)
            elif rc == 0 and kind.startswith("program_of_") and after is not None and after[0] == "file":
                got = open(dest, "rb").read()
                if got != big_img:
                    res.violate("C08/exit-0-incomplete-file/" + kind, "exit 0 but the destination holds %d bytes; the complete object file of this program has %d" % (len(got), len(big_img)), detail)
                else:
                    res.cls("surroundings:compiled_all_the_same")
            elif rc == 0 and not (after is not None and after[0] == "file" and after[1] == img):
                res.violate("C08/exit-0-incomplete-file/" + kind, "exit 0 but the destination does not hold the complete object file", detail)
            elif rc != 0 and after != before:
                res.violate("C08/failed-but-destination-changed/" + kind,
                            "exit %s but the destination was %s" % (rc, "created" if before is None else "modified"), detail)
            elif rc == 0:
                res.cls("surroundings:compiled_all_the_same")
            else:
                res.cls("surroundings:failed_destination_untouched")


def c08_fifo(ctx, res, d):
    """The destination is a named pipe whose reader takes a few bytes (or none) and goes away: the
    object (larger than the pipe buffer) cannot be delivered completely, so exit 0 would be a lie."""
    import threading
    src = "halt\nbuf .blkw #60000\n"     # 120 004 bytes, the pipe buffer holds 65 536
    for k, take in enumerate((0, 16, 4096)):
        cd = os.path.join(d, "fifo%d" % k)
        os.makedirs(cd, exist_ok=True)
        _write(os.path.join(cd, "in.asm"), src)
        path = os.path.join(cd, "out.lc3")
        os.mkfifo(path)
        got = []

        def reader():
            try:
                fd = os.open(path, os.O_RDONLY)
                if take:
                    got.append(os.read(fd, take))
                os.close(fd)
            except OSError:
                pass
        t = threading.Thread(target=reader, daemon=True)
        t.start()
        r = lace(ctx, ["compile", "in.asm", "out.lc3"], cwd=cd, timeout=60)
        t.join(timeout=10)
        res.evaluations += 1
        res.cls("fault:fifo_reader_goes_away")
        detail = dict(r.brief(), source=src, reader_took_bytes=take, object_bytes=120004)
        if r.rc is None or r.crashed:
            res.violate("C08/crash/fifo_reader_goes_away", "`lace compile` crashed or hung (exit %s) writing to a pipe whose reader went away" % r.rc, detail)
        elif r.rc == 0:
            res.violate("C08/exit-0-incomplete-file/fifo_reader_goes_away",
                        "exit 0 although the reader of the destination pipe took %d of 120004 bytes and went away" % take, detail)
        os.remove(path)


def c08_fsize(ctx, res, big, d):
    """A destination that can only take part of the object: the process runs under a file-size limit
    (RLIMIT_FSIZE, what `ulimit -f` sets), so the kernel performs a *short* write and refuses the next."""
    import resource
    exe = common.cli_bin(ctx)
    env = dict(common.ENV, NO_COLOR="1", XDG_CACHE_HOME=ctx.scratch)
    jobs = []
    for bi, (kind, src, words) in enumerate(big):
        n = 2 * len(words)
        for limit in sorted({1, 2, 4096, 4098, n - 2, n - 1, n}):
            if 0 < limit <= n:
                jobs.append((bi, limit))

    def one(job):
        bi, limit = job
        kind, src, words = big[bi]
        cd = os.path.join(d, "fsize%d_%d" % (bi, limit))
        os.makedirs(cd, exist_ok=True)
        _write(os.path.join(cd, "in.asm"), src)

        def lim():
            resource.setrlimit(resource.RLIMIT_FSIZE, (limit, limit))
        p = subprocess.run([exe, "compile", "in.asm", "out.lc3"], cwd=cd, env=env, stdin=subprocess.DEVNULL,
                           stdout=subprocess.PIPE, stderr=subprocess.PIPE, preexec_fn=lim, timeout=60)
        return job, p, snapshot(os.path.join(cd, "out.lc3"))
    for (bi, limit), p, after in pmap(one, jobs):
        kind, src, words = big[bi]
        img = b"".join(int(w).to_bytes(2, "big") for w in words)
        res.evaluations += 1
        res.cls("fault:file_size_limit")
        detail = {"source": src, "object_bytes": len(img), "file_size_limit": limit, "exit": p.returncode,
                  "stderr": p.stderr.decode("utf-8", "replace")[-400:], "after": _snap_brief(after)}
        complete = after is not None and after[0] == "file" and after[1] == img
        if limit >= len(img):
            res.cls("file_size_limit:object_fits")
            if p.returncode != 0 or not complete:
                res.violate("C08/exit-0-incomplete-file/file_size_limit" if p.returncode == 0 else "C08/failed-although-object-fits",
                            "the object fits the file-size limit exactly, yet exit %s / destination %s" % (p.returncode, _snap_brief(after)), detail)
        elif p.returncode == 0:
            res.violate("C08/exit-0-incomplete-file/file_size_limit",
                        "exit 0 although only %d of %d bytes could be written (short write not noticed)" % (limit, len(img)), detail)
        elif after is not None:
            # same defect as the strace-injected write error: nothing removes the file just created
            res.violate("C08/injected-write-error/regular-file-residue",
                        "exit %s under a file-size limit of %d bytes, but a partial destination file was left behind" % (p.returncode, limit), detail)
        else:
            res.cls("file_size_limit:handled")


def c08_inject(ctx, res, entries, d):
    strace = shutil.which("strace")
    if not strace:
        res.inconclusive["strace not available"] = 1
        return
    for ei, e in enumerate(entries):
        img = b"".join(int(w).to_bytes(2, "big") for w in e["image"])
        cd = os.path.join(d, "inj%d" % ei)
        os.makedirs(cd, exist_ok=True)
        _write(os.path.join(cd, "in.asm"), e["source"])
        f = ["-f", "stack"] if e["stack"] else []
        # how many write() calls does a clean run make?
        log = os.path.join(cd, "trace.log")
        lace(ctx, ["compile", "in.asm", "out.lc3"] + f, cwd=cd, wrapper=[strace, "-f", "-e", "trace=write,openat", "-o", log])
        lines = open(log).read().splitlines() if os.path.exists(log) else []
        writes = [l for l in lines if " write(" in l or l.startswith("write(")]
        n_writes = len(writes)
        res.extra.setdefault("strace_clean_run_writes", []).append(n_writes)
        ks = list(range(1, n_writes + 1))
        if not ctx.thorough() and len(ks) > 12:
            ks = ks[:6] + ks[-6:]

        def inj(k, err):
            dest = os.path.join(cd, "o_%s_%d.lc3" % (err, k))
            if os.path.exists(dest):
                os.remove(dest)
            r = lace(ctx, ["compile", "in.asm", os.path.basename(dest)] + f, cwd=cd,
                     wrapper=[strace, "-f", "-o", "/dev/null", "-e", "trace=write", "-e", "inject=write:error=%s:when=%d" % (err, k)])
            return k, err, r, snapshot(dest)
        jobs = [(k, err) for k in ks for err in ("ENOSPC", "EIO")]
        for k, err, r, after in pmap(lambda a: inj(*a), jobs):
            res.evaluations += 1
            res.cls("fault:injected_write_error")
            detail = dict(r.brief(), source=e["source"][-400:], injected="%s on write #%d of %d" % (err, k, n_writes), after=_snap_brief(after))
            if r.rc is None or r.crashed:
                # a panic on a failed *stdout* write (println!) is the Rust runtime's documented behaviour
                if b"failed printing to stdout" in r.err:
                    res.cls("stdout_write_failed_panic")
                    continue
                res.violate("C08/crash/injected_write_error", "`lace compile` crashed (exit %s)" % r.rc, detail)
            elif r.rc == 0 and (after is None or after[0] != "file" or after[1] != img):
                res.violate("C08/exit-0-incomplete-file/injected_write_error",
                            "exit 0 although a write failed with %s: the object file is incomplete (swallowed error)" % err, detail)
            elif r.rc != 0 and after is not None:
                # destination was absent before; a residue after a mid-write failure on a regular file
                res.violate("C08/injected-write-error/regular-file-residue",
                            "exit %s after %s on write #%d, but a partial destination file was left behind" % (r.rc, err, k), detail)
            else:
                res.cls("injected:handled")


# ------------------------------------------------------------------ C19 (L2: one text, one result - whatever the files around it look like)

def c19_cli(ctx, res):
    """`lace compile` of a text gives the image of that text, whatever was compiled before to the same
    destination and whatever the file dates say: sources older than the destination, two sources taking
    turns on one destination (named, and the default ./<stem>.lc3 of two files of one name in two
    folders), a failing text after a good one. The expected image is the reference assembler's."""
    cp = corpus(ctx)
    entries = [e for e in cp["structured"] if e.get("image")][:60 if not ctx.thorough() else 400]
    d = _dir(ctx, "c19cli")
    old = time.time() - 7200
    bad_texts = ["add r0 r0 #99\n", "ld r0 nowhere\nhalt\n", "dup halt\ndup halt\n", ".stringz \"open\n"]

    def one(k):
        a, b = entries[k], entries[(k * 7 + 3) % len(entries)]
        sub = os.path.join(d, "h%d" % k)
        os.makedirs(os.path.join(sub, "one"), exist_ok=True)
        os.makedirs(os.path.join(sub, "two"), exist_ok=True)
        shape = k % 4
        steps = []
        if shape in (0, 1):
            names = ("a.asm", "b.asm")
            dest = ["out.lc3"]
        else:
            names = (os.path.join("one", "prog.asm"), os.path.join("two", "prog.asm"))
            dest = []
        for n, e in zip(names, (a, b)):
            _write(os.path.join(sub, n), e["source"])
            os.utime(os.path.join(sub, n), (old, old))      # the sources are older than anything compiled today
        order = [(names[0], a), (names[1], b), (names[0], a)]
        if shape in (1, 3):
            bad = os.path.join(os.path.dirname(names[0]), "prog_bad.asm") if shape == 3 else "bad.asm"
            if shape == 3:
                # the failing text takes the place of two/prog.asm, with an old date
                bad = names[1]
            order.insert(2, (bad, None))
        out = os.path.join(sub, dest[0] if dest else "prog.lc3")
        for n, e in order:
            if e is None:
                _write(os.path.join(sub, n), bad_texts[k % len(bad_texts)])
                os.utime(os.path.join(sub, n), (old, old))
            before = open(out, "rb").read() if os.path.exists(out) else None
            r = lace(ctx, ["compile", n] + dest + (feat(e) if e else []), cwd=sub)
            after = open(out, "rb").read() if os.path.exists(out) else None
            steps.append((n, e, r, before, after))
        return k, shape, steps
    for k, shape, steps in pmap(one, range(len(entries))):
        for n, e, r, before, after in steps:
            res.evaluations += 1
            res.cls("l2:compile_history:" + ("named_destination", "named_destination_with_a_failing_text", "default_destination_of_two_folders", "default_destination_with_a_failing_text")[shape])
            detail = dict(r.brief(), step=n, history=[s[0] for s in steps], source=(e["source"] if e else bad_texts[k % len(bad_texts)])[:600])
            if r.rc is None or r.crashed:
                res.violate("C19/cli/crash", "`lace compile` crashed or hung (exit %s)" % r.rc, detail)
                break
            if e is None:
                if r.rc == 0:
                    res.violate("C19/cli/failing-text-accepted-after-a-good-one", "`lace compile %s` of a text with an error exits 0 when a destination written by an earlier compile exists; on its own it is refused" % n, detail)
                    break
                continue
            want = b"".join(int(w).to_bytes(2, "big") for w in e["image"])
            if r.rc != 0 or after != want:
                detail["destination_is_still_the_previous_image"] = (after == before and before is not None)
                res.violate("C19/cli/result-depends-on-earlier-compile", "`lace compile %s` (exit %s) leaves %s at the destination; the image of this text is %d bytes - the same whatever was compiled there before"
                            % (n, r.rc, "the image of the text compiled before" if after == before and before is not None else ("%d other bytes" % len(after) if after is not None else "nothing"), len(want)), detail)
                break
    res.require(["l2:compile_history:named_destination", "l2:compile_history:default_destination_of_two_folders", "l2:compile_history:named_destination_with_a_failing_text"], "L2")


# ------------------------------------------------------------------ C14 transport

def c14_transport(ctx, res):
    import random
    rnd = random.Random(ctx.seed * 977 + 14)
    d = _dir(ctx, "c14")
    prog = "lea r0 msg\nputs\nand r1 r1 #0\nadd r1 r1 #3\nloop add r2 r2 r1\nadd r1 r1 #-1\nbrp loop\nhalt\nmsg .stringz \"hi\"\n"
    _write(os.path.join(d, "t.asm"), prog)
    pool = ["step", "s", "si 2", "step into 3", "registers", "r", "print r0", "p x3000", "print ^", "echo marker", "break add x3004",
            "b a loop", "break list", "bl", "continue", "c", "assembly", "a x3001", "move r3 #7", "goto x3002", "eval add r4 r4 #1",
            "bogus", "print", "si x", "break remove x3004", "reset", "help",
            # multi-byte characters: the argument reader and the stdin reader split on bytes/chars differently
            "  ", " ", "echo caf\u00e9", "echo \u20acab", "print \uff12", "echo \U0001F34B lemon", "\u00e9", "echo a\u00e9b",
            # lines longer than any fixed-size line buffer one might think of (64, 128, 256, 1024 bytes)
            "echo " + "long line " * 9, "move r2" + " " * 70 + "x0123", "print" + " " * 130 + "r2", "echo " + "\u00e9" * 140,
            "move r3 " + "0" * 300 + "7", "echo " + "y" * 1100, "eval add r4 r4" + " " * 64 + "#3"]
    n_scripts = 20 if not ctx.thorough() else 300
    jobs = []
    scripts = []
    # fixed scripts first: every character width (1-4 bytes of UTF-8, the last code point, combining marks)
    # in echo text, in an argument and as a command name, and every line-length class
    fixed = [["echo a\u00e9b", "echo \u20acuro", "echo \U0001F34B", "echo \U00010000|\U0010FFFF", "echo e\u0301", "registers", "exit"],
             ["print \U0001F34B", "\U0001F34B", "\u00e9 r0", "move r1 \U0001D11E", "echo ok", "print r1", "quit"],
             ["echo " + "long line " * 9, "echo " + "\U0001F34B" * 40, "print" + " " * 130 + "r2", "echo " + "y" * 1100, "exit"],
             ["", " ", ";", "echo ;", "echo x", "exit"],
             # a carriage return in the middle of a command is part of that command (a bad one), not a separator
             ["move r0 5\rmove r0 6", "registers", "echo a\rb", "goto x3001\rregisters", "print r0", "exit"],
             # commands whose argument is text of another language (an instruction for eval, free text for echo): the
             # separator ends them like any other command
             ["eval add r4 r4 #1", "registers", "e add r4 r4 #2", "print r4", "evaluate not r4 r4", "registers", "EVAL and r4 r4 #0", "echo a # b", "print r4", "exit"],
             # backslashes are ordinary characters of a command, in every delivery: no escape means anything
             ["echo a\\nb", "echo x\\nmove r0 9", "print r0", "move r1 7\\nmove r1 8", "print r1", "echo t\\tab \\\\ end", "quit\\nmove r0 9", "registers", "exit"],
             # the last command is a single character with nothing behind it
             ["move r0 5", "step", "r"], ["echo a", "move r1 7", "print r1", "c"], ["step", "echo z", "x"],
             # two-byte characters from every sixteenth of their range (lead bytes xC2..xDF: Latin, Greek, Cyrillic, Hebrew, Arabic, N'Ko)
             ["echo \u00a9\u00ff", "echo \u03a9\u03c9", "echo \u043f\u0440\u0438\u0432\u0435\u0442", "echo \u0400\u04ff", "echo \u05e9\u05dc\u05d5\u05dd", "echo \u0645\u0631\u062d\u0628\u0627",
              "echo \u07c0\u07ff", "\u0434 r0", "print \u0431", "registers", "exit"]]
    for si in range(n_scripts):
        if si < len(fixed):
            cmds = fixed[si]
        else:
            k = rnd.randrange(1, 7)
            cmds = [rnd.choice(pool) for _ in range(k)]
            cmds.append(rnd.choice(["exit", "quit", "q", "continue", "x", "r", "s", "c", "bl", "registers", "p r0"]))
        scripts.append(cmds)
        cmds = scripts[si]
        variants = []
        for cut in range(0, len(cmds) + 1):
            for sa in (";", "\n"):
                for sb in (";", "\n"):
                    if cut in (0, len(cmds)) and sa != sb:
                        pass
                    variants.append((cut, sa, sb))
        if not ctx.thorough():
            rnd.shuffle(variants)
            variants = variants[:8] + [(len(cmds), ";", ";"), (0, "\n", "\n"), (0, ";", ";"), (1, ";", ";")]
        # both separators mixed inside the --command argument and inside stdin
        variants.append((len(cmds) // 2, "mix", "mix"))
        variants.append((len(cmds), "mix", "mix"))
        for v in variants:
            jobs.append((si, v))

    def one(job):
        si, (cut, sa, sb) = job
        cmds = scripts[si]
        def join(parts, sep, salt):
            if sep != "mix":
                return sep.join(parts)
            out = ""
            for k, part in enumerate(parts):
                if k:
                    out += ";" if (salt + k * 7) % 3 == 0 else "\n"
                out += part
            return out
        arg = join(cmds[:cut], sa, si)
        stdin = join(cmds[cut:], sb, si + 1)
        args = ["debug", "t.asm", "--minimal"]
        if cut > 0:
            args += ["--command", arg]
        r = lace(ctx, args, stdin=stdin.encode(), cwd=d, timeout=30)
        return si, (cut, sa, sb), r
    by = {}
    for si, v, r in pmap(one, jobs):
        by.setdefault(si, []).append((v, r))
        res.evaluations += 1
        res.cls("l2:transport_run")
    for si, runs in by.items():
        base_v, base = runs[0]
        for v, r in runs[1:]:
            if (r.rc, r.out, r.err) != (base.rc, base.out, base.err):
                which = "exit status" if r.rc != base.rc else ("stdout" if r.out != base.out else "stderr")
                res.violate("C14/transport/%s" % which.replace(" ", "-"),
                            "the same script gives a different %s when delivered as (cut=%d, sep=%r/%r) than as (cut=%d, sep=%r/%r)"
                            % (which, v[0], v[1], v[2], base_v[0], base_v[1], base_v[2]),
                            {"script": scripts[si], "a": dict(base.brief(), delivery=list(base_v)), "b": dict(r.brief(), delivery=list(v))})
                break
        if base.crashed or base.rc is None:
            res.violate("C14/transport/crash", "`lace debug` crashed (exit %s)" % base.rc, {"script": scripts[si], "run": base.brief()})
    res.cls("l2:transport_scripts", len(by))
    res.samples.append({"transport_script": scripts[0]})


# ------------------------------------------------------------------ C02 (L2: input traps on a real standard input)

def c02_cli(ctx, res):
    """GETC and IN executed by the stock binary on a real (non-terminal) standard input: the k-th
    input trap puts the k-th byte of the input into R0, whatever else is already waiting there. The
    program copies each byte into R1..R5 and dumps the registers; the in-process layers feed input
    through the monitor's queue and never see the real reader."""
    d = _dir(ctx, "c02")
    rng = random.Random(ctx.seed * 7919 + 2)
    inputs = [b"abcdefgh", b"a\nb\nc\nd\n", bytes([0x7f, 0x00, 0x41, 0x1b, 0x20, 0x7e]), b"xy", b"q",
              bytes(rng.randrange(0, 0x80) for _ in range(64)), b"0123456789" * 1000]
    for k in (1, 2, 3, 5):
        for traps in ("getc", "in", "mixed"):
            lines = []
            for j in range(k):
                t = traps if traps != "mixed" else ("getc", "in")[j % 2]
                lines += [t, "add r%d r0 #0" % (j + 1)]
            lines += ["reg", "halt"]
            name = "rd_%s_%d.asm" % (traps, k)
            _write(os.path.join(d, name), "\n".join(lines) + "\n")
            for data in inputs:
                for via in ("pipe", "file", "debugger"):
                    if via == "debugger":
                        # the same program started by `lace debug --command continue`: the command reader shares
                        # standard input with the program but takes nothing from it while the script lasts
                        r = lace(ctx, ["debug", name, "--minimal", "--command", "continue"], stdin=data, cwd=d, timeout=30)
                    elif via == "file":
                        _write(os.path.join(d, "input.bin"), data)
                        with open(os.path.join(d, "input.bin"), "rb") as f:
                            r = lace(ctx, ["run", name, "--minimal"], stdin_file=f, cwd=d, timeout=30)
                    else:
                        r = lace(ctx, ["run", name, "--minimal"], stdin=data, cwd=d, timeout=30)
                    res.evaluations += 1
                    res.cls("l2:input_traps:%s:%s" % (traps, via))
                    detail = dict(r.brief(), program=lines, input=repr(data[:80]), stdin=via)
                    if r.rc is None or r.crashed:
                        res.violate("C02/cli/crash", "`lace run` crashed or hung (exit %s) reading its input" % r.rc, detail)
                        continue
                    if len(data) < k:
                        res.cls("l2:input_traps:input_ends_early")
                        if r.rc != 1:
                            res.violate("C02/cli/input-eof", "%d input traps on %d bytes of input: exit status %s, an input trap at the end of input ends the run with status 1" % (k, len(data), r.rc), detail)
                        continue
                    got = dict(re.findall(r"^R([0-7]) x([0-9a-f]{4})", r.out.decode("utf-8", "replace"), re.M))
                    want = {str(j + 1): "%04x" % data[j] for j in range(k)}
                    bad = {j: (got.get(j), w) for j, w in want.items() if got.get(j) != w}
                    if r.rc != 0 or bad:
                        res.violate("C02/cli/input-byte", "%d input traps (%s) on input %r from a %s: exit %s, registers (got, expected) %s"
                                    % (k, traps, data[:12], via, r.rc, bad), detail)
                    elif k >= 2:
                        res.cls("l2:input_traps:second_and_later_bytes")
    # the same traps given to the debugger's `eval`, in both output modes: each is executed once - one byte of input
    # taken, one character written - whatever the debugger prints around it
    _write(os.path.join(d, "nop.asm"), "halt\n")
    script = "eval getc;eval add r1 r0 #0;eval in;eval add r2 r0 #0;eval out;eval getc;eval add r3 r0 #0;registers;exit"
    for mode in ("minimal", "decorated"):
        for data in (b"@#%", b"^&*", b"[]{}~"):      # (characters that occur nowhere in lace's own status lines)
            r = lace(ctx, ["debug", "nop.asm"] + (["--minimal"] if mode == "minimal" else []) + ["--command", script], stdin=data, cwd=d, timeout=30,
                     env={"NO_COLOR": "1"})
            res.evaluations += 1
            res.cls("l2:evaluated_traps:" + mode)
            text = _SGR.sub(b"", r.err).decode("utf-8", "replace")
            got = {j: v.lower() for j, v in re.findall(r"R([0-7])\s+0?x([0-9a-fA-F]{4})", text)}
            want = {"1": "%04x" % data[0], "2": "%04x" % data[1], "3": "%04x" % data[2]}
            bad = {j: (got.get(j), w) for j, w in want.items() if got.get(j) != w}
            out_chars = _SGR.sub(b"", r.out).count(bytes([data[1]]))
            detail = dict(r.brief(), script=script, input=repr(data), output_mode=mode)
            if r.rc is None or r.crashed:
                res.violate("C02/cli/crash", "`lace debug` crashed or hung (exit %s) evaluating traps" % r.rc, detail)
            elif bad:
                res.violate("C02/cli/input-byte", "three input traps given to `eval` (%s output) on input %r: registers (got, expected) %s" % (mode, data, bad), detail)
            elif out_chars != 2:
                # IN echoes the character it read, OUT writes it once more: twice on standard output, no more
                res.violate("C02/cli/output-char", "`eval in` and `eval out` of %r (%s output) wrote it %d times to standard output; once each is 2" % (chr(data[1]), mode, out_chars), detail)
    res.require(["l2:input_traps:getc:pipe", "l2:input_traps:in:file", "l2:input_traps:mixed:pipe", "l2:input_traps:getc:debugger", "l2:input_traps:second_and_later_bytes", "l2:input_traps:input_ends_early",
                 "l2:evaluated_traps:minimal", "l2:evaluated_traps:decorated"], "L2")


# ------------------------------------------------------------------ C10 (L2: stepping scripts through the real readers)

def c10_cli(ctx, res):
    """Stepping scripts at the CLI, delivered by --command, on standard input with and without a final
    newline, and split: the last command counts like every other one. The register dumps printed by
    the scripts are known (fixed program), and every delivery prints the same."""
    d = _dir(ctx, "c10")
    _write(os.path.join(d, "loop.asm"), "and r1 r1 #0\nlp add r1 r1 #1\nadd r2 r1 #-5\nbrn lp\njsr f\nhalt\nf add r3 r3 #7\nret\n")
    # (script, expected PC and R1 after it, as printed by the final `registers`)
    scripts = [(["step into 3", "registers"], "x3003", "x0001"),
               (["si 4", "step", "registers"], "x3002", "x0002"),
               (["break add x3004", "continue", "step", "registers"], "x3005", "x0005"),
               (["break add x3006", "continue", "step into", "step into", "registers"], "x3005", "x0005"),
               (["step into X10", "registers"], "x3004", "x0005"),
               (["break add lp+3", "continue", "registers"], "x3004", "x0005")]
    for si, (cmds, pc, r1) in enumerate(scripts):
        outs = {}
        for via in ("arg", "stdin", "stdin+nl", "split", "stdin-crlf", "arg-newlines"):
            args = ["debug", "loop.asm", "--minimal"]
            stdin = b""
            if via == "arg":
                args += ["--command", ";".join(cmds)]
            elif via == "split":
                args += ["--command", cmds[0]]
                stdin = "\n".join(cmds[1:]).encode()
            elif via == "stdin-crlf":
                # a script file saved with CR LF line ends; a tab after the last word of a line
                stdin = "\r\n".join(c + ("\t" if k % 2 else "") for k, c in enumerate(cmds)).encode() + b"\r\n"
            elif via == "arg-newlines":
                args += ["--command", " \n".join(cmds) + "\n"]
            else:
                stdin = "\n".join(cmds).encode() + (b"\n" if via == "stdin+nl" else b"")
            r = lace(ctx, args, stdin=stdin, cwd=d, timeout=30)
            res.evaluations += 1
            res.cls("l2:stepping_script_via:" + via)
            text = r.err.decode("utf-8", "replace")
            got_pc = re.findall(r"^PC (x[0-9a-f]{4})", text, re.M)
            got_r1 = re.findall(r"^R1 (x[0-9a-f]{4})", text, re.M)
            detail = dict(r.brief(), script=cmds, delivery=via, expected={"PC": pc, "R1": r1})
            if r.rc is None or r.crashed:
                res.violate("C10/cli/crash", "`lace debug` crashed or hung (exit %s)" % r.rc, detail)
            elif not got_pc or got_pc[-1] != pc or got_r1[-1] != r1:
                res.violate("C10/cli/wrong-pause", "script %r delivered as %s leaves PC %s R1 %s at its final `registers`; the reference machine is at PC %s with R1 %s"
                            % (cmds, via, got_pc[-1:] or None, got_r1[-1:] or None, pc, r1), detail)
    # a program that reads input while it is stepped, commands and program input on the one standard input: each
    # takes the bytes that are its own, in order (the command reader up to its line end, GETC one byte)
    _write(os.path.join(d, "reads.asm"), "getc\nadd r1 r0 #0\ngetc\nadd r2 r0 #0\nhalt\n")
    feeds = [([], b"step\nAstep\nstep\nBregisters\n", ("x3003", "x0042", "x0041", "x0000")),
             ([], b"step into 4\nABregisters\n", ("x3004", "x0042", "x0041", "x0042")),
             (["--command", "step"], b"Astep\nstep\nBregisters", ("x3003", "x0042", "x0041", "x0000")),
             ([], b"break add x3003\ncontinue\nABregisters\n", ("x3003", "x0042", "x0041", "x0000")),
             ([], b"step\nQstep;step\nZregisters\n", ("x3003", "x005a", "x0051", "x0000")),
             (["--command", "step into 3;registers"], b"mn", ("x3003", "x006e", "x006d", "x0000"))]
    for extra, stdin, (pc, r0, r1, r2) in feeds:
        r = lace(ctx, ["debug", "reads.asm", "--minimal"] + extra, stdin=stdin, cwd=d, timeout=30)
        res.evaluations += 1
        res.cls("l2:stepping_over_input_traps_fed_on_the_command_stream")
        text = r.err.decode("utf-8", "replace")
        got = tuple((re.findall(r"^%s (x[0-9a-f]{4})" % k, text, re.M) or [None])[-1] for k in ("PC", "R0", "R1", "R2"))
        detail = dict(r.brief(), arguments=extra, standard_input=stdin.decode(), expected={"PC": pc, "R0": r0, "R1": r1, "R2": r2})
        if r.rc is None or r.crashed:
            res.violate("C10/cli/crash", "`lace debug` crashed or hung (exit %s)" % r.rc, detail)
        elif got != (pc, r0, r1, r2):
            res.violate("C10/cli/wrong-pause", "stepping a program that reads its input from the stream the commands come from (%r): PC, R0, R1, R2 are %s at the final `registers`; the reference machine has %s"
                        % (stdin.decode(), got, (pc, r0, r1, r2)), detail)
    res.require(["l2:stepping_script_via:arg", "l2:stepping_script_via:stdin", "l2:stepping_script_via:split", "l2:stepping_over_input_traps_fed_on_the_command_stream"], "L2")


# ------------------------------------------------------------------ C11 (L2: a declared breakpoint, visited three times, through the real readers)

def c11_cli(ctx, res):
    """A `.break` inside a loop is reached three times (R0 = 3, 2, 1). Scripts with empty commands in them - blank
    lines, `;;`, a `;` at the end of a line - are delivered on standard input, by --command and split: an empty
    command is no command (and no end of input), so every visit pauses and `registers` shows R0 = 3, 2, 1."""
    d = _dir(ctx, "c11")
    _write(os.path.join(d, "loop.asm"), "and r0 r0 #0\nadd r0 r0 #3\n.break\nlp add r0 r0 #-1\nbrp lp\nhalt\n")
    scripts = ["continue\nregisters\n\ncontinue\nregisters\n;;continue;registers;\ncontinue\n",
               "continue;registers;\ncontinue;registers\n\n\ncontinue\nregisters\n\ncontinue\n",
               "\ncontinue\nregisters\n ; \ncontinue\nregisters;;;continue;registers\ncontinue",
               "continue\nregisters\ncontinue\nregisters\ncontinue\nregisters\ncontinue\n"]
    for si, script in enumerate(scripts):
        for via in ("stdin", "arg", "split"):
            args = ["debug", "loop.asm", "--minimal"]
            stdin = b""
            if via == "stdin":
                stdin = script.encode()
            elif via == "arg":
                args += ["--command", script]
            else:
                head, _, tail = script.partition("registers")
                args += ["--command", head + "registers"]
                stdin = tail.encode()
            r = lace(ctx, args, stdin=stdin, cwd=d, timeout=30)
            res.evaluations += 1
            res.cls("l2:declared_breakpoint_in_a_loop_via:" + via)
            got = re.findall(r"^R0 (x[0-9a-f]{4})", r.err.decode("utf-8", "replace"), re.M)
            detail = dict(r.brief(), script=script, delivery=via, expected_R0_at_each_pause=["x0003", "x0002", "x0001"])
            if r.rc is None or r.crashed:
                res.violate("C11/cli/crash", "`lace debug` crashed or hung (exit %s)" % r.rc, detail)
            elif got != ["x0003", "x0002", "x0001"]:
                res.violate("C11/cli/visit-not-paused", "a `.break` in a loop reached with R0 = 3, 2, 1: the `registers` given at each pause (script with empty commands, delivered as %s) show R0 = %s"
                            % (via, got), detail)
    res.require(["l2:declared_breakpoint_in_a_loop_via:stdin", "l2:declared_breakpoint_in_a_loop_via:arg", "l2:declared_breakpoint_in_a_loop_via:split"], "L2")


# ------------------------------------------------------------------ C12 (L2: `reset` as the last command, through the real readers)

def c12_cli(ctx, res):
    """A program that counts its runs in a memory cell and prints the count. `continue` runs it to its HALT (prints 1),
    `reset` - the last command, with or without a line end behind it, on standard input, by --command or split -
    puts the loaded machine back, and the end of input lets it run again: it prints 1 once more ("11"), as two
    fresh runs do; a reset that did not happen leaves it parked on the HALT ("1")."""
    d = _dir(ctx, "c12")
    _write(os.path.join(d, "cnt.asm"), "ld r0 c\nadd r0 r0 #1\nst r0 c\nld r1 z\nadd r0 r0 r1\nout\nhalt\nc .fill #0\nz .fill x30\n")
    deliveries = [("stdin_without_final_newline", [], b"continue\nreset"), ("stdin", [], b"continue\nreset\n"), ("stdin_semicolons", [], b"continue;reset"),
                  ("arg", ["--command", "continue;reset"], b""), ("arg_newline", ["--command", "continue\nreset"], b""), ("split", ["--command", "continue"], b"reset"),
                  ("split_after_eval", ["--command", "continue;eval add r3 r3 #1"], b"reset"), ("arg_after_eval", ["--command", "continue;eval add r3, r3, #7;reset"], b""),
                  ("stdin_crlf", [], b"continue\r\nreset\r\n"), ("arg_twice", ["--command", "continue;reset;continue;reset"], b"")]
    for name, extra, stdin in deliveries:
        r = lace(ctx, ["debug", "cnt.asm", "--minimal"] + extra, stdin=stdin, cwd=d, timeout=30)
        res.evaluations += 1
        res.cls("l2:reset_as_last_command:" + name)
        body = program_output(r.out)[0].strip()
        want = b"111" if name == "arg_twice" else b"11"
        if r.rc is None or r.crashed:
            res.violate("C12/cli/crash", "`lace debug` crashed or hung (exit %s)" % r.rc, dict(r.brief(), delivery=name))
        elif r.rc != 0 or body != want:
            res.violate("C12/cli/reset-not-carried-out", "a program that prints how often it has run: `continue`, `reset` (delivered as %s), end of input prints %r (exit %s); after a reset it runs like a fresh run and prints %r"
                        % (name, body[:20], r.rc, want), dict(r.brief(), delivery=name, standard_input=repr(stdin), arguments=extra))
    res.require(["l2:reset_as_last_command:stdin_without_final_newline", "l2:reset_as_last_command:arg", "l2:reset_as_last_command:split"], "L2")


# ------------------------------------------------------------------ C15 (L2: eval through both readers)

def c15_cli(ctx, res):
    """`eval` lines through the real `--command` and standard-input readers: operands written every
    way (`#` literals after a blank or a comma, hex, labels, several blanks) must arrive intact. The
    values printed afterwards are known (the program is fixed) and the two transports must agree."""
    d = _dir(ctx, "c15")
    _write(os.path.join(d, "e.asm"), "and r0 r0 #0\nhalt\nval .fill x1234\nptr .fill x3002\n")
    script = ["eval add r1, r1, #5", "print r1", "eval add r1 r1 #-2", "print r1", "eval and r2, r1, #1", "print r2",
              "eval add r3,r3,#7", "print r3", "eval ld r4, val", "print r4", "eval   add   r5 ,  r5 ,  #+3", "print r5",
              "eval add r6 r6 x0A", "print r6", "eval lea r0 val", "print r0", "eval not r7 r7", "print r7", "exit"]
    want = ["x0005", "x0003", "x0001", "x0007", "x1234", "x0003", "x000a", "x3002", "x0200"]
    runs = {}
    for via in ("arg;", "arg\n", "stdin\n", "stdin;", "split"):
        args = ["debug", "e.asm", "--minimal"]
        stdin = b""
        if via.startswith("arg"):
            args += ["--command", via[3:].join(script)]
        elif via == "split":
            args += ["--command", ";".join(script[:7])]
            stdin = "\n".join(script[7:]).encode() + b"\n"
        else:
            stdin = via[5:].join(script).encode() + b"\n"
        r = lace(ctx, args, stdin=stdin, cwd=d, timeout=30)
        runs[via] = r
        res.evaluations += 1
        res.cls("l2:eval_script_via:" + via.rstrip(";\n"))
        got = [l for l in r.err.decode("utf-8", "replace").splitlines() if re.fullmatch(r"x[0-9a-f]{4}", l.strip())]
        got = [g.strip() for g in got]
        # R7 starts at xFDFF: NOT gives x0200
        if r.rc is None or r.crashed:
            res.violate("C15/cli/crash", "`lace debug` crashed (exit %s) on a script of evals" % r.rc, dict(r.brief(), delivery=via, script=script))
        elif got != want:
            res.violate("C15/cli/wrong-effect", "evals delivered as %r leave %s, the instructions' ISA semantics give %s" % (via, got, want),
                        dict(r.brief(), delivery=via, script=script))
    # an input trap evaluated while the commands themselves arrive on standard input: the trap takes the
    # very next byte, the command reader goes on behind it
    for trap, stdin, want_r0 in (("getc", b"eval getc\nXprint r0\nexit\n", "x0058"), ("getc", b"eval getc\n\nprint r0\nexit\n", "x000a"),
                                 ("in", b"registers\neval in\nqprint r0\nexit\n", "x0071"), ("getc", b"eval getc\nAeval getc\nBprint r0\nexit\n", "x0042")):
        r = lace(ctx, ["debug", "e.asm", "--minimal"], stdin=stdin, cwd=d, timeout=30)
        res.evaluations += 1
        res.cls("l2:eval_input_trap_with_commands_on_stdin")
        got = [l.strip() for l in r.err.decode("utf-8", "replace").splitlines() if re.fullmatch(r"x[0-9a-f]{4}", l.strip())]
        if r.rc is None or r.crashed:
            res.violate("C15/cli/crash", "`lace debug` crashed (exit %s) on `eval %s`" % (r.rc, trap), dict(r.brief(), stdin=repr(stdin)))
        elif got[-1:] != [want_r0]:
            res.violate("C15/cli/input-trap", "`eval %s` with %r on standard input: `print r0` answers %s (exit %s), the next input byte gives %s" % (trap, stdin, got[-1:], r.rc, want_r0),
                        dict(r.brief(), stdin=repr(stdin)))
    res.require(["l2:eval_script_via:arg", "l2:eval_script_via:stdin", "l2:eval_script_via:split", "l2:eval_input_trap_with_commands_on_stdin"], "L2")


# ------------------------------------------------------------------ C16 (L2: the real readers)

def c16_cli(ctx, res):
    """Sessions through the real `--command` and standard-input readers whose script ends in every
    awkward way (no final newline, comment-like text, separators, stray quotes, NUL, multi-byte)
    followed by end of input, on programs that terminate. The verdict is on CPU time: a session that
    burns 10 CPU-seconds (normal: milliseconds) spins; a wall-clock expiry alone is undecided."""
    import resource
    d = _dir(ctx, "c16")
    progs = {"halts.asm": "lea r0 m\nputs\nhalt\nm .stringz \"ok\"\n",
             "runs_off.asm": ".orig xFDFC\nadd r1 r1 #1\nadd r1 r1 #1\n",
             "jumps_low.asm": ".orig x4000\nld r2 t\njmp r2\nt .fill x3ff0\n",
             "to_ffff.asm": "ld r2 t\njmp r2\nt .fill xFFFF\n"}
    # a program whose own output contains terminal control characters (ESC without a final `m`, BEL, CSI)
    progs["prints_esc.asm"] = "lea r0 s\nputs\nld r0 e\nout\nhalt\ne .fill x1b\ns .stringz \"a\x1b[2Jb\x1b[1mc\x07\"\n"
    # a string whose last character sits in the last word of memory: PUTS goes on at x0000 (a zero) and ends
    progs["puts_at_ffff.asm"] = "ld r1 a\nld r0 p\nstr r1 r0 #0\nputs\nld r0 q\nstr r1 r0 #0\nstr r1 r0 #1\nputs\nhalt\na .fill x41\np .fill xFFFF\nq .fill xFFFE\n"
    for n, t in progs.items():
        _write(os.path.join(d, n), t)
    endings = ["step", "continue", "// note", "step // note", "continue //", "//", "# note", "-- note", "; ", ";", ";;", "step;",
               "si 3 ;", "\"", "'", "\\", " ", "\t", "\r", "quit //", "\x00", "\u00e9", "echo //", "/* c */", "/", "step /", "registers\r",
               "echo \x1b[2J", "echo \x1b", "echo \x1b[H\x1b[K", "echo a\x1b[1mb\x1b[0m", "echo \x9b2J",
               # numbers far wider than any register: refused, and the session goes on to its end
               "print 99999999999", "goto 0x3000000000", "p ^+123456789012", "assembly x123456789abc", "step into 18446744073709551616",
               "break add 340282366920938463463374607431768211456", "move r0 #-99999999999", "print lbl+99999999999", "b a o7777777777777777"]
    # byte strings that are not UTF-8 (only through standard input; how such a line is refused - an
    # error, or the reader giving up - is not this property's business, that the session ends is)
    raw_endings = [b"echo 5\xa3", b"break\xa0list", b"\x80", b"\xc0\x80", b"echo caf\xe9", b"\xff\xfe", b"step\n\xbf\n", b"echo \xed\xa0\x80",
                   b"\xf8\x88\x80\x80\x80", b"echo ok\n\x93done\x94"]
    prefixes = ["", "step\n", "continue\n", "break add ^1\ncontinue\n", "assembly x0000\nassembly x2fff\nprint x0\n",
                "break add ^2\nbreak add ^0\nbreak add ^1\nbreak add ^1\nbreak list\n", "assembly\nassembly xFFFF\ncontinue\nassembly\n",
                # a script that begins with a separator (an empty first command)
                ";", "\n", ";;\n", " ;", "\n\n;"]
    jobs = []
    for pn in progs:
        for ei, end in enumerate(endings):
            pre = prefixes[(ei + len(pn)) % len(prefixes)]
            for final_nl in (False, True):
                for via in ("stdin", "arg"):
                    if not ctx.thorough() and (ei + final_nl + (via == "arg") + len(pn)) % 3:
                        continue
                    jobs.append((pn, pre + end + ("\n" if final_nl else ""), via))

    # the decorated output mode (tables, colours, hints) has code of its own for most commands: the same kinds of
    # session without --minimal
    for pn in ("halts.asm", "to_ffff.asm", "runs_off.asm"):
        for cmd in ("break add ^1;break list;continue", "break list", "break add ^0;break add ^2;break add ^1;break list;break remove ^1;break list;continue",
                    "registers;print r0;assembly;assembly ^1;help;continue", "step;registers;step into 2;break list;goto m;print nowhere;continue", ";break list"):
            for via in ("stdin-decorated", "arg-decorated"):
                jobs.append((pn, cmd.replace(";", "\n") + "\n" if via.startswith("stdin") else cmd, via))
    # commands that name a label, on programs that define none (and on one that does): looked up, not found, on to the next
    _write(os.path.join(d, "no_labels.asm"), "add r0 r0 #1\nadd r0 r0 #1\nhalt\n")
    progs["no_labels.asm"] = "add r0 r0 #1\nadd r0 r0 #1\nhalt\n"
    for pn in ("no_labels.asm", "runs_off.asm", "halts.asm"):
        for cmd in ("goto begin", "print data+1", "break add loop", "assembly nowhere", "break remove m1", "move x 5", "goto m", "print M+1;continue"):
            for via in ("stdin", "arg"):
                jobs.append((pn, cmd + ("\n" if via == "stdin" else ""), via))
    # a program whose first branch relies on the condition codes of a fresh machine (none set: no branch is taken):
    # after `reset` it is a fresh machine again, and the run ends as it did the first time
    progs["fresh_cc.asm"] = "brnzp spin\nand r0 r0 #0\nhalt\nspin brnzp spin\n"
    _write(os.path.join(d, "fresh_cc.asm"), progs["fresh_cc.asm"])
    for cmd in ("continue;reset;continue", "step;step;reset;continue", "step into 2;reset;step into 3;continue", "continue;reset;reset;step;continue", "reset;continue"):
        for via in ("stdin", "arg"):
            jobs.append(("fresh_cc.asm", cmd.replace(";", "\n") + "\n" if via == "stdin" else cmd, via))
    # a hand-made call (`eval jsr`) from a pause: the subroutine returns to the instruction the debugger was
    # paused on, none is skipped - here the skipped one would decide whether the loop ever ends
    progs["eval_call.asm"] = "and r1 r1 #0\nadd r1 r1 #4\nlp add r1 r1 #-1\nadd r1 r1 #-1\nbrnp lp\nhalt\nf ret\n"
    _write(os.path.join(d, "eval_call.asm"), progs["eval_call.asm"])
    for cmd in ("step;step;eval jsr f;continue", "step into 2;eval jsr f;step;continue", "step;step;move r2 x3006;eval jsrr r2;continue", "break add lp;continue;eval jsr f;continue;eval jsr f;continue;continue"):
        for via in ("stdin", "arg"):
            jobs.append(("eval_call.asm", cmd.replace(";", "\n") + "\n" if via == "stdin" else cmd, via))
    # standard input that cannot be read at all (a directory): the script given with --command runs, then the
    # reader meets an error instead of an end - the session ends (giving up counts), it does not spin
    for pn in ("halts.asm", "puts_at_ffff.asm", "to_ffff.asm"):
        for cmd in ("continue", "step;step", "eval puts;continue", ""):
            jobs.append((pn, cmd, "stdin-is-a-directory"))
    for pn in ("halts.asm", "to_ffff.asm"):
        for raw in raw_endings:
            for final_nl in (False, True):
                jobs.append((pn, raw + (b"\n" if final_nl else b""), "stdin-bytes"))

    def limit():
        resource.setrlimit(resource.RLIMIT_CPU, (10, 12))

    def one(job):
        pn, script, via = job
        exe = common.cli_bin(ctx)
        env = dict(common.ENV, NO_COLOR="1", XDG_CACHE_HOME=ctx.scratch)
        args = [exe, "debug", pn, "--minimal"]
        data = b""
        dirfd = None
        if via.endswith("-decorated"):
            args = [exe, "debug", pn]
        if via.startswith("arg"):
            args += ["--command", script.replace("\n", ";").replace("\x00", "")]
        elif via == "stdin-is-a-directory":
            if script:
                args += ["--command", script]
            dirfd = os.open(d, os.O_RDONLY)
        elif via == "stdin-bytes":
            data = script
        else:
            data = script.encode()
        t0 = time.time()
        try:
            if dirfd is not None:
                p = subprocess.run(args, stdin=dirfd, stdout=subprocess.PIPE, stderr=subprocess.PIPE, cwd=d, env=env,
                                   timeout=120, preexec_fn=limit)
            else:
                p = subprocess.run(args, input=data, stdout=subprocess.PIPE, stderr=subprocess.PIPE, cwd=d, env=env,
                                   timeout=120, preexec_fn=limit)
            rc = p.returncode
            out, err = p.stdout, p.stderr
        except subprocess.TimeoutExpired as ex:
            rc, out, err = None, ex.stdout or b"", ex.stderr or b""
        finally:
            if dirfd is not None:
                os.close(dirfd)
        return job, rc, out[-300:], err[-300:], time.time() - t0
    for (pn, script, via), rc, out, err, wall in pmap(one, jobs):
        res.evaluations += 1
        res.cls("l2:session_through_real_reader:" + via)
        res.cls("l2:program:" + pn.split(".")[0])
        if via == "stdin-bytes":
            res.cls("l2:script_not_utf8")
            script = repr(script)
        elif not script.endswith("\n"):
            res.cls("l2:script_without_final_newline")
        detail = {"program": progs[pn], "script": script, "delivery": via, "exit": rc,
                  "stdout_tail": out.decode("utf-8", "replace"), "stderr_tail": err.decode("utf-8", "replace")}
        if rc in (-24, -9) and wall < 110:
            res.violate("C16/cli/spins", "`lace debug` used more than 10 s of CPU time on a terminating program with a %d-byte script "
                        "followed by end of input (normal cost: milliseconds)" % len(script), detail)
        elif rc is None:
            res.inconclusive["session exceeded the 120 s wall-clock watchdog without using its CPU budget"] = \
                res.inconclusive.get("session exceeded the 120 s wall-clock watchdog without using its CPU budget", 0) + 1
        elif via == "stdin-bytes" and rc == 101:
            res.cls("l2:session_terminated")
            res.cls("l2:not_utf8_ended_by_reader_giving_up")
        elif via == "stdin-is-a-directory" and rc == 101:
            res.cls("l2:session_terminated")
            res.cls("l2:unreadable_stdin_ended_by_reader_giving_up")
        elif rc == 101 or (rc is not None and rc < 0):
            res.violate("C16/cli/crash", "`lace debug` crashed (exit %s)" % rc, detail)
        else:
            res.cls("l2:session_terminated")
    c16_input_traps(ctx, res, d)
    c16_terminal_streams(ctx, res)
    res.require(["l2:session_through_real_reader:stdin", "l2:session_through_real_reader:arg", "l2:script_without_final_newline",
                 "l2:session_terminated", "l2:input_trap_under_debugger:arg", "l2:input_trap_under_debugger:stdin", "l2:program:halts", "l2:program:runs_off", "l2:program:jumps_low", "l2:program:to_ffff",
                 "l2:program:prints_esc", "l2:script_not_utf8", "l2:program:puts_at_ffff", "l2:program:fresh_cc", "l2:program:no_labels", "l2:program:eval_call", "l2:session_through_real_reader:stdin-is-a-directory",
                 "l2:session_through_real_reader:arg-decorated", "l2:session_through_real_reader:stdin-decorated"], "L2")


def _asleep(pid):
    """(state letter, number of the system call the process sleeps in, CPU ticks so far) or None when it is gone."""
    try:
        with open("/proc/%d/stat" % pid) as f:
            state = f.read().rsplit(") ", 1)[1].split()[0]
        with open("/proc/%d/syscall" % pid) as f:
            sc = f.read().split()
    except (OSError, IndexError):
        return None
    return state, (sc[0] if sc else "?"), common._cpu_ticks(pid)


def _watch_until_over_or_asleep(p, drain, extra_condition, samples=10, budget=120):
    """Wait for the process to end. Returns (exit status, None), or (None, description) once it has been
    asleep in one system call with its CPU time standing still for `samples` consecutive half seconds
    while `extra_condition()` holds (a reason why no event can come that would wake it), or (None, None)
    when the wall-clock watchdog fires first (undecided)."""
    still, last = 0, None
    deadline = time.time() + budget
    while time.time() < deadline:
        drain(0.5)
        rc = p.poll()
        if rc is not None:
            return rc, None
        st = _asleep(p.pid)
        if st and st[0] == "S" and last is not None and st == last and extra_condition():
            still += 1
            if still >= samples:
                return None, "asleep in system call %s, CPU time standing at %s ticks for %d consecutive half seconds" % (st[1], st[2], samples)
        else:
            still = 0
        last = st
    return None, None


def c16_terminal_streams(ctx, res):
    """Sessions with a terminal somewhere around them. (1) The script comes on redirected standard input
    (`lace debug p.asm < cmds.txt`) while the messages go to a terminal: the script is read, the session
    ends with it. (2) A finite --command script given on a terminal while another session of the same
    user sits idle at its prompt: it ends all the same. Nobody types on these terminals, so a process
    asleep with its CPU time standing still and its script unread (1) or asleep in flock() (2) stays so."""
    import pty
    import fcntl
    import termios
    import select
    d = _dir(ctx, "c16_tty")
    cache = os.path.join(d, "cache")
    os.makedirs(cache, exist_ok=True)
    _write(os.path.join(d, "p.asm"), ".orig x3000\nand r1, r1, #0\nadd r1, r1, #3\nloop add r1, r1, #-1\nbrp loop\nhalt\n")
    _write(os.path.join(d, "cmds.txt"), "stepinto 2\nregisters\ncontinue\necho done\n")
    env = dict(common.ENV, XDG_CACHE_HOME=cache, TERM="xterm")
    for variant in ("stdout_and_stderr_on_terminal", "stderr_on_terminal", "stdout_on_terminal"):
        master, slave = pty.openpty()

        def pre():
            os.setsid()
            fcntl.ioctl(slave, termios.TIOCSCTTY, 0)       # the terminal is the session's controlling terminal, as in a shell
        script = open(os.path.join(d, "cmds.txt"), "rb")
        sink = open(os.path.join(d, "sink.%s" % variant), "wb")
        p = subprocess.Popen([common.cli_bin(ctx), "debug", "p.asm", "--minimal"], cwd=d, env=env, stdin=script,
                             stdout=slave if variant != "stderr_on_terminal" else sink, stderr=slave if variant != "stdout_on_terminal" else sink, preexec_fn=pre)
        os.close(slave)
        shown = bytearray()

        def drain(wait):
            end = time.time() + wait
            while True:
                left = end - time.time()
                if left <= 0:
                    return
                r, _, _ = select.select([master], [], [], left)
                if not r:
                    return
                try:
                    data = os.read(master, 65536)
                except OSError:
                    time.sleep(min(left, 0.1))
                    return
                if not data:
                    return
                shown.extend(data)

        def unread():
            try:
                with open("/proc/%d/fdinfo/0" % p.pid) as f:
                    return f.read().split("pos:")[1].split()[0] == "0"
            except (OSError, IndexError):
                return False
        rc, why = _watch_until_over_or_asleep(p, drain, unread)
        if rc is None:
            p.kill()
            p.wait()
        drain(0.2)
        os.close(master)
        script.close()
        sink.close()
        res.evaluations += 1
        res.cls("l2:script_on_redirected_stdin_with:" + variant)
        seen = bytes(shown) + open(os.path.join(d, "sink.%s" % variant), "rb").read()
        detail = {"command": "lace debug p.asm --minimal < cmds.txt", "streams": variant, "exit": rc, "terminal_tail": bytes(shown[-300:]).decode("utf-8", "replace")}
        if why:
            res.violate("C16/cli/blocked-for-good", "`lace debug p.asm < cmds.txt` with %s never ends: %s, the script on its standard input unread (it waits for keys from a terminal nobody types on)" % (variant.replace("_", " "), why), detail)
        elif rc is None:
            k = "session with messages on a terminal exceeded the 120 s wall-clock watchdog (undecided)"
            res.inconclusive[k] = res.inconclusive.get(k, 0) + 1
        elif rc == 101 or rc < 0:
            res.violate("C16/cli/crash", "`lace debug` crashed (exit %s)" % rc, detail)
        elif b"done" not in seen:
            res.violate("C16/cli/script-not-read", "`lace debug p.asm < cmds.txt` with %s ended (exit %s) without carrying out the script (its `echo done` never shows)" % (variant.replace("_", " "), rc), detail)
        else:
            res.cls("l2:session_terminated")
    # (2) an idle session and a scripted one, one user, one cache directory
    a = _Pty(ctx, d, cache)
    b = _Pty(ctx, d, cache, extra=["--minimal", "--command", "registers;exit"])
    rc, why = _watch_until_over_or_asleep(b.p, b.drain, lambda: (_asleep(b.p.pid) or ("", "", 0))[1] == "73")
    if rc is None:
        b.p.kill()
        b.p.wait()
    os.close(b.master)
    a.type(["exit", "<Enter>"])
    ra = a.finish(20)
    res.evaluations += 1
    res.cls("l2:scripted_session_beside_an_idle_one")
    detail = {"command": "lace debug p.asm --minimal --command 'registers;exit' (on a terminal, another session idle at its prompt)", "exit": rc, "idle_session_exit": ra,
              "terminal_tail": bytes(b.shown[-300:]).decode("utf-8", "replace")}
    if why:
        res.violate("C16/cli/blocked-for-good", "a session over a finite --command script never ends while another session is open: %s (flock), waiting for a lock the idle session holds" % why, detail)
    elif rc is None:
        k = "scripted session beside an idle one exceeded the 120 s wall-clock watchdog (undecided)"
        res.inconclusive[k] = res.inconclusive.get(k, 0) + 1
    elif rc == 101 or rc < 0:
        res.violate("C16/cli/crash", "`lace debug` crashed (exit %s)" % rc, detail)
    else:
        res.cls("l2:session_terminated")
    res.require(["l2:script_on_redirected_stdin_with:stdout_and_stderr_on_terminal", "l2:script_on_redirected_stdin_with:stderr_on_terminal", "l2:scripted_session_beside_an_idle_one"], "L2")


def _blocked_on_itself(pid):
    """A process with a single thread which sleeps in futex() with its CPU time standing still is
    waiting for a wake-up that only another thread of the same process could send (lace shares no
    memory with anybody): a logical verdict, not a deadline. Returns a description or None."""
    try:
        tasks = os.listdir("/proc/%d/task" % pid)
        with open("/proc/%d/syscall" % pid) as f:
            sc = f.read().split()
        with open("/proc/%d/stat" % pid) as f:
            state = f.read().rsplit(") ", 1)[1].split()[0]
    except (OSError, IndexError):
        return None
    if len(tasks) == 1 and sc and sc[0] == "202" and state == "S":
        return "single thread asleep in futex(%s, op %s)" % (sc[1] if len(sc) > 1 else "?", sc[2] if len(sc) > 2 else "?")
    return None


def c16_input_traps(ctx, res, d):
    """Programs that read input (GETC, IN, `eval getc`) while the debugger is attached and standard
    input is a pipe shared by the command reader and the program: the session must come to an end.
    A session asleep for good on a lock of its own is decided from /proc (one thread, in futex(),
    CPU time not moving over consecutive samples), never from the wall clock alone."""
    _write(os.path.join(d, "reads.asm"), "getc\nout\nin\nout\nhalt\n")
    _write(os.path.join(d, "reads_loop.asm"), "and r1 r1 #0\nadd r1 r1 #3\nlp getc\nout\nadd r1 r1 #-1\nbrp lp\nhalt\n")
    # reads until a line end: when the input runs out first, the run ends there (an input trap at the end of input)
    _write(os.path.join(d, "reads_line.asm"), "lp getc\nadd r1 r0 #-10\nbrnp lp\nhalt\n")
    jobs = [("reads.asm", "arg", "continue", b"ab"), ("reads.asm", "arg", "step;step;step;step;continue", b"ab"),
            ("reads.asm", "stdin", None, b"continue\nab"), ("reads.asm", "stdin", None, b"step\nastep\nstep\nbcontinue\n"),
            ("reads.asm", "arg", "eval getc;registers;continue", b"xab"), ("reads.asm", "arg", "step into 4;continue", b"ab\n"),
            ("reads_loop.asm", "arg", "continue", b"xyz"), ("reads_loop.asm", "arg", "break add lp;continue;continue;continue;continue", b"xyz"),
            ("reads_loop.asm", "stdin", None, b"continue\nxyz"), ("reads_loop.asm", "arg", "continue", b"x"),
            ("reads.asm", "arg", "continue", b""), ("reads_loop.asm", "arg", "step into 100", b"xyz"),
            ("reads_line.asm", "arg", "continue", b"abc"), ("reads_line.asm", "arg", "continue", b"abc\n"), ("reads_line.asm", "arg", "step into 2;continue", b""),
            ("reads_line.asm", "stdin", None, b"continue\nno line end"), ("reads_line.asm", "arg", "quit", b"abc")]

    def one(job):
        pn, via, cmd, data = job
        args = [common.cli_bin(ctx), "debug", pn, "--minimal"] + (["--command", cmd] if cmd else [])
        env = dict(common.ENV, NO_COLOR="1", XDG_CACHE_HOME=ctx.scratch)
        import resource

        def cpu_limit():
            resource.setrlimit(resource.RLIMIT_CPU, (10, 12))
        p = subprocess.Popen(args, stdin=subprocess.PIPE, stdout=subprocess.PIPE, stderr=subprocess.PIPE, cwd=d, env=env, preexec_fn=cpu_limit)
        try:
            p.stdin.write(data)
            p.stdin.close()
        except OSError:
            pass
        asleep, last_ticks, why = 0, None, None
        t0 = time.time()
        while p.poll() is None and time.time() - t0 < 120:
            time.sleep(0.25)
            b = _blocked_on_itself(p.pid)
            ticks = common._cpu_ticks(p.pid)
            if b and ticks is not None and ticks == last_ticks:
                asleep += 1
                if asleep >= 8:
                    why = b
                    break
            else:
                asleep = 0
            last_ticks = ticks
        rc = p.poll()
        if rc is None:
            p.kill()
        out = p.stdout.read()[-300:]
        err = p.stderr.read()[-300:]
        p.wait()
        return job, rc, why, out, err
    for (pn, via, cmd, data), rc, why, out, err in pmap(one, jobs):
        res.evaluations += 1
        res.cls("l2:input_trap_under_debugger:" + via)
        detail = {"program": pn, "command": cmd, "stdin": repr(data), "exit": rc,
                  "stdout_tail": out.decode("utf-8", "replace"), "stderr_tail": err.decode("utf-8", "replace")}
        if rc in (-24, -9):
            res.violate("C16/cli/spins", "`lace debug` on a program that reads input used more than 10 s of CPU time (normal cost: milliseconds): the program itself ends when its input does", detail)
        elif why:
            res.violate("C16/cli/blocked-for-good", "`lace debug` on a program that reads input never ends: %s, CPU time not moving (standard input at its end)" % why, detail)
        elif rc is None:
            k = "session with input traps exceeded the 120 s wall-clock watchdog (undecided)"
            res.inconclusive[k] = res.inconclusive.get(k, 0) + 1
        elif rc == 101 or rc < 0:
            res.violate("C16/cli/crash", "`lace debug` crashed (exit %s)" % rc, detail)
        else:
            res.cls("l2:session_terminated")


# ------------------------------------------------------------------ C17 (L2: what the user reads)

def c17_cli(ctx, res):
    """`assembly <address>` at the CLI, in minimal mode: the lines that reach standard error, after
    every output filter, against the statement text recorded by the renderer."""
    cp = corpus(ctx)
    entries = cp["listing"]
    d = _dir(ctx, "c17")

    def one(ix):
        e = entries[ix]
        name = "l%d.asm" % ix
        _write(os.path.join(d, name), e["source"])
        addrs = list(range(e["origin"], e["origin"] + len(e["texts"])))
        script = ";".join("assembly x%04x" % a for a in addrs)
        r = lace(ctx, ["debug", name, "--minimal", "--command", script + ";exit"] + feat(e), cwd=d, timeout=30)
        return ix, r
    for ix, r in pmap(one, range(len(entries))):
        e = entries[ix]
        res.evaluations += len(e["texts"])
        res.cls("l2:listing_program")
        want = "".join(t + "\n" for t in e["texts"])
        got = r.err.decode("utf-8", "replace")
        if "\t" in want:
            res.cls("l2:listing_statement_with_tab")
        if any(ord(c) > 127 for c in want):
            res.cls("l2:listing_statement_multibyte")
        if r.rc is None or r.crashed:
            res.violate("C17/cli/crash", "`lace debug` crashed (exit %s)" % r.rc, dict(r.brief(), source=e["source"]))
        elif got != want:
            wl, gl = want.split("\n"), got.split("\n")
            k = next((i for i in range(min(len(wl), len(gl))) if wl[i] != gl[i]), min(len(wl), len(gl)))
            res.violate("C17/cli/assembly-text",
                        "`assembly x%04x` shows %r at the CLI, the statement text is %r"
                        % (e["origin"] + k, gl[k] if k < len(gl) else None, wl[k] if k < len(wl) else None),
                        dict(r.brief(), source=e["source"], expected_stderr=want[-800:]))
    # labels as locations, one command after the other, through every reader (the line a label was read
    # from is gone when the next command is read): names of equal length at equal columns, the same name
    # with different offsets, a longer name between two short ones
    d2 = _dir(ctx, "c17_labels")
    _write(os.path.join(d2, "p.asm"), ".orig x3000\nloop add r1 r1 #-1\nbrp loop\ndone lea r0 greet\nputs\nhalt\ncount .fill #3\ngreet .stringz \"hey\"\n")
    answer = {"assembly loop": "add r1 r1 #-1", "assembly done": "lea r0 greet", "assembly done+1": "puts", "print count": "x0003",
              "print greet": "x0068", "assembly greet": ".stringz \"hey\"", "assembly count": ".fill #3", "print done": "xe003",
              "assembly loop+1": "brp loop", "assembly done-1": "brp loop", "print loop": "x127f", "a loop": "add r1 r1 #-1", "a done": "lea r0 greet",
              "assembly greet+1": ".stringz \"hey\"", "print count+1": "x0068"}
    rng = random.Random(ctx.seed * 17 + 5)
    orders = [["assembly loop", "assembly done", "assembly done+1", "print count", "print greet", "assembly greet", "assembly count", "print done", "assembly loop+1"],
              ["assembly done", "assembly loop", "assembly done", "assembly loop", "a done", "a loop", "print greet", "print count", "print greet"],
              ["assembly done+1", "assembly done-1", "assembly done", "assembly loop+1", "assembly loop", "print count+1", "print count", "assembly greet+1"]]
    keys = sorted(answer)
    for _ in range(4 if not ctx.thorough() else 40):
        orders.append([rng.choice(keys) for _ in range(12)])
    for oi, cmds in enumerate(orders):
        want = "".join(answer[c] + "\n" for c in cmds)
        for via in ("arg", "stdin", "stdin-crlf", "split"):
            args = ["debug", "p.asm", "--minimal"]
            data = b""
            if via == "arg":
                args += ["--command", ";".join(cmds + ["exit"])]
            elif via == "split":
                args += ["--command", ";".join(cmds[:3])]
                data = ("\n".join(cmds[3:] + ["exit"]) + "\n").encode()
            else:
                data = (("\r\n" if via == "stdin-crlf" else "\n").join(cmds + ["exit"]) + "\n").encode()
            r = lace(ctx, args, stdin=data, cwd=d2, timeout=30)
            res.evaluations += len(cmds)
            res.cls("l2:label_queries_via:" + via)
            got = r.err.decode("utf-8", "replace")
            if r.rc is None or r.crashed:
                res.violate("C17/cli/crash", "`lace debug` crashed (exit %s)" % r.rc, dict(r.brief(), script=cmds, delivery=via))
            elif got != want:
                wl, gl = want.split("\n"), got.split("\n")
                k = next((i for i in range(min(len(wl), len(gl))) if wl[i] != gl[i]), min(len(wl), len(gl)))
                res.violate("C17/cli/label-location", "`%s` (command %d of a script delivered as %s) answers %r; the label's statement gives %r"
                            % (cmds[k] if k < len(cmds) else "?", k + 1, via, gl[k] if k < len(gl) else None, wl[k] if k < len(wl) else None),
                            dict(r.brief(), script=cmds, delivery=via, expected_stderr=want))
    res.require(["l2:listing_program", "l2:listing_statement_with_tab", "l2:label_queries_via:arg", "l2:label_queries_via:stdin", "l2:label_queries_via:split"], "L2")


# ------------------------------------------------------------------ C18

def c18_cli(ctx, res):
    cp = corpus(ctx)
    d = _dir(ctx, "c18")
    cases = []
    for e in cp["mixed"]:
        if e["verdict"] == "accept":
            cases.append(e)
    cases = cases[:60 if not ctx.thorough() else 600]

    def one(ix):
        e = cases[ix]
        name = "g%d.asm" % ix
        _write(os.path.join(d, name), e["source"])
        off = lace(ctx, ["compile", name, "g%d_off.lc3" % ix], cwd=d)
        on = lace(ctx, ["compile", name, "g%d_on.lc3" % ix, "-f", "stack"], cwd=d)
        return ix, off, on
    for ix, off, on in pmap(one, range(len(cases))):
        e = cases[ix]
        res.evaluations += 1
        want = b"".join(int(w).to_bytes(2, "big") for w in e["image"])
        p_off = os.path.join(d, "g%d_off.lc3" % ix)
        p_on = os.path.join(d, "g%d_on.lc3" % ix)
        detail = {"source": e["source"][-800:], "uses_stack_ext": e["uses_stack_ext"], "flag_off": off.brief(), "flag_on": on.brief()}
        if on.rc != 0 or not os.path.exists(p_on) or open(p_on, "rb").read() != want:
            res.violate("C18/cli/flag-on", "with `-f stack` a valid program does not compile to its image", detail)
            continue
        if e["uses_stack_ext"]:
            res.cls("l2:ext_program")
            text = (off.err + off.out).decode("utf-8", "replace")
            if off.rc == 0:
                res.violate("C18/cli/accepted-without-flag", "a source using push/pop/call/rets compiles without `-f stack`", detail)
            elif off.crashed:
                res.violate("C18/cli/crash", "`lace compile` crashed", detail)
            elif "stack" not in text:
                res.violate("C18/cli/diagnostic-does-not-name-feature", "rejected without naming the `stack` feature", detail)
        else:
            res.cls("l2:plain_program")
            if off.rc != 0 or open(p_off, "rb").read() != want:
                res.violate("C18/cli/image-depends-on-flag", "a program using none of the four mnemonics compiles differently without the flag", detail)
    # run-time gate on raw images
    for ix, (word, name) in enumerate([(0xD400, "push"), (0xD000, "pop"), (0xDC01, "call"), (0xD800, "rets")]):
        data = (0x3000).to_bytes(2, "big") + word.to_bytes(2, "big") + (0xF025).to_bytes(2, "big")
        _write(os.path.join(d, "raw%d.lc3" % ix), data)
        off = lace(ctx, ["run", "raw%d.lc3" % ix, "--minimal"], cwd=d)
        on = lace(ctx, ["run", "raw%d.lc3" % ix, "--minimal", "-f", "stack"], cwd=d)
        res.evaluations += 1
        res.cls("l2:raw_0xD")
        if off.rc != 1:
            res.violate("C18/cli/runtime-gate", "opcode 0xD (%s) without the flag: exit %s, documented 1" % (name, off.rc),
                        {"run": off.brief()})
        if on.rc == 1 and b"reserved" in on.err:
            res.violate("C18/cli/runtime-gate-on", "opcode 0xD (%s) refused although `-f stack` was given" % name, {"run": on.brief()})
    # ---- behaviour of plain programs at the CLI: `-f stack` must not change a byte of what is
    # printed nor the exit status. Entries whose reference run (flag off) halted normally never
    # executed an opcode-0xD word, so with the flag on the instruction sequence is the same.
    plain = [e for e in cp["structured"] if not e["stack"] and not e["uses_stack_ext"] and e["ref"]["halted"]]
    plain = plain[:40 if not ctx.thorough() else 600]

    def run_both(ix):
        e = plain[ix]
        name = "h%d.asm" % ix
        _write(os.path.join(d, name), e["source"])
        mode = ["--minimal"] if ix % 2 == 0 else []
        off = lace(ctx, ["run", name] + mode, stdin=bytes(e["input"]), cwd=d)
        on = lace(ctx, ["run", name] + mode + ["-f", "stack"], stdin=bytes(e["input"]), cwd=d)
        return ix, off, on
    for ix, off, on in pmap(run_both, range(len(plain))):
        e = plain[ix]
        res.evaluations += 1
        res.cls("l2:plain_program_run")
        if "jsr" in e["source"].lower():  # JSR/JSRR leave a return address in R7, the stack pointer of the extension
            res.cls("l2:plain_program_run_r7_changed")
        if (off.rc, off.out, off.err) != (on.rc, on.out, on.err):
            which = "exit status" if off.rc != on.rc else ("stdout" if off.out != on.out else "stderr")
            res.violate("C18/cli/behaviour-depends-on-flag/" + which.replace(" ", "-"),
                        "a program using none of the four mnemonics gives a different %s under `lace run` with `-f stack`" % which,
                        {"source": e["source"][-800:], "flag_off": off.brief(), "flag_on": on.brief()})
    # every subcommand that assembles or runs takes the flag: `debug` with an empty script and end of
    # input behaves like `run` (C09), so an extension program must assemble and run there too
    extp = "and r0 r0 #0\nadd r0 r0 #5\npush r0\ncall f\npop r1\nadd r1 r1 #0\nputn\nhalt\nf add r0 r0 #1\nrets\n"
    _write(os.path.join(d, "ext.asm"), extp)
    for sub, extra in (("run", []), ("debug", ["--command", "continue"]), ("debug", []), ("check", []), ("compile", []),
                       # the flag holds for the whole session, also after `reset` put the machine back
                       ("debug", ["--command", "step;step;step;reset;continue"]), ("debug", ["--command", "continue;reset;continue"]),
                       ("debug", ["--command", "reset;step into 3;reset;reset;continue"]), ("debug", ["--command", "break add f;continue;reset;continue;continue"])):
        args = [sub, "ext.asm"] + (["ext_%s.lc3" % sub] if sub == "compile" else []) + (["--minimal"] if sub in ("run", "debug") else []) + extra
        on = lace(ctx, args + ["-f", "stack"], cwd=d, stdin=b"")
        off = lace(ctx, args, cwd=d, stdin=b"")
        res.evaluations += 1
        res.cls("l2:extension_program_under:" + sub)
        detail = {"source": extp, "subcommand": sub, "flag_on": on.brief(), "flag_off": off.brief()}
        if on.rc != 0 or (sub in ("run", "debug") and b"6" not in on.out):
            res.violate("C18/cli/flag-on-not-honoured/" + sub, "`lace %s ... -f stack` does not assemble and execute a program using the extension (exit %s)" % (sub, on.rc), detail)
        if off.rc == 0 or off.crashed or b"stack" not in (off.err + off.out):
            res.violate("C18/cli/flag-off-not-rejected/" + sub, "`lace %s` without the flag: exit %s, diagnostic naming the feature expected" % (sub, off.rc), detail)
    # calls further than 255 words away, forwards and backwards (the field holds -512..511)
    far = "and r0 r0 #0\nadd r0 r0 #5\ncall g\nputn\nhalt\nf add r0 r0 #1\nrets\n.blkw #%d\ng call f\nadd r0 r0 #2\nrets\n"
    for gap in (240, 250, 300, 400, 500):
        _write(os.path.join(d, "far%d.asm" % gap), far % gap)
        for sub, extra in (("run", ["--minimal"]), ("debug", ["--minimal", "--command", "continue"])):
            on = lace(ctx, [sub, "far%d.asm" % gap] + extra + ["-f", "stack"], cwd=d, stdin=b"")
            res.evaluations += 1
            res.cls("l2:extension_program_with_far_calls")
            body, _h = program_output(on.out)
            if on.rc != 0 or b"8" not in body:
                res.violate("C18/cli/flag-on-not-honoured/far-call", "`lace %s -f stack` on a program whose calls reach %d words forwards and backwards: exit %s, output %r; with the flag it assembles and executes (prints 8)"
                            % (sub, gap + 4, on.rc, body[-40:]), {"source": far % gap, "run": on.brief()})
    # ... and calls the field cannot hold are refused by the assembler, flag or not
    for gap in (520, 600, 900, 1015):
        _write(os.path.join(d, "toofar%d.asm" % gap), far % gap)
        for sub, extra in (("check", []), ("compile", ["toofar%d.lc3" % gap]), ("run", ["--minimal"])):
            on = lace(ctx, [sub, "toofar%d.asm" % gap] + extra + ["-f", "stack"], cwd=d, stdin=b"", timeout=30)
            res.evaluations += 1
            res.cls("l2:extension_program_with_calls_out_of_reach")
            if on.rc == 0 or on.crashed or on.rc is None:
                res.violate("C18/cli/call-out-of-reach-accepted", "`lace %s -f stack` takes a program whose calls are %d words away (exit %s): the field holds -512..511, such a program cannot execute as written"
                            % (sub, gap + 4, on.rc), {"source": far % gap, "run": on.brief()})
    # the four instructions leave the condition codes alone (only loads and arithmetic set them)
    cc_progs = {
        "after_pop": "ld r1 m3\npush r1\nand r2 r2 #0\npop r3\nbrz good\nlea r0 bad\nputs\nhalt\ngood lea r0 ok\nputs\nhalt\nm3 .fill #-3\nbad .stringz \"BAD\"\nok .stringz \"OK\"\n",
        "after_push": "ld r1 m3\nand r2 r2 #0\npush r1\nbrz good\nlea r0 bad\nputs\nhalt\ngood lea r0 ok\nputs\nhalt\nm3 .fill #-3\nbad .stringz \"BAD\"\nok .stringz \"OK\"\n",
        "after_call_and_rets": "ld r1 m3\ncall f\nbrn good\nlea r0 bad\nputs\nhalt\ngood lea r0 ok\nputs\nhalt\nf brn g2\nlea r0 bad\nputs\ng2 rets\nm3 .fill #-3\nbad .stringz \"BAD\"\nok .stringz \"OK\"\n",
        "pop_of_zero_after_negative": "and r1 r1 #0\npush r1\nld r2 m3\npop r3\nbrn good\nlea r0 bad\nputs\nhalt\ngood lea r0 ok\nputs\nhalt\nm3 .fill #-3\nbad .stringz \"BAD\"\nok .stringz \"OK\"\n"}
    # a stack that starts at address 0: the first push goes to xFFFF and the pop brings the pointer back
    cc_progs["stack_pointer_zero"] = ("and r7 r7 #0\nld r1 v\npush r1\npop r2\nadd r3 r7 #0\nbrnp bad2\nadd r2 r2 #-16\nadd r2 r2 #-16\nadd r2 r2 #-1\nbrnp bad2\nlea r0 ok\nputs\nhalt\n"
                                      "bad2 lea r0 bad\nputs\nhalt\nv .fill #33\nbad .stringz \"BAD\"\nok .stringz \"OK\"\n")
    cc_progs["call_from_stack_pointer_zero"] = ("and r7 r7 #0\ncall f\nadd r3 r7 #0\nbrnp bad2\nlea r0 ok\nputs\nhalt\nf add r4 r7 #1\nbrnp bad2\nrets\n"
                                                "bad2 lea r0 bad\nputs\nhalt\nbad .stringz \"BAD\"\nok .stringz \"OK\"\n")
    for name, src in cc_progs.items():
        _write(os.path.join(d, "cc_%s.asm" % name), src)
        for sub, extra in (("run", ["--minimal"]), ("debug", ["--minimal", "--command", "step into 3;continue"])):
            on = lace(ctx, [sub, "cc_%s.asm" % name] + extra + ["-f", "stack"], cwd=d, stdin=b"", timeout=30)
            res.evaluations += 1
            res.cls("l2:extension_leaves_condition_codes")
            body, _h = program_output(on.out)
            if on.rc != 0 or b"OK" not in body or b"BAD" in body:
                res.violate("C18/cli/extension-changes-condition-codes", "`lace %s -f stack` on a program that branches right %s: exit %s, output %r (OK expected: push, pop, call and rets set no condition code)"
                            % (sub, name.replace("_", " "), on.rc, body[-40:]), {"source": src, "run": on.brief()})
    # opcode 0xD reached under the debugger without the flag: the VM stops with status 1 there too,
    # whatever command was driving it and whatever the script says afterwards
    for k, word in enumerate(("xD400", "xD000", "xDC01", "xD800")):
        name = "dbgd%d.asm" % k
        _write(os.path.join(d, name), "add r1 r1 #1\n.fill %s\nhalt\n" % word)
        for script in ("continue;exit", "step;step;exit", "si 5;registers;exit", "continue"):
            r = lace(ctx, ["debug", name, "--minimal", "--command", script], cwd=d, stdin=b"")
            res.evaluations += 1
            res.cls("l2:raw_0xD_under_debugger")
            if r.rc != 1:
                res.violate("C18/cli/runtime-gate", "opcode 0xD (%s) reached under `lace debug` (`%s`) without the flag: exit %s, the VM stops with 1" % (word, script, r.rc),
                            {"run": r.brief(), "script": script})
    # plain programs at the very top of user memory (no room for a stack): the flag still changes nothing
    for k, orig in enumerate(("xFDF8", "xFDFA", "xFDFC", "xFD00")):
        name = "top%d.asm" % k
        _write(os.path.join(d, name), ".orig %s\nand r0 r0 #0\nadd r0 r0 #7\nputn\nhalt\n" % orig)
        for sub, extra in (("run", ["--minimal"]), ("run", []), ("debug", ["--minimal", "--command", "continue"]), ("check", []), ("compile", ["top%d.lc3" % k])):
            args = [sub, name] + extra
            on = lace(ctx, args + ["-f", "stack"], cwd=d, stdin=b"")
            off = lace(ctx, args, cwd=d, stdin=b"")
            res.evaluations += 1
            res.cls("l2:plain_program_at_top_of_user_memory")
            if (on.rc, on.out, on.err) != (off.rc, off.out, off.err):
                which = "exit status" if off.rc != on.rc else ("stdout" if off.out != on.out else "stderr")
                res.violate("C18/cli/behaviour-depends-on-flag/" + which.replace(" ", "-"),
                            "a program using none of the four mnemonics (at %s) gives a different %s under `lace %s` with `-f stack`" % (orig, which, sub),
                            {"flag_off": off.brief(), "flag_on": on.brief()})
    _write(os.path.join(d, "regs.asm"), "jsr f\nreg\nhalt\nf add r1 r1 #3\nret\n")
    # plain programs whose *data* looks like opcode 0xD (never executed), from source and from the object file
    _write(os.path.join(d, "ddata.asm"), "ld r0 v\nld r1 w\nadd r0 r0 r1\nputn\nhalt\nv .fill xDEAD\nw .fill xD000\nu .fill #-9000\ndead .fill xD401\n")
    lace(ctx, ["compile", "ddata.asm", "ddata.lc3"], cwd=d)
    lace(ctx, ["compile", "ddata.asm", "ddata.obj"], cwd=d)
    for target in ("ddata.asm", "ddata.lc3", "ddata.obj"):
        for mode in ([], ["--minimal"]):
            on = lace(ctx, ["run", target] + mode + ["-f", "stack"], cwd=d, stdin=b"")
            off = lace(ctx, ["run", target] + mode, cwd=d, stdin=b"")
            res.evaluations += 1
            res.cls("l2:plain_program_with_0xD_data:" + target.rsplit(".", 1)[1])
            if (on.rc, on.out, on.err) != (off.rc, off.out, off.err) or off.rc != 0:
                which = "exit status" if off.rc != on.rc or off.rc != 0 else ("stdout" if off.out != on.out else "stderr")
                res.violate("C18/cli/behaviour-depends-on-flag/" + which.replace(" ", "-"),
                            "a program whose data words have a 0xD nibble (never executed) gives a different %s under `lace run %s` with and without `-f stack` (or fails)" % (which, target),
                            {"flag_off": off.brief(), "flag_on": on.brief()})
    # the four mnemonics offered to the assembler through the debugger's `eval`, flag off: refused
    # with a diagnostic naming the feature, in both output modes, and the session goes on
    for mn in ("push r0", "POP R1", "call f", "Rets"):
        for mode in ([], ["--minimal"]):
            r = lace(ctx, ["debug", "regs.asm"] + mode + ["--command", "eval %s;echo alive;exit" % mn], cwd=d, stdin=b"")
            res.evaluations += 1
            res.cls("l2:extension_mnemonic_through_eval")
            text = (r.err + r.out).decode("utf-8", "replace")
            if r.rc != 0 or "alive" not in text:
                res.violate("C18/cli/eval-ends-session", "`eval %s` without the flag ended the session (exit %s)" % (mn, r.rc), {"run": r.brief()})
            elif "stack" not in text.replace("regs.asm", ""):
                res.violate("C18/cli/diagnostic-does-not-name-feature", "`eval %s` without the flag is refused without naming the `stack` feature%s" % (mn, " (--minimal)" if mode else ""),
                            {"run": r.brief()})
    # `step out` inside a routine that holds a CALL to the very next statement (offset 0, the "where am I" idiom): the
    # routine ends at its RETS, not behind that CALL
    _write(os.path.join(d, "so.asm"), "call sub\nhalt\nsub add r1 r1 #1\ncall n1\nn1 pop r2\nadd r1 r1 #2\nrets\n")
    r = lace(ctx, ["debug", "so.asm", "--minimal", "-f", "stack", "--command", "step into 2;step out;registers;exit"], cwd=d, stdin=b"")
    res.evaluations += 1
    res.cls("l2:step_out_over_a_call_to_the_next_statement")
    got = dict(re.findall(r"^(R1|R2|PC) (x[0-9a-f]{4})", r.err.decode("utf-8", "replace"), re.M))
    if r.rc != 0 or got != {"R1": "x0003", "R2": "x3004", "PC": "x3001"}:
        res.violate("C18/cli/flag-on-not-honoured/step-out", "with `-f stack`, `step into 2;step out` in a routine holding `call n1 / n1 pop r2` pauses with %s (exit %s); the routine's RETS returns to x3001 with R1 = 3"
                    % (got, r.rc), {"run": r.brief()})
    # the flag's value is a list: every spelling of it that the command line takes (empty entries before or behind the
    # name) switches the extension on
    _write(os.path.join(d, "fs.asm"), "and r0 r0 #0\nadd r0 r0 #5\npush r0\npop r1\nadd r0 r1 #1\nputn\nhalt\n")
    for spelling in (["-f", "stack"], ["-f", ",stack"], ["-f", "stack,"], ["-f", ",,stack"], ["--features", ",stack"], ["--features=stack,"], ["-f,stack"]):
        for sub in ("run", "check", "compile"):
            r = lace(ctx, [sub, "fs.asm"] + (["fs.lc3"] if sub == "compile" else []) + (["--minimal"] if sub == "run" else []) + spelling, cwd=d, stdin=b"")
            res.evaluations += 1
            res.cls("l2:flag_spelling")
            text = (r.err + r.out).decode("utf-8", "replace")
            if r.rc == 2 and "invalid value" in text or "unexpected argument" in text:
                res.cls("l2:flag_spelling_refused_by_the_command_line")
                continue
            if r.rc != 0 or (sub == "run" and b"6" not in program_output(r.out)[0]):
                res.violate("C18/cli/flag-on-not-honoured/spelling", "`lace %s fs.asm %s` (exit %s): the command line takes this spelling of the flag, and with the flag the program assembles and prints 6"
                            % (sub, " ".join(spelling), r.rc), {"run": r.brief()})
    # ... and with the flag on they execute when given to `eval`, like in a program: PUSH/POP move a value, CALL pushes
    # the return address and goes to the routine, RETS comes back
    _write(os.path.join(d, "evalext.asm"), "add r0 r0 #5\nhalt\nf add r1 r1 #1\nrets\n")
    for mode in ([], ["--minimal"]):
        r = lace(ctx, ["debug", "evalext.asm", "-f", "stack"] + mode + ["--command", "step;eval push r0;eval pop r2;eval call f;registers;eval rets;registers;exit"], cwd=d, stdin=b"",
                 env={"NO_COLOR": "1"})
        res.evaluations += 1
        res.cls("l2:extension_mnemonic_executed_through_eval")
        text = _SGR.sub(b"", r.err).decode("utf-8", "replace")
        regs = re.findall(r"(R[0-7]|PC)\s+0?x([0-9a-fA-F]{4})", text)
        first = {k: v.lower() for k, v in regs[:len(regs) // 2]}
        second = {k: v.lower() for k, v in regs[len(regs) // 2:]}
        want1, want2 = {"R2": "0005", "R7": "fdfe", "PC": "3002"}, {"R2": "0005", "R7": "fdff", "PC": "3001"}
        bad = {k: (first.get(k), v) for k, v in want1.items() if first.get(k) != v}
        bad.update({k + "'": (second.get(k), v) for k, v in want2.items() if second.get(k) != v})
        if r.rc != 0 or bad:
            res.violate("C18/cli/flag-on-not-honoured/eval", "with `-f stack`, `eval push r0;eval pop r2;eval call f;registers;eval rets;registers` shows (got, expected) %s (exit %s): the four instructions execute when given to `eval`"
                        % (bad, r.rc), {"run": r.brief()})
    # a plain program that prints its registers (REG) after moving R7, in both output modes
    regp = "jsr f\nreg\nhalt\nf add r1 r1 #3\nret\n"
    for mode in ([], ["--minimal"]):
        for sub, extra in (("run", []), ("debug", ["--command", "step;registers;continue"])):
            on = lace(ctx, [sub, "regs.asm"] + mode + extra + ["-f", "stack"], cwd=d, stdin=b"")
            off = lace(ctx, [sub, "regs.asm"] + mode + extra, cwd=d, stdin=b"")
            res.evaluations += 1
            res.cls("l2:plain_program_prints_registers")
            if (on.rc, on.out, on.err) != (off.rc, off.out, off.err):
                which = "exit status" if off.rc != on.rc else ("stdout" if off.out != on.out else "stderr")
                res.violate("C18/cli/behaviour-depends-on-flag/" + which.replace(" ", "-"),
                            "a program using none of the four mnemonics gives a different %s under `lace %s%s` with `-f stack`" % (which, sub, " --minimal" if mode else ""),
                            {"source": regp, "flag_off": off.brief(), "flag_on": on.brief()})
    # `lace watch` keeps one process (and one feature setting) across re-checks
    watch_history(ctx, res, cp, "C18", 60, stack=True)
    watch_history(ctx, res, cp, "C18", 61, ext_sources=True)
    res.require(["l2:ext_program", "l2:plain_program", "l2:raw_0xD", "l2:plain_program_run", "l2:plain_program_run_r7_changed",
                 "watch_recheck", "watch_recheck_with_stack_flag", "l2:extension_program_under:debug", "l2:extension_program_with_far_calls", "l2:extension_program_with_calls_out_of_reach", "l2:extension_leaves_condition_codes", "l2:plain_program_prints_registers", "l2:raw_0xD_under_debugger",
                 "l2:plain_program_at_top_of_user_memory", "l2:plain_program_with_0xD_data:lc3", "l2:extension_mnemonic_through_eval"], "L2")


# ------------------------------------------------------------------ C09 (L2 sample)

def c09_cli(ctx, res, limit):
    import random
    rnd = random.Random(ctx.seed * 31 + 9)
    cp = corpus(ctx)
    no_input = [e for e in cp["structured"] if not e["input"] and "input" not in e["features"]][:limit]
    with_input = sorted([e for e in cp["structured"] if e["input"] and e["input_taken"] > 0], key=lambda e: e["has_break"])[:max(6, limit // 4)]
    # input-reading programs without `.break`, moved to the front of their group: the first three
    # run through to HALT with the debugger attached
    with_input.sort(key=lambda e: e["has_break"])
    entries = no_input + with_input
    under_dbg = {len(no_input) + k for k, e in enumerate(with_input[:3]) if not e["has_break"]}
    d = _dir(ctx, "c09")
    pool = ["step", "s", "si 3", "step into 10", "so", "continue", "c", "registers", "print r1", "print ^", "assembly",
            "break list", "echo x", "help", "break add ^2", "break add x{o1:04x}", "break remove x{o1:04x}", "p x{o0:04x}",
            "a x{o1:04x}", "bogus command", "si x", "print",
            # text in other scripts (two-byte characters with every lead byte range), also as would-be command names
            "echo \u043f\u0440\u0438\u0432\u0435\u0442", "echo \u05e9\u05dc\u05d5\u05dd \u0645\u0631\u062d\u0628\u0627", "echo caf\u00e9 \u03a9", "\u0434\u0430", "print \u07ff"]

    def one(ix):
        e = entries[ix]
        name = "d%d.asm" % ix
        _write(os.path.join(d, name), e["source"])
        o0 = e["image"][0]
        cmds = [rnd.choice(pool).format(o0=o0, o1=(o0 + rnd.randrange(0, max(1, len(e["image"]) - 1))) & 0xFFFF) for _ in range(rnd.randrange(0, 9))]
        reads_input = bool(e["input"])
        if ix in under_dbg:
            # the program reads (all of) its input while the debugger is still attached, and the script
            # simply runs out: the debugger then finds standard input at its end and detaches
            # (no pause may come before the input is consumed - the debugger would read it as
            # commands, legitimately: inspection commands only, then one `continue`)
            cmds = [c for c in cmds if not c.startswith(("c", "s", "b", "q", "Q"))] + ["continue"]
            script = ";".join(cmds)
            stdin = bytes(e["input"][:e["input_taken"]])   # exactly the bytes the reference run consumes
            plain = lace(ctx, ["run", name, "--minimal"] + feat(e), stdin=stdin, cwd=d, timeout=30)
            dbg = lace(ctx, ["debug", name, "--minimal", "--command", script] + feat(e), stdin=stdin, cwd=d, timeout=30)
            return ix, "(input read under the debugger) " + script, plain, dbg
        if reads_input:
            # stdin carries the program's input, so the script must detach explicitly
            # (no trailing delimiter after the last command)
            cmds = [c for c in cmds if not c.startswith(("c", "s"))] + [rnd.choice(["quit", "q", "Q"])]
        elif rnd.random() < 0.5:
            cmds.append(rnd.choice(["quit", "q"]))
        script = ";".join(cmds)
        stdin = bytes(e["input"])
        plain = lace(ctx, ["run", name, "--minimal"] + feat(e), stdin=stdin, cwd=d, timeout=30)
        args = ["debug", name, "--minimal"] + feat(e)
        if reads_input and ix % 2 == 1:
            # the script itself arrives on standard input, one command per line, ending in `quit`; the
            # bytes behind that line are the program's input: the debugger must leave them alone
            nl = "\r\n" if ix % 4 == 3 else "\n"   # scripts written on another system end their lines in CR LF
            script = nl.join(cmds)
            dbg = lace(ctx, args, stdin=script.encode() + nl.encode() + stdin, cwd=d, timeout=30)
            return ix, ("(stdin, CRLF) " if nl != "\n" else "(stdin) ") + script, plain, dbg
        if script:
            args += ["--command", script]
        dbg = lace(ctx, args, stdin=stdin, cwd=d, timeout=30)
        return ix, script, plain, dbg
    for ix, script, plain, dbg in pmap(one, range(len(entries))):
        e = entries[ix]
        res.evaluations += 1
        res.cls("l2:debug_vs_run")
        if e["input"]:
            res.cls("l2:debug_vs_run_with_program_input")
            if script.startswith("(stdin"):
                res.cls("l2:script_and_program_input_share_stdin")
            if script.startswith("(stdin, CRLF)"):
                res.cls("l2:script_with_crlf_line_endings")
            if script.startswith("(input read under the debugger)"):
                res.cls("l2:program_input_read_under_the_debugger")
        detail = {"source": e["source"][-800:], "script": script, "stdin": e["input"], "plain": plain.brief(), "debugged": dbg.brief()}
        if dbg.rc is None or dbg.crashed:
            res.violate("C09/cli/crash", "`lace debug` crashed or hung (exit %s) where `lace run` exits %s" % (dbg.rc, plain.rc), detail)
        elif dbg.rc != plain.rc:
            res.violate("C09/cli/exit-status", "exit status %s under the debugger, %s without" % (dbg.rc, plain.rc), detail)
        elif dbg.out != plain.out:
            res.violate("C09/cli/stdout", "program output differs between `lace debug` and `lace run`", detail)
    # directed: a program whose own output holds terminal control bytes (ESC, CSI, BEL), in both
    # output modes, script by --command and on standard input: byte-identical program output
    _write(os.path.join(d, "esc.asm"), "lea r0 s\nputs\nld r0 e\nout\nhalt\ne .fill x1b\ns .stringz \"a\x1b[2Jb\x1b[1mc\x07d\x1b\"\n")
    for mode in ([], ["--minimal"]):
        plain = lace(ctx, ["run", "esc.asm"] + mode, cwd=d, stdin=b"")
        for how in ("arg", "stdin", "none"):
            args = ["debug", "esc.asm"] + mode
            stdin = b""
            if how == "arg":
                args += ["--command", "step;registers;continue"]
            elif how == "stdin":
                stdin = b"step\nregisters\ncontinue\n"
            dbg = lace(ctx, args, cwd=d, stdin=stdin)
            res.evaluations += 1
            res.cls("l2:program_prints_control_bytes")
            if (dbg.rc, dbg.out) != (plain.rc, plain.out):
                res.violate("C09/cli/stdout" if dbg.rc == plain.rc else "C09/cli/exit-status",
                            "a program printing ESC/CSI/BEL: output or exit status differ between `lace run%s` and `lace debug%s` (script: %s)"
                            % (" --minimal" if mode else "", " --minimal" if mode else "", how), {"plain": plain.brief(), "debugged": dbg.brief()})
    # ... and one that writes an escape sequence character by character (OUT in a loop), paused in the middle of the
    # sequence while the debugger prints text of its own (with and without an `m` in it)
    _write(os.path.join(d, "esc_by_char.asm"), "lea r1 s\nlp ldr r0 r1 #0\nbrz done\nout\nadd r1 r1 #1\nbrnzp lp\ndone halt\ns .fill x1b\n.stringz \"[36mcolour\"\n.fill x1b\n.stringz \"[0m.\"\n")
    for mode in ([], ["--minimal"]):
        plain = lace(ctx, ["run", "esc_by_char.asm"] + mode, cwd=d, stdin=b"")
        for script in ("step into 4;echo mark;continue", "step into 4;echo text;step into 5;echo m;continue", "step into 9;registers;assembly;continue", "step into 14;help;echo 36m;continue",
                       "step into 4;frobnicate;continue", "step into 3;echo mark;step;echo m;continue"):
            for how in ("arg", "stdin"):
                args = ["debug", "esc_by_char.asm"] + mode + (["--command", script] if how == "arg" else [])
                dbg = lace(ctx, args, cwd=d, stdin=b"" if how == "arg" else script.replace(";", "\n").encode() + b"\n")
                res.evaluations += 1
                res.cls("l2:escape_sequence_written_across_pauses")
                if (dbg.rc, dbg.out) != (plain.rc, plain.out):
                    res.violate("C09/cli/stdout" if dbg.rc == plain.rc else "C09/cli/exit-status",
                                "a program writing an escape sequence one character at a time: output or exit status differ between `lace run%s` and `lace debug%s` with the script %r (%s)"
                                % (" --minimal" if mode else "", " --minimal" if mode else "", script, how), {"plain": plain.brief(), "debugged": dbg.brief()})
    # looking at the source in the decorated mode (where `assembly` shows lines of context): at origin x0000, and around a
    # word the program has just stored into - whichever line of the window it is
    _write(os.path.join(d, "at_zero.asm"), ".orig x0000\nlea r0 m\nputs\nhalt\nm .stringz \"hi\"\n")
    _write(os.path.join(d, "selfmod.asm"), "ld r0 w\nst r0 t\nadd r1 r1 #1\nadd r1 r1 #1\nt add r2 r2 #1\nadd r1 r1 #1\nlea r0 m\nputs\nhalt\nw .fill x14A2\nm .stringz \"ok\"\n")
    _write(os.path.join(d, "selfmod_last.asm"), "ld r0 w\nst r0 t\nlea r0 m\nputs\nhalt\nm .stringz \"ok\"\nw .fill x1\nt .fill x0\n")
    for prog, origin, n_st, pre in (("at_zero.asm", 0, 6, "step"), ("selfmod.asm", 0x3000, 12, "step into 2"), ("selfmod_last.asm", 0x3000, 10, "step into 2")):
        plain = lace(ctx, ["run", prog], cwd=d, stdin=b"")
        script = pre + ";" + ";".join("assembly x%04x" % (origin + k) for k in range(n_st)) + ";assembly;continue"
        for mode in ([], ["--minimal"]):
            dbg = lace(ctx, ["debug", prog] + mode + ["--command", script], cwd=d, stdin=b"")
            res.evaluations += 1
            res.cls("l2:assembly_of_every_statement:" + prog.split(".")[0])
            if (dbg.rc, program_output(_SGR.sub(b"", dbg.out))[0].strip()) != (plain.rc, program_output(_SGR.sub(b"", plain.out))[0].strip()):
                res.violate("C09/cli/stdout" if dbg.rc == plain.rc else "C09/cli/exit-status",
                            "`assembly` asked about every statement of %s (%s output): output or exit status differ between `lace run` and `lace debug`"
                            % (prog, "minimal" if mode else "decorated"), {"plain": plain.brief(), "debugged": dbg.brief(), "script": script})
    # a program that runs for a few million instructions before it prints and halts, under one `continue`: however long
    # it takes, it is the program's time
    _write(os.path.join(d, "long.asm"), "ld r2 n\nouter and r1 r1 #0\ninner add r1 r1 #-1\nbrnp inner\nadd r2 r2 #-1\nbrp outer\nlea r0 m\nputs\nhalt\nn .fill #%d\nm .stringz \"done\"\n"
           % (18 if not ctx.thorough() else 60))
    plain = lace(ctx, ["run", "long.asm", "--minimal"], cwd=d, stdin=b"", timeout=600)
    for script in ("continue;quit", "step into 3;continue", "break add x3006;continue;continue"):
        dbg = lace(ctx, ["debug", "long.asm", "--minimal", "--command", script], cwd=d, stdin=b"", timeout=600)
        res.evaluations += 1
        res.cls("l2:millions_of_instructions_under_one_continue")
        if plain.rc is None or dbg.rc is None:
            k = "a run of millions of instructions exceeded the 600 s watchdog (undecided)"
            res.inconclusive[k] = res.inconclusive.get(k, 0) + 1
        elif (dbg.rc, dbg.out) != (plain.rc, plain.out):
            res.violate("C09/cli/stdout" if dbg.rc == plain.rc else "C09/cli/exit-status",
                        "a program that executes about %d million instructions: output or exit status differ between `lace run` and `lace debug --command %r`"
                        % ((18 if not ctx.thorough() else 60) * 131072 // 1000000, script), {"plain": plain.brief(), "debugged": dbg.brief()})
    res.require(["l2:debug_vs_run", "l2:debug_vs_run_with_program_input", "l2:program_prints_control_bytes", "l2:script_and_program_input_share_stdin", "l2:program_input_read_under_the_debugger",
                 "l2:escape_sequence_written_across_pauses", "l2:millions_of_instructions_under_one_continue", "l2:assembly_of_every_statement:at_zero", "l2:assembly_of_every_statement:selfmod", "l2:assembly_of_every_statement:selfmod_last"], "L2")


# ------------------------------------------------------------------ C20 (L2: the line editor on a real terminal)

_KEYS = {"<Enter>": b"\r", "<BS>": b"\x7f", "<Del>": b"\x1b[3~", "<Left>": b"\x1b[D", "<Right>": b"\x1b[C", "<Up>": b"\x1b[A", "<Down>": b"\x1b[B"}


def _pty_session(ctx, d, cache, keys, streams, cols=None, fsize=None, extra=()):
    """Start `lace debug p.asm` on a pseudo-terminal, type `keys`, return (exit status or None, what the
    terminal showed). `streams` says where stdout and stderr go: the terminal or a file."""
    import pty
    import select
    master, slave = pty.openpty()
    if cols:
        import fcntl
        import struct
        import termios
        fcntl.ioctl(master, termios.TIOCSWINSZ, struct.pack("HHHH", 24, cols, 0, 0))     # a terminal that knows its size
    env = dict(common.ENV, XDG_CACHE_HOME=cache, TERM="xterm")
    outf = open(os.path.join(d, "stdout.log"), "wb") if streams in ("stdout_to_file", "both_to_file") else None
    errf = open(os.path.join(d, "stderr.log"), "wb") if streams in ("stderr_to_file", "both_to_file") else None
    pre = None
    if fsize is not None:
        import resource
        import signal as _signal

        def pre():
            # the history file cannot grow beyond `fsize` bytes; the signal that goes with the limit is ignored, so
            # the write simply fails (a full disk, a quota)
            _signal.signal(_signal.SIGXFSZ, _signal.SIG_IGN)
            resource.setrlimit(resource.RLIMIT_FSIZE, (fsize, fsize))
    p = subprocess.Popen([common.cli_bin(ctx), "debug", "p.asm"] + list(extra), cwd=d, env=env, stdin=slave, stdout=outf or slave, stderr=errf or slave,
                         start_new_session=True, preexec_fn=pre)
    os.close(slave)
    shown = bytearray()

    def drain(wait):
        end = time.time() + wait
        while True:
            left = end - time.time()
            if left <= 0:
                return
            r, _, _ = select.select([master], [], [], left)
            if not r:
                return
            try:
                data = os.read(master, 65536)
            except OSError:
                return
            if not data:
                return
            shown.extend(data)
    drain(1.5)
    for k in keys:
        seq = _KEYS.get(k)
        for chunk in ([seq] if seq is not None else [c.encode("utf-8") for c in k]):
            try:
                os.write(master, chunk)
            except OSError:
                break
            drain(0.08)
    deadline = time.time() + 60
    while p.poll() is None and time.time() < deadline:
        drain(0.3)
    rc = p.poll()
    if rc is None:
        p.kill()
        p.wait()
    os.close(master)
    for f in (outf, errf):
        if f:
            f.close()
    return rc, bytes(shown)


class _Pty:
    """One `lace debug p.asm` on a pseudo-terminal of its own, typed to in steps (for sessions that overlap)."""

    def __init__(self, ctx, d, cache, extra=()):
        import pty
        self.master, slave = pty.openpty()
        env = dict(common.ENV, XDG_CACHE_HOME=cache, TERM="xterm")
        self.p = subprocess.Popen([common.cli_bin(ctx), "debug", "p.asm"] + list(extra), cwd=d, env=env, stdin=slave, stdout=slave, stderr=slave, start_new_session=True)
        os.close(slave)
        self.shown = bytearray()
        self.drain(1.5)

    def drain(self, wait):
        import select
        end = time.time() + wait
        while True:
            left = end - time.time()
            if left <= 0:
                return
            r, _, _ = select.select([self.master], [], [], left)
            if not r:
                return
            try:
                data = os.read(self.master, 65536)
            except OSError:
                return
            if not data:
                return
            self.shown.extend(data)

    def type(self, keys):
        for k in keys:
            seq = _KEYS.get(k)
            for chunk in ([seq] if seq is not None else [c.encode("utf-8") for c in k]):
                try:
                    os.write(self.master, chunk)
                except OSError:
                    return
                self.drain(0.08)
        self.drain(0.4)

    def finish(self, wait=60):
        deadline = time.time() + wait
        while self.p.poll() is None and time.time() < deadline:
            self.drain(0.3)
        rc = self.p.poll()
        if rc is None:
            self.p.kill()
            self.p.wait()
        os.close(self.master)
        return rc


def c20_history_unwritable(ctx, res):
    """The history file cannot be written (a limit on file size of 0 or 10 bytes): the lines of this session are
    still the history of this session, and <Up> recalls them. What was submitted is read off the machine: two
    `step`s leave the PC at x3002."""
    base = _dir(ctx, "c20_fsize")
    for fsize, first in ((0, []), (10, ["registers", "<Enter>"]), (5, ["echo a", "<Enter>"])):
        d = os.path.join(base, "f%d" % fsize)
        cache = os.path.join(d, "cache")
        os.makedirs(cache, exist_ok=True)
        _write(os.path.join(d, "p.asm"), "add r0 r0 #1\nadd r0 r0 #1\nhalt\n")
        keys = first + ["step", "<Enter>", "<Up>", "<Enter>", "registers", "<Enter>", "exit", "<Enter>"]
        rc, shown = _pty_session(ctx, d, cache, keys, "all_on_terminal", fsize=fsize, extra=["--minimal"])
        res.evaluations += 1
        res.cls("l2:editor_with_unwritable_history_file")
        text = _SGR.sub(b"", shown).decode("utf-8", "replace")
        pcs = re.findall(r"PC (x[0-9a-f]{4})", text)
        detail = {"keys": keys, "history_file_size_limit": fsize, "exit": rc, "terminal_tail": text[-400:]}
        if rc is None:
            k = "session on a pseudo-terminal did not end within 60 s (undecided)"
            res.inconclusive[k] = res.inconclusive.get(k, 0) + 1
        elif rc == 101 or rc < 0:
            res.violate("C20/pty/crash", "`lace debug` on a terminal crashed (exit %s)" % rc, detail)
        elif not pcs or pcs[-1] != "x3002":
            res.violate("C20/pty/submitted-lines", "with a history file that cannot grow beyond %d bytes, `step` <Enter> <Up> <Enter> leaves the PC at %s; a plain editor submits `step` twice (PC x3002)"
                        % (fsize, pcs[-1:] or None), detail)
    res.require(["l2:editor_with_unwritable_history_file"], "L2")


def c20_shared_history(ctx, res):
    """Two sessions open at the same time on one history file (two terminals, one user), then a third that
    recalls what they submitted: the history a session starts from is every line submitted before it,
    in the order of submission, and Up/Enter submit those lines."""
    base = _dir(ctx, "c20_shared")
    for variant in ("empty_history", "history_from_an_earlier_session"):
        d = os.path.join(base, variant)
        cache = os.path.join(d, "cache")
        os.makedirs(cache, exist_ok=True)
        _write(os.path.join(d, "p.asm"), "add r0 r0 #1\nadd r0 r0 #1\nhalt\n")
        want = []
        if variant != "empty_history":
            p0 = _Pty(ctx, d, cache)
            p0.type(["print r0", "<Enter>", "exit", "<Enter>"])
            p0.finish()
            want += ["print r0", "exit"]
        a = _Pty(ctx, d, cache)
        b = _Pty(ctx, d, cache)
        a.type(["registers", "<Enter>"])
        b.type(["help", "<Enter>"])
        a.type(["echo from a", "<Enter>"])
        b.type(["quit", "<Enter>"])
        rb = b.finish()
        a.type(["exit", "<Enter>"])
        ra = a.finish()
        want += ["registers", "help", "echo from a", "quit", "exit"]
        hist = os.path.join(cache, "lace-debugger-history")
        got = open(hist, encoding="utf-8", errors="replace").read().splitlines() if os.path.exists(hist) else None
        # a third session: <Up> n times from the end of the history, Enter submits the n-th last line
        n_up = 5
        c = _Pty(ctx, d, cache)
        c.type(["<Up>"] * n_up + ["<Enter>", "quit", "<Enter>"])
        rc = c.finish()
        got2 = open(hist, encoding="utf-8", errors="replace").read().splitlines() if os.path.exists(hist) else None
        res.evaluations += 1
        res.cls("l2:two_sessions_one_history_file:" + variant)
        detail = {"exit": [ra, rb, rc], "history_file_after_the_two_sessions": got, "expected": want, "history_file_after_the_third": got2,
                  "third_session_terminal_tail": bytes(c.shown[-300:]).decode("utf-8", "replace")}
        if None in (ra, rb, rc):
            k = "session on a pseudo-terminal did not end within 60 s (undecided)"
            res.inconclusive[k] = res.inconclusive.get(k, 0) + 1
        elif 101 in (ra, rb, rc) or min(ra, rb, rc) < 0:
            res.violate("C20/pty/crash", "`lace debug` on a terminal crashed (exit %s)" % [ra, rb, rc], detail)
        elif got2 is None or len(got2) < 2 or got2[-1] != "quit" or got2[-2] != want[-n_up]:
            # (the file is the channel through which the submitted line is seen, as in the sessions above;
            # its layout is lace's own business)
            res.violate("C20/pty/submitted-lines", "a session started after the lines %r had been submitted (by two sessions open at the same time) submits %r after %d x <Up>, <Enter>; a plain editor starting from that history holds %r"
                        % (want, (got2 or [])[-2:-1], n_up, want[-n_up]), detail)
    res.require(["l2:two_sessions_one_history_file:empty_history", "l2:two_sessions_one_history_file:history_from_an_earlier_session"], "L2")


def c20_pty(ctx, res):
    """The line editor on a real (pseudo-)terminal, with standard output and standard error on the terminal
    or redirected to files: the lines it submits - read back from the history file it keeps in a
    private cache directory - are the lines a plain editor holds after the same keys. (The in-process
    layers feed keys to the editor directly; whether the editor is the reader at all is decided by
    how lace was started.)"""
    base = _dir(ctx, "c20")
    sessions = [
        (["ontinue", "<Left>"] + ["<Left>"] * 6 + ["c", "<Enter>", "exit", "<Enter>"], ["continue", "exit"]),
        (["registerss", "<BS>", "<Enter>", "prnt r0", "<Left>", "<Left>", "<Left>", "<Left>", "<Left>", "i", "<Enter>", "exit", "<Enter>"], ["registers", "print r0", "exit"]),
        (["sttep", "<Left>", "<Left>", "<Left>", "<Del>", "<Enter>", "echo a\u00e9", "<Left>", "<Left>", "x", "<Enter>", "quit", "<Enter>"], ["step", "echo xa\u00e9", "quit"]),
        (["registers", "<Enter>", "print r1", "<Enter>", "<Up>", "<Up>", "<Enter>", "<Up>", "<Down>", "exit", "<Enter>"], ["registers", "print r1", "registers", "exit"]),
        (["echo \U0001F642\u20ac", "<BS>", "<Left>", "<Right>", "!", "<Enter>", "exit", "<Enter>"], ["echo \U0001F642!", "exit"]),
        # every capital letter, digit and punctuation mark of the keyboard is a character to insert (no key of its own)
        (["echo ABCDEFGHIJKLM", "<Enter>", "echo NOPQRSTUVWXYZ", "<Enter>", "print PC", "<BS>", "<BS>", "r0", "<Enter>", "EXIT", "<Enter>"], ["echo ABCDEFGHIJKLM", "echo NOPQRSTUVWXYZ", "print r0", "EXIT"]),
        (["echo 0123456789 !@#$%^&*()_+-=[]{}|:'<>,.?/~`", "<Enter>", "C", "<BS>", "registers", "<Enter>", "quit", "<Enter>"], ["echo 0123456789 !@#$%^&*()_+-=[]{}|:'<>,.?/~`", "registers", "quit"]),
    ]
    jobs = []
    for streams in ("all_on_terminal", "stderr_to_file", "stdout_to_file", "both_to_file"):
        for keys, want in sessions:
            jobs.append((len(jobs), streams, keys, want, None))
    # terminals of a known width (a fresh pseudo-terminal reports 0 x 0), narrower than the line being edited: where
    # the cursor is drawn is the terminal's business, where it *is* in the line is not
    long_line = "echo " + "abcdefghij" * 5
    narrow = [([long_line, "<BS>", "<BS>", "<Enter>", "exit", "<Enter>"], [long_line[:-2], "exit"]),
              ([long_line, "<Left>", "<Left>", "X", "<Enter>", "exit", "<Enter>"], [long_line[:-2] + "X" + long_line[-2:], "exit"]),
              ([long_line, "<Enter>", "<Up>", "<BS>", "!", "<Enter>", "exit", "<Enter>"], [long_line, long_line[:-1] + "!", "exit"]),
              (["registers;registers;registers;registers;registers;help", "<Enter>", "exit", "<Enter>"], ["registers;registers;registers;registers;registers;help", "exit"])]
    for cols in (40, 20, 80):
        for keys, want in narrow:
            jobs.append((len(jobs), "all_on_terminal_%d_columns" % cols, keys, want, cols))

    def one(job):
        n, streams, keys, want, cols = job
        d = os.path.join(base, "s%d" % n)
        cache = os.path.join(d, "cache")
        os.makedirs(cache, exist_ok=True)
        _write(os.path.join(d, "p.asm"), "add r0 r0 #1\nadd r0 r0 #1\nhalt\n")
        rc, shown = _pty_session(ctx, d, cache, keys, streams, cols)
        return job, cache, rc, shown
    for (n, streams, keys, want, cols), cache, rc, shown in pmap(one, jobs, workers=6):
        if True:
            res.evaluations += 1
            res.cls("l2:editor_on_a_terminal:" + streams)
            hist = os.path.join(cache, "lace-debugger-history")
            got = open(hist, encoding="utf-8", errors="replace").read().splitlines() if os.path.exists(hist) else None
            detail = {"keys": keys, "streams": streams, "exit": rc, "history_file": got, "expected_submitted_lines": want,
                      "terminal_tail": shown[-300:].decode("utf-8", "replace")}
            if rc is None:
                k = "session on a pseudo-terminal did not end within 60 s (undecided)"
                res.inconclusive[k] = res.inconclusive.get(k, 0) + 1
            elif rc == 101 or rc < 0:
                res.violate("C20/pty/crash", "`lace debug` on a terminal crashed (exit %s)" % rc, detail)
            elif got != want:
                res.violate("C20/pty/submitted-lines", "with %s the editor submitted %r; a plain editor holds %r after the same keys" % (streams, got, want), detail)
    res.require(["l2:editor_on_a_terminal:all_on_terminal", "l2:editor_on_a_terminal:stderr_to_file", "l2:editor_on_a_terminal:both_to_file",
                 "l2:editor_on_a_terminal:all_on_terminal_40_columns", "l2:editor_on_a_terminal:all_on_terminal_20_columns"], "L2")


# ------------------------------------------------------------------ C05 (L2 sample)

def c05_cli(ctx, res, limit):
    cp = corpus(ctx)
    texts = cp["fuzz"][:limit]
    d = _dir(ctx, "c05")

    def one(ix):
        name = "z%d.asm" % ix
        _write(os.path.join(d, name), texts[ix].encode("utf-8"))
        f = ["-f", "stack"] if ix % 2 else []
        return ix, lace(ctx, ["check", name] + f, cwd=d, timeout=60)
    for ix, r in pmap(one, range(len(texts))):
        res.evaluations += 1
        res.cls("l2:check_fuzz")
        if r.rc is None:
            res.violate("C05/cli/hang", "`lace check` did not finish within 60 s", dict(r.brief(), source=texts[ix][:1500]))
        elif r.crashed:
            res.violate("C05/cli/crash", "`lace check` crashed (exit %s)" % r.rc, dict(r.brief(), source=texts[ix][:1500]))
        elif r.rc != 0 and not r.err.strip():
            res.violate("C05/cli/no-diagnostic", "`lace check` failed (exit %s) without printing a diagnostic" % r.rc,
                        dict(r.brief(), source=texts[ix][:1500]))
    # the other ways into the assembler (the short form `lace <file>`, run, compile, debug with an empty
    # script), with and without the flag, on texts that use the extension's words as instructions and as
    # would-be labels: a diagnostic or a run, never an abort
    words = ["push r0\nhalt\n", "pop r1\n", "call f\nhalt\nf rets\n", "rets\n", "push .fill x1\nld r0 push\nhalt\n", "halt\ncall halt\n", "POP: add r0 r0 #1\nhalt\n",
             "lea r0 m\nputs\nhalt\nm .stringz \"push pop\"\n", "; push pop call rets\nhalt\n",
             # no `.orig`, and a label out of reach of its field (found when the words are emitted)
             "ld r0 far\n.blkw #300\nfar halt\n", "far halt\n.blkw #300\nbrnzp far\n", "jsr far\n.blkw #1100\nfar ret\n", "lea r0 s\nhalt\nt .stringz \"" + "x" * 300 + "\"\ns .fill #0\n",
             "st r1 far\nsti r1 far\nldi r2 far\n.blkw x200\nfar .fill #0\n"]
    jobs = []
    for wi, t in enumerate(words):
        _write(os.path.join(d, "w%d.asm" % wi), t)
        for form in (["w%d.asm" % wi], ["w%d.asm" % wi, "-f", "stack"], ["w%d.asm" % wi, "--minimal"], ["run", "w%d.asm" % wi], ["run", "w%d.asm" % wi, "-f", "stack"],
                     ["compile", "w%d.asm" % wi, "w%d_%%d.lc3" % wi], ["debug", "w%d.asm" % wi, "--minimal"], ["check", "w%d.asm" % wi, "-f", "stack"]):
            jobs.append((wi, [a % len(jobs) if "%d" in a else a for a in form]))
    for (wi, form), r in pmap(lambda j: (j, lace(ctx, j[1], cwd=d, stdin=b"", timeout=60)), jobs):
        res.evaluations += 1
        res.cls("l2:extension_words_through:" + (form[0] if form[0] in ("run", "compile", "debug", "check") else "short_form"))
        if r.rc is None or r.crashed:
            res.violate("C05/cli/crash", "`lace %s` crashed or hung (exit %s)" % (" ".join(form), r.rc), dict(r.brief(), source=words[wi]))
        elif r.rc not in (0, 238) and not (r.err.strip() or r.out.strip()):
            res.violate("C05/cli/no-diagnostic", "`lace %s` failed (exit %s) without printing anything" % (" ".join(form), r.rc), dict(r.brief(), source=words[wi]))
    res.require(["l2:check_fuzz", "l2:extension_words_through:short_form", "l2:extension_words_through:run"], "L2")


# ------------------------------------------------------------------ C01 (L2 sample)

def c01_cli(ctx, res, limit):
    """`lace compile` output bytes against the reference image (also onto an existing, longer file)."""
    cp = corpus(ctx)
    entries = cp["structured"][:limit]
    d = _dir(ctx, "c01")

    def one(ix):
        e = entries[ix]
        src, obj = "i%d.asm" % ix, "i%d.lc3" % ix
        _write(os.path.join(d, src), e["source"])
        if ix % 2 == 0:
            _write(os.path.join(d, obj), b"\xAB\xCD" * 4096)
        c = lace(ctx, ["compile", src, obj] + feat(e), cwd=d)
        data = open(os.path.join(d, obj), "rb").read() if os.path.exists(os.path.join(d, obj)) else None
        return ix, c, data
    for ix, c, data in pmap(one, range(len(entries))):
        e = entries[ix]
        res.evaluations += 1
        res.cls("l2:compile")
        want = b"".join(int(w).to_bytes(2, "big") for w in e["image"])
        if c.rc != 0 or data != want:
            res.violate("C01/cli/object-bytes", "`lace compile` does not write the reference image (exit %s, %s bytes, expected %d)"
                        % (c.rc, None if data is None else len(data), len(want)),
                        {"source": e["source"][-800:], "compile": c.brief(), "destination_pre_existed": ix % 2 == 0,
                         "file_hex": None if data is None else data[:64].hex(), "expected_hex": want[:64].hex()})
    # what runs is the encoding of the source that is there now: an object file with the same stem in the
    # same directory (newer than the source: the output of an earlier `compile` of other text) is not it
    d2 = _dir(ctx, "c01_sibling")
    tags = ["ALPHA", "BRAVO", "CHARLIE", "DELTA", "ECHO", "FOXTROT"]

    def prog(tag):
        return "lea r0 m\nputs\nhalt\nm .stringz \"%s\"\n" % tag
    for k, tag in enumerate(tags):
        other = tags[(k + 1) % len(tags)]
        _write(os.path.join(d2, "o%d.asm" % k), prog(other))
        for ext in ("lc3", "obj")[:1 + k % 2]:
            lace(ctx, ["compile", "o%d.asm" % k, "p%d.%s" % (k, ext)], cwd=d2)
        _write(os.path.join(d2, "p%d.asm" % k), prog(tag))
        old = time.time() - 7200 - k
        os.utime(os.path.join(d2, "p%d.asm" % k), (old, old))
        for args in (["run", "p%d.asm" % k, "--minimal"], ["p%d.asm" % k, "--minimal"] if k % 2 else ["run", "--minimal", "p%d.asm" % k]):
            r = lace(ctx, args, cwd=d2, timeout=30)
            res.evaluations += 1
            res.cls("l2:run_next_to_object_file_of_other_text")
            body, _h = program_output(r.out)
            if r.rc != 0 or tag.encode() not in body or other.encode() in body:
                res.violate("C01/cli/ran-another-image", "`lace %s` printed %r (exit %s): the source prints %r, the object file lying next to it %r"
                            % (" ".join(args), body[-40:], r.rc, tag, other), dict(r.brief(), source=prog(tag)))
    # the default destination: the source's name with its last extension replaced, next to where lace runs -
    # also for names with several dots, whose siblings differ only behind the first dot
    d3 = _dir(ctx, "c01_default_dest")
    fam = [("blink.asm", "ALPHA"), ("blink.v2.asm", "BRAVO"), ("blink.v2.final.asm", "CHARLIE"), ("my prog.1.asm", "DELTA"), (".hidden.asm", "ECHO")]
    for name, tag in fam:
        _write(os.path.join(d3, name), prog(tag))
    for name, tag in fam:
        lace(ctx, ["compile", name], cwd=d3)
    for name, tag in fam:
        res.evaluations += 1
        res.cls("l2:default_destination")
        dest = os.path.join(d3, name[:-4] + ".lc3")
        want = bytes.fromhex("3000e002f022f025") + b"".join(ord(c).to_bytes(2, "big") for c in tag) + b"\x00\x00"
        data = open(dest, "rb").read() if os.path.exists(dest) else None
        if data != want:
            res.violate("C01/cli/default-destination", "after compiling %s without a destination, %s holds %s; the image of that source is %d bytes ending in %r"
                        % ([n for n, _ in fam], os.path.basename(dest), "nothing (no such file)" if data is None else "%d other bytes" % len(data), len(want), tag),
                        {"directory": sorted(os.listdir(d3)), "source": prog(tag)})
    # images that end at the very last words of memory (and one before): origin word, then every statement word
    d4 = _dir(ctx, "c01_top")
    body = ["add r0 r0 #1", "not r1 r0", ".fill xBEEF", "and r2 r2 #0", ".fill x1234"]
    words = [0x1021, 0x923F, 0xBEEF, 0x54A0, 0x1234]
    k = 0
    for n in (1, 2, 3, 5):
        for end in (0xFFFF, 0xFFFE, 0xFDFF, 0xFE00, 0x7FFF):
            origin = end - n + 1
            for spell in ("x%04X", "#%d"):
                if origin > 0x7FFF and spell == "#%d" and k % 2:
                    spell = "#%d"
                name = "t%d.asm" % k
                k += 1
                text = ".orig " + (spell % origin) + "\n" + "\n".join(body[:n]) + "\n"
                _write(os.path.join(d4, name), text)
                c = lace(ctx, ["compile", name, name[:-4] + ".lc3"], cwd=d4)
                res.evaluations += 1
                res.cls("l2:compile_image_ending_at:x%04X" % end)
                want = b"".join(w.to_bytes(2, "big") for w in [origin] + words[:n])
                dest = os.path.join(d4, name[:-4] + ".lc3")
                data = open(dest, "rb").read() if os.path.exists(dest) else None
                if c.rc != 0 or data != want:
                    res.violate("C01/cli/object-bytes", "`lace compile` of %d statements at origin x%04X (last word at x%04X) does not write the reference image (exit %s, %s bytes, expected %d)"
                                % (n, origin, end, c.rc, None if data is None else len(data), len(want)),
                                {"source": text, "compile": c.brief(), "file_hex": None if data is None else data.hex(), "expected_hex": want.hex()})
    # statements that have no encoding (an operand one beyond its field, in every spelling) produce no image
    d5 = _dir(ctx, "c01_none")
    beyond = ["and r1 r2 x10", "add r1 r2 0x10", "ADD R1 R2 X10", "add r1 r2 #16", "and r1 r2 x-11", "add r1 r2 #-17", "ldr r1 r2 x20", "str r1 r2 0X20", "ldr r1 r2 #32", "str r1 r2 x-21", "ldr r1 r2 #-33",
              "trap x100", "trap #256", "br x100", "ld r1 #256", "lea r1 x-101", "jsr x400", "jsr #-1025", "st r1 #-257", ".fill x10000", ".fill #65536", ".fill #-32769", ".orig x10000",
              # a minus sign in front of more than x8000 is no 16-bit value, whatever it would wrap to
              ".fill x-FFFF", "add r0 r0 x-FFF1", ".fill x-8001", "ld r0 x-FFFF", "and r1 r1 0x-FFF0",
              # a label 65521 (65300, 65536 - 14) words away is out of reach of every field: distances are not taken modulo 65536
              "far halt\n.blkw #65520\nld r0 far", "far halt\n.blkw #65300\nbr far", "lea r1 far\n.blkw #65530\nfar halt", "jsr far\n.blkw #65000\nfar ret"]
    for k, stmt in enumerate(beyond):
        name = "n%d.asm" % k
        _write(os.path.join(d5, name), stmt + "\nhalt\n")
        c = lace(ctx, ["compile", name, "n%d.lc3" % k], cwd=d5)
        res.evaluations += 1
        res.cls("l2:statement_without_an_encoding")
        if c.rc == 0 or os.path.exists(os.path.join(d5, "n%d.lc3" % k)):
            data = open(os.path.join(d5, "n%d.lc3" % k), "rb").read() if os.path.exists(os.path.join(d5, "n%d.lc3" % k)) else b""
            res.violate("C01/cli/image-for-a-statement-without-encoding", "`%s` has an operand one beyond its field and no encoding; `lace compile` exits %s and writes x%s"
                        % (stmt, c.rc, data.hex()), {"source": stmt, "compile": c.brief()})
    res.require(["l2:compile", "l2:run_next_to_object_file_of_other_text", "l2:default_destination", "l2:compile_image_ending_at:xFFFF", "l2:compile_image_ending_at:xFFFE",
                 "l2:statement_without_an_encoding"], "L2")


# ------------------------------------------------------------------ valgrind samples (thorough)

def valgrind_samples(ctx, res, prop):
    """CLI invocations under memcheck for code Miri cannot reach (main.rs paths, file I/O)."""
    import layers
    cp = corpus(ctx)
    d = _dir(ctx, "vg")
    inv = []
    if prop == "C05":
        for ix, t in enumerate(cp["fuzz"][:40]):
            _write(os.path.join(d, "v%d.asm" % ix), t.encode("utf-8"))
            inv.append((["check", "v%d.asm" % ix] + (["-f", "stack"] if ix % 2 else []), b"", d))
    elif prop == "C06":
        for ix, e in enumerate(cp["structured"][:15]):
            _write(os.path.join(d, "v%d.asm" % ix), e["source"])
            inv.append((["compile", "v%d.asm" % ix, "v%d.lc3" % ix] + feat(e), b"", d))
        for ix, data in enumerate([b"", b"\x30", b"\x30\x00", b"\x30\x00\xf0\x25", b"\xff\xff\xf0\x25", b"\xff\xfe\xf0\x25\x00"]):
            _write(os.path.join(d, "w%d.obj" % ix), data)
            inv.append((["run", "w%d.obj" % ix, "--minimal"], b"", d))
    elif prop == "C09":
        for ix, e in enumerate([e for e in cp["structured"] if not e["input"]][:20]):
            _write(os.path.join(d, "v%d.asm" % ix), e["source"])
            inv.append((["debug", "v%d.asm" % ix, "--minimal", "--command", "step;si 3;registers;break add ^1;continue;assembly;print r0;eval add r1 r1 #1;reset;continue;quit"] + feat(e), b"", d))
    layers.valgrind(ctx, res, prop, inv)
    res.require(["valgrind_runs"], "L3")
