"""Sanitizer layers shared by several properties: Miri and valgrind."""
import os
import subprocess
import time

import common


def miri(ctx, res, prop, shards=8, extra=None, timeout=3000):
    """Run the harness for `prop` under Miri (reduced workload, same oracles), sharded over processes."""
    manifest = os.path.join(common.VERIF, "harness", "Cargo.toml")
    tdir = os.path.join(common.TARGET, "miri")
    env = dict(common.ENV)
    env["MIRIFLAGS"] = "-Zmiri-disable-isolation -Zmiri-ignore-leaks"
    procs = []
    t0 = time.time()
    # build once (first shard), then the rest in parallel
    def cmd(i, out):
        return ["cargo", "+nightly", "miri", "run", "--offline", "--manifest-path", manifest,
                "--target-dir", tdir, "--", prop, "--tier", ctx.tier, "--seed", str(ctx.seed),
                "--profile", "miri", "--miri", "--shard", "%d/%d" % (i, shards), "--out", out] + (extra or [])
    outs = [os.path.join(ctx.scratch, "miri-%s-%d.json" % (prop, i)) for i in range(shards)]
    logs = [o + ".log" for o in outs]

    def start(i):
        return subprocess.Popen(cmd(i, outs[i]), stdin=subprocess.DEVNULL, stdout=subprocess.DEVNULL,
                                stderr=open(logs[i], "w"), env=env)
    first = start(0)
    # wait until the first one has finished compiling (its out file or exit), but at most 10 min
    deadline = time.time() + 600
    while first.poll() is None and time.time() < deadline:
        with open(logs[0]) as f:
            if "Running" in f.read():
                break
        time.sleep(2)
    procs = [first] + [start(i) for i in range(1, shards)]
    reports = 0
    for i, p in enumerate(procs):
        try:
            p.wait(timeout=max(10, timeout - (time.time() - t0)))
        except subprocess.TimeoutExpired:
            p.kill()
            res.inconclusive["miri shard %d watchdog" % i] = 1
            continue
        log = open(logs[i]).read()
        if "Undefined Behavior" in log or "error: unsupported operation" in log or "memory leaked" in log:
            reports += 1
            ub = [l for l in log.splitlines() if "error" in l][:3]
            res.violate("%s/miri/%s" % (prop, _site(log)), "Miri: " + " | ".join(ub),
                        {"shard": i, "log_tail": log[-3000:]},
                        {"layer": "L2", "fn": "miri", "args": {"prop": prop, "shard": i, "shards": shards}})
        elif p.returncode != 0 or not os.path.exists(outs[i]):
            res.inconclusive["miri shard %d ended with status %s" % (i, p.returncode)] = 1
            res.extra.setdefault("miri_logs", []).append(log[-1500:])
        else:
            import json
            doc = json.load(open(outs[i]))
            doc["_cmd"] = ["", "", "", "", "", "", "", "", "", ""] + ["--miri", "--shard", "%d/%d" % (i, shards)]
            res.add_lv(doc, "miri-%d" % i)
    res.extra["miri"] = {"shards": shards, "reports": reports, "wall_s": round(time.time() - t0, 1)}
    res.cls("miri_shards_run", shards)


def _site(log):
    for line in log.splitlines():
        line = line.strip()
        if line.startswith("--> ") and "/repo/" in line:
            return line[4:].split(":")[0].replace("/repo/", "")
    return "unknown-site"


def valgrind(ctx, res, prop, invocations, timeout=300):
    """Run CLI invocations (args, stdin bytes, cwd) of the debug binary under valgrind memcheck.
    Invalid accesses / definite leaks are violations of `prop`; other failures are inconclusive."""
    import shutil
    vg = shutil.which("valgrind")
    if not vg:
        res.inconclusive["valgrind not available"] = 1
        return
    exe = common.cli_bin(ctx)
    # leaks are not errors here: the CLI deliberately leaks the source text for 'static lifetime
    wrapper = [vg, "-q", "--error-exitcode=97", "--leak-check=no"]

    def one(inv):
        args, stdin, cwd = inv
        return inv, common.lace(ctx, args, stdin=stdin, cwd=cwd, timeout=timeout, wrapper=wrapper)
    n = 0
    for (args, stdin, cwd), r in common.pmap(one, invocations, workers=12):
        n += 1
        res.evaluations += 1
        res.cls("valgrind_runs")
        text = r.err.decode("utf-8", "replace")
        if r.rc == 97 or "Invalid read" in text or "Invalid write" in text or "Invalid free" in text or "uninitialised value" in text:
            first = next((l for l in text.splitlines() if l.startswith("==") and ("Invalid" in l or "uninitialised" in l or "Mismatched" in l)), "memcheck report")
            res.violate("%s/valgrind/%s" % (prop, first.split("== ")[-1][:40].replace(" ", "-")),
                        "memcheck: %s" % first, {"argv": args, "stderr_tail": text[-2500:]})
    res.extra["valgrind"] = {"invocations": n}


def miri_single(ctx, prop, extra):
    """One harness run under Miri (used to replay a witness found by a Miri shard)."""
    import json
    manifest = os.path.join(common.VERIF, "harness", "Cargo.toml")
    tdir = os.path.join(common.TARGET, "miri")
    env = dict(common.ENV)
    env["MIRIFLAGS"] = "-Zmiri-disable-isolation -Zmiri-ignore-leaks"
    out = os.path.join(ctx.scratch, "miri-replay.json")
    extra = [a for a in extra if a != "--miri"]
    cmd = ["cargo", "+nightly", "miri", "run", "--offline", "--manifest-path", manifest, "--target-dir", tdir, "--",
           prop, "--tier", ctx.tier, "--seed", str(ctx.seed), "--profile", "miri", "--miri", "--out", out] + extra
    p = subprocess.run(cmd, stdin=subprocess.DEVNULL, stdout=subprocess.DEVNULL, stderr=subprocess.PIPE, env=env, text=True)
    if not os.path.exists(out):
        raise common.Inconclusive("Miri replay produced no result: " + p.stderr[-800:])
    doc = json.load(open(out))
    doc["_cmd"] = cmd
    return doc
