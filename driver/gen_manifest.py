#!/usr/bin/env python3
"""Regenerate /verif/MANIFEST.json from driver/props.py (single source of truth)."""
import json
import os
import subprocess
import sys

HERE = os.path.dirname(os.path.abspath(__file__))
sys.path.insert(0, HERE)
import props  # noqa: E402

VERIF = os.path.dirname(HERE)
ALL = [json.loads(l)["id"] for l in open(os.path.join(VERIF, "properties.jsonl"))]

hook_commits = subprocess.run(["git", "-C", "/repo", "log", "--format=%H %s", "--grep=^verif:"],
                              capture_output=True, text=True).stdout.strip().splitlines()

checks = []
for pid in ALL:
    if pid not in props.PROPS:
        continue
    p = props.PROPS[pid]
    checks.append({
        "property_id": pid,
        "quick_cmd": "./check %s --tier quick" % pid,
        "thorough_cmd": "./check %s --tier thorough" % pid,
        "evidence_file": "/verif/evidence/%s.json" % pid,
        "replay_cmd_template": "./check %s --replay {path}" % pid,
        "engine": "lv+driver",
        "level_claimed": {"category": p["level"], "text": p["level_text"], "design_ref": p["design_ref"]},
        "level_note": p["level_note"],
        "technique": p["technique"],
    })

manifest = {
    "version": 1,
    "setup_cmd": "./setup.sh",
    "hooks": {
        "guard": "cargo feature `verif` of the lace crate (off by default)",
        "enable": "the harness crate /verif/harness depends on lace = { path = \"/repo\", features = [\"verif\"] }; the CLI layers build /repo with the feature off",
        "baseline_off_cmd": "cd /repo && cargo test --workspace --no-fail-fast --offline",
        "source_commits": [l.split()[0] for l in hook_commits],
        "add_only": True,
    },
    "engines": [
        {"name": "lv+driver", "path": "/verif/check (driver/*.py) + /verif/harness (Rust, bin lv)",
         "serves_properties": [c["property_id"] for c in checks],
         "kind_free_text": "runtime monitors: reference-model oracles over hooked state and event logs (in-process, lace built with --features verif, overflow/debug assertions on and off), black-box observers on the unmodified CLI (exit status, files, strace fault injection), Miri and valgrind layers"},
    ],
    "checks": checks,
    "notes": "Verdicts are three-valued: exit 0 held / exit 1 VIOLATION / exit 2 INCONCLUSIVE (build failure, floors not observed). Known findings: /verif/known_findings.json.",
    "not_applicable": [{"property_id": pid, "reason": props.NOT_YET.get(pid, "monitor not built yet (work in progress, see DESIGN.md section 4)")}
                       for pid in ALL if pid not in props.PROPS],
}
with open(os.path.join(VERIF, "MANIFEST.json"), "w") as f:
    json.dump(manifest, f, indent=1)
    f.write("\n")
print("MANIFEST.json: %d checks, %d not_applicable" % (len(checks), len(manifest["not_applicable"])))
