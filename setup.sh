#!/bin/sh
# Build everything the checks need, offline, from files on disk. Checks rebuild incrementally.
set -e
cd "$(dirname "$0")"
export CARGO_NET_OFFLINE=true
cargo build --offline --profile checked --manifest-path harness/Cargo.toml --target-dir .target/harness
cargo build --offline --profile release --manifest-path harness/Cargo.toml --target-dir .target/harness
cargo build --offline --manifest-path /repo/Cargo.toml --target-dir .target/cli --bin lace
cargo build --offline --release --manifest-path /repo/Cargo.toml --target-dir .target/cli --bin lace
