#!/usr/bin/env python3
import json, sys
for l in open('/tmp/eval/results.jsonl'):
    l=l.strip()
    if not l.startswith('{'): print(l); continue
    r=json.loads(l)
    ok = r.get('tests_with_mutation',{}).get('passed')
    print(r['mutation'].replace('/tmp/wt/',''), 'tests', ok, 'demo(mut/clean)', r.get('demo_with_mutation_exit'), r.get('demo_clean_exit'), r.get('error',''))
    for k,v in r['checks'].items():
        keys=[x.strip() for x in v['lines'] if x.strip().startswith('key=')]
        print('    %s exit=%s %.0fs %s' % (k, v['exit'], v['wall_s'], ' | '.join(x[:150] for x in keys[:3]) or v['lines'][-1:]))
