#!/usr/bin/env python3
"""Copy confirmed seeded changes from the sub-agents' scratch worktrees into /verif/seeded/<id>/
(patch.diff, the demonstration, README.md as written by the sub-agent, meta.json) and regenerate
/verif/seeded/INDEX.md from the meta.json files.

  tools/keep_seeded.py            # import everything listed in /tmp/eval/results.jsonl
  tools/keep_seeded.py --index    # only regenerate INDEX.md
"""
import glob
import json
import os
import re
import shutil
import sys

SEEDED = "/verif/seeded"


def needs_of(readme):
    """First paragraph(s) of the sub-agent's README that say what is needed to manifest."""
    text = open(readme).read()
    m = re.search(r"(?is)(what (exactly )?is needed.*?|trigger.*?|needs.*?|manifest.*?)(\n#|\n\n\n|\Z)", text)
    para = (m.group(1) if m else text)[:900]
    return " ".join(para.split())


def import_results():
    recs = {}
    for line in open("/tmp/eval/results.jsonl"):
        line = line.strip()
        if not line.startswith("{"):
            continue
        r = json.loads(line)
        key = r["mutation"]
        if key not in recs:
            recs[key] = {"confirm": None, "checks": {}}
        if "tests_with_mutation" in r:
            good = (r["tests_with_mutation"]["passed"] == 72 and r.get("demo_with_mutation_exit") not in (0, None)
                    and r.get("demo_clean_exit") == 0)
            # a later, complete confirmation replaces an earlier incomplete one (never the reverse)
            if recs[key]["confirm"] is None or good:
                recs[key]["confirm"] = r
        for pid, c in r["checks"].items():
            recs[key]["checks"].setdefault(pid, []).append(c)
    for mdir, rec in sorted(recs.items()):
        c = rec["confirm"]
        if not c:
            continue
        ok = (c["tests_with_mutation"]["passed"] == 72 and c.get("demo_with_mutation_exit") not in (0, None)
              and c.get("demo_clean_exit") == 0)
        m = re.match(r"/tmp/wt/(C\d+)/mutations/(\d+)", mdir)
        prop, k = m.group(1), m.group(2)
        sid = "%s-%s" % (prop, k)
        if not ok:
            print("NOT KEPT (confirmation failed):", sid, c["tests_with_mutation"]["passed"], c.get("demo_with_mutation_exit"), c.get("demo_clean_exit"))
            continue
        if not os.path.isdir(mdir):
            print("source directory gone, keeping existing copy:", sid)
            dst = os.path.join(SEEDED, sid)
        else:
            dst = os.path.join(SEEDED, sid)
            os.makedirs(dst, exist_ok=True)
            for f in os.listdir(mdir):
                if os.path.isfile(os.path.join(mdir, f)):
                    shutil.copy(os.path.join(mdir, f), os.path.join(dst, f))
        detected, missed, history = [], [], []
        for pid, runs in rec["checks"].items():
            last = runs[-1]
            keys = [l.strip()[4:].split(" :: ")[0] for l in last["lines"] if l.strip().startswith("key=")]
            history.append({"check": pid, "runs": [{"exit": r["exit"], "first_keys": [l.strip()[4:].split(" :: ")[0] for l in r["lines"] if l.strip().startswith("key=")][:3]} for r in runs]})
            if last["exit"] == 1:
                detected.append({"check": pid, "tier": "quick", "keys": keys[:3]})
            else:
                missed.append({"check": pid, "tier": "quick", "exit": last["exit"]})
        readme = os.path.join(dst, "README.md")
        meta = {
            "id": sid,
            "breaks_property": prop,
            "origin": "written by a sub-agent that was given only the property text and a scratch worktree of /repo",
            "needs_to_manifest": needs_of(readme) if os.path.exists(readme) else "see README.md",
            "confirmed": {
                "how": "tools/eval_mutation.py in an isolated copy (/tmp/eval): git apply; cargo build --offline; cargo test --workspace --no-fail-fast --offline; demonstration with the change; git checkout; demonstration without it",
                "baseline_tests_passed_with_change": c["tests_with_mutation"]["passed"],
                "demonstration_exit_with_change": c.get("demo_with_mutation_exit"),
                "demonstration_exit_without_change": c.get("demo_clean_exit"),
            },
            "checks_run": "./check <ID> --tier quick against the tree with the change applied (VERIF_SEED=1)",
            "detected_by": detected,
            "not_detected_by": missed,
            "history": history,
        }
        with open(os.path.join(dst, "meta.json"), "w") as f:
            json.dump(meta, f, indent=1, ensure_ascii=False)
            f.write("\n")
        print("kept", sid, "detected by", [d["check"] for d in detected], "missed by", [m["check"] for m in missed])


def index():
    rows = []
    for mp in sorted(glob.glob(SEEDED + "/*/meta.json")):
        m = json.load(open(mp))
        det = "; ".join("%s (%s)" % (d["check"], ", ".join(d["keys"][:2])) for d in m["detected_by"]) or "-"
        mis = ", ".join(d["check"] for d in m["not_detected_by"]) or "-"
        rows.append("| %s | %s | %s | %s | %s |" % (m["id"], m["breaks_property"], m["needs_to_manifest"][:260].replace("|", "/"), det.replace("|", "/"), mis))
    with open(SEEDED + "/INDEX.md", "w") as f:
        f.write("# Seeded changes used to validate the monitors\n\n")
        f.write("Each directory holds `patch.diff` (apply with `git -C /repo apply`), the demonstration, the sub-agent's README and `meta.json`.\n")
        f.write("None of these changes is ever committed to /repo. `history` in meta.json keeps earlier runs too: a change that an earlier version of a check missed and a strengthened version catches shows both.\n\n")
        f.write("| id | breaks | needs to manifest (excerpt) | reported by (first keys) | not reported by |\n|---|---|---|---|---|\n")
        f.write("\n".join(rows) + "\n")
    print("INDEX.md:", len(rows), "seeded changes")


if __name__ == "__main__":
    os.makedirs(SEEDED, exist_ok=True)
    if "--index" not in sys.argv:
        import_results()
    index()
