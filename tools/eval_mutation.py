#!/usr/bin/env python3
"""Evaluate seeded mutations in an isolated copy (/tmp/eval): confirm each one compiles, keeps the
72 baseline tests green, fails its demonstration and passes it when undone; then run the named
checks of /verif against the mutated tree and record what they report.

  tools/eval_mutation.py <mutation_dir> <ID> [<ID> ...] [--tier quick|thorough] [--skip-confirm]
"""
import json
import os
import shutil
import subprocess
import sys
import time

EVAL = os.environ.get("EVAL_DIR", "/tmp/eval")
REPO = EVAL + "/repo"
VERIF = EVAL + "/verif"
ENV = dict(os.environ, CARGO_NET_OFFLINE="true", VERIF_REPO=REPO)


def sh(cmd, cwd=None, timeout=3600):
    p = subprocess.run(cmd, shell=True, cwd=cwd, env=ENV, stdout=subprocess.PIPE, stderr=subprocess.STDOUT, text=True, timeout=timeout)
    return p.returncode, p.stdout


def setup():
    os.makedirs(EVAL, exist_ok=True)
    if not os.path.exists(REPO):
        sh("git clone -q /repo %s" % REPO)
    sh("git fetch -q origin && git checkout -q --detach origin/main && git checkout -q -- . && git clean -fdq -e target", cwd=REPO)
    # sync /verif (committed files and working tree, without build output)
    sh("rsync -a --delete --exclude .target --exclude replays --exclude evidence --exclude .git /verif/ %s/" % VERIF)
    sh("sed -i 's|path = \"/repo\"|path = \"%s\"|' %s/harness/Cargo.toml" % (REPO, VERIF))


def main():
    args = sys.argv[1:]
    tier = "quick"
    confirm = True
    if "--tier" in args:
        i = args.index("--tier")
        tier = args[i + 1]
        del args[i:i + 2]
    if "--skip-confirm" in args:
        args.remove("--skip-confirm")
        confirm = False
    mdir, ids = args[0], args[1:]
    setup()
    rec = {"mutation": mdir, "tier": tier, "checks": {}}
    patch = os.path.join(mdir, "patch.diff")
    rc, out = sh("git apply --check %s" % patch, cwd=REPO)
    if rc != 0:
        rec["error"] = "patch does not apply: " + out[-300:]
        print(json.dumps(rec))
        return
    demo = None
    for name in ("demo_unit_test.rs", "demo_test.rs", "demo.sh"):   # the last one present wins: prefer the CLI demonstration
        if os.path.exists(os.path.join(mdir, name)):
            demo = name
    if confirm:
        sh("git apply %s" % patch, cwd=REPO)
        rc, out = sh("cargo build --offline 2>&1 | tail -3", cwd=REPO)
        rc, out = sh("cargo test --workspace --no-fail-fast --offline 2>&1 | grep -E '^test result'", cwd=REPO)
        passed = sum(int(l.split("ok. ")[1].split(" passed")[0]) for l in out.splitlines() if "ok. " in l)
        failed = "FAILED" in out or "failed;" in out and any(" 0 failed" not in l for l in out.splitlines())
        rec["tests_with_mutation"] = {"passed": passed, "output": out.strip().splitlines()}
        if demo == "demo.sh":
            rc_m, out_m = sh("bash %s" % os.path.join(mdir, demo), cwd=REPO, timeout=600)
            rec["demo_with_mutation_exit"] = rc_m
        elif demo == "demo_test.rs":
            shutil.copy(os.path.join(mdir, demo), os.path.join(REPO, "tests", "zz_demo_test.rs"))
            rc_m, out_m = sh("cargo test --offline --test zz_demo_test 2>&1 | tail -5", cwd=REPO, timeout=900)
            rec["demo_with_mutation_exit"] = 0 if "test result: ok" in out_m else 1
        elif demo == "demo_unit_test.rs":
            tgt = os.path.join(REPO, "src/debugger/command/reader/terminal.rs")
            with open(tgt, "a") as f:
                f.write("\n" + open(os.path.join(mdir, demo)).read())
            rc_m, out_m = sh("cargo test --offline --lib demo 2>&1 | tail -8", cwd=REPO, timeout=900)
            rec["demo_with_mutation_exit"] = 0 if ("test result: ok" in out_m and " 0 passed" not in out_m) else 1
        sh("git checkout -q -- . ", cwd=REPO)
        if demo == "demo_unit_test.rs":
            tgt = os.path.join(REPO, "src/debugger/command/reader/terminal.rs")
            with open(tgt, "a") as f:
                f.write("\n" + open(os.path.join(mdir, demo)).read())
            rc_c, out_c = sh("cargo test --offline --lib demo 2>&1 | tail -8", cwd=REPO, timeout=900)
            rec["demo_clean_exit"] = 0 if ("test result: ok" in out_c and " 0 passed" not in out_c) else 1
            sh("git checkout -q -- . ", cwd=REPO)
        if demo == "demo.sh":
            sh("cargo build --offline 2>&1 | tail -1", cwd=REPO)
            rc_c, out_c = sh("bash %s" % os.path.join(mdir, demo), cwd=REPO, timeout=600)
            rec["demo_clean_exit"] = rc_c
        elif demo == "demo_test.rs":
            rc_c, out_c = sh("cargo test --offline --test zz_demo_test 2>&1 | tail -5", cwd=REPO, timeout=900)
            rec["demo_clean_exit"] = 0 if "test result: ok" in out_c else 1
            os.remove(os.path.join(REPO, "tests", "zz_demo_test.rs"))
    # ---- the checks against the mutated tree
    sh("git apply %s" % patch, cwd=REPO)
    for pid in ids:
        t0 = time.time()
        rc, out = sh("./check %s --tier %s" % (pid, tier), cwd=VERIF, timeout=7200)
        lines = [l for l in out.splitlines() if l.startswith(("VIOLATION", "  key=", "KNOWN", "INCONCLUSIVE", "HELD", "VIOLATED"))]
        rec["checks"][pid] = {"exit": rc, "wall_s": round(time.time() - t0, 1), "lines": lines[:12]}
    sh("git checkout -q -- .", cwd=REPO)
    print(json.dumps(rec))
    with open("/tmp/eval/results.jsonl", "a") as f:
        f.write(json.dumps(rec) + "\n")


if __name__ == "__main__":
    main()
